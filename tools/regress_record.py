#!/usr/bin/env python3
"""Fold the results of tools/regress_seeds.sh (/tmp/regress) into seeded/<ID>/meta.json: per (seed, check) the detection entry is
refreshed with the result on the current goom HEAD; a patch that no longer applies (a later fix touched the same lines) keeps its
historical entry and is marked `stale_at`."""
import glob, json, os, re, subprocess, sys
V = os.path.dirname(os.path.dirname(os.path.abspath(__file__)))
R = sys.argv[1] if len(sys.argv) > 1 else '/tmp/regress'
head = subprocess.run(['git', '-C', '/repo', 'log', '--format=%h', '-1'], capture_output=True, text=True).stdout.strip()
res = {}
for l in open(R + '/summary.txt'):
    m = re.match(r'(\S+) under (C\d+): try_seed rc=(\d+)', l)
    if m:
        res[(m.group(1), m.group(2))] = int(m.group(3))
def first_violation(seed, prop):
    f = f'{R}/{seed}-{prop}.txt'
    if os.path.exists(f):
        for l in open(f, errors='replace'):
            m = re.match(r'VIOLATION property=(C\d+) replay=(\S+)(.*)', l)
            if m:
                what = ''
                try:
                    what = json.load(open(m.group(2))).get('what', '')[:400]
                except Exception:
                    pass
                return (m.group(3).strip() + ' ' + what).strip()
    return ''
n = 0
for d in sorted(glob.glob(V + '/seeded/C*')):
    s = os.path.basename(d)
    mp = d + '/meta.json'
    m = json.load(open(mp))
    det = [x for x in m.get('detection', []) if isinstance(x, dict)]
    old_text = [x for x in m.get('detection', []) if not isinstance(x, dict)] if isinstance(m.get('detection'), list) else []
    if isinstance(m.get('detection'), str):
        det = [{'check': s.split('-')[0], 'detected': bool(m.get('detected')), 'exit': 1 if m.get('detected') else 0, 'first_violation': m['detection']}]
    touched = False
    for (sd, p), rc in res.items():
        if sd != s:
            continue
        e = next((x for x in det if x['check'] == p), None)
        if rc in (0, 1):
            fv = first_violation(s, p) if rc == 1 else ''
            if e is None:
                e = {'check': p}; det.append(e)
            e.update({'detected': rc == 1, 'exit': rc, 'at': head})
            if fv or rc == 0:
                e['first_violation'] = fv
            e.pop('stale_at', None)
        else:
            if e is None:
                e = {'check': p, 'detected': False, 'exit': rc, 'first_violation': ''}; det.append(e)
            e['stale_at'] = head
        touched = True
    if touched:
        m['detection'] = sorted(det, key=lambda x: x['check'])
        m['detected'] = any(x.get('detected') for x in det)
        json.dump(m, open(mp, 'w'), indent=1)
        n += 1
print('updated', n, 'at', head)
