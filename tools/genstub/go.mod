module goomverif/genstub

go 1.23
