// Command genstub regenerates lean/GoomVerif/Gen/StubHolder.lean from goom's
// internal/bytecode/stub/holder.go (property C20).
//
// It accepts exactly the statement skeleton of acquireFromHolder that the hand-written micro-step model
// Model/Stub.lean assumes
//
//	P := atomic.LoadUintptr(&placeHolderIns.off)          (micro-step load)
//	if C1 { return 0, nil, <error> }                      (micro-step check1)
//	Q := atomic.AddUintptr(&placeHolderIns.off, uintptr(len))   (micro-step add)
//	if C2 { return 0, nil, <error> }                      (micro-step check2)
//	[ x := pure expression ]*
//	B := (*[]byte)(unsafe.Pointer(&reflect.SliceHeader{Data: e, Len: e, Cap: e}))
//	return e, B, nil                                      (micro-step ret)
//
// (calls to logger.* are ignored) and translates the expressions C1, C2, Data, Len, Cap, the returned address and
// the three fields set by init() into Lean definitions over Nat with explicit 64-bit wrap-around.  Anything else
// is reported as `file:line: untranslatable`, which the check treats as a broken obligation.
package main

import (
	"flag"
	"fmt"
	"bytes"
	"go/ast"
	"go/parser"
	"go/printer"
	"go/token"
	"os"
	"path/filepath"
	"sort"
	"strings"
)

var fset = token.NewFileSet()

type bad struct {
	pos token.Pos
	msg string
}

func fail(n ast.Node, format string, a ...interface{}) {
	panic(bad{n.Pos(), fmt.Sprintf(format, a...)})
}

// env maps Go identifiers to Lean terms.
type env map[string]string

func isSel(e ast.Expr, x, sel string) bool {
	s, ok := e.(*ast.SelectorExpr)
	if !ok {
		return false
	}
	id, ok := s.X.(*ast.Ident)
	return ok && id.Name == x && s.Sel.Name == sel
}

// expr translates a pure uintptr/int expression.
func expr(e ast.Expr, en env) string {
	switch v := e.(type) {
	case *ast.ParenExpr:
		return expr(v.X, en)
	case *ast.Ident:
		if t, ok := en[v.Name]; ok {
			return t
		}
		fail(e, "identifier %s is not a known local", v.Name)
	case *ast.BasicLit:
		if v.Kind == token.INT {
			var n uint64
			if _, err := fmt.Sscan(v.Value, &n); err == nil {
				return fmt.Sprint(n)
			}
		}
		fail(e, "literal %s", v.Value)
	case *ast.SelectorExpr:
		if isSel(e, "placeHolderIns", "max") {
			return "max"
		}
		if isSel(e, "placeHolderIns", "min") {
			return "min"
		}
		fail(e, "selector (a plain read of placeHolderIns.off is not an atomic step of the model)")
	case *ast.CallExpr: // conversions uintptr(x), int(x)
		if id, ok := v.Fun.(*ast.Ident); ok && (id.Name == "uintptr" || id.Name == "int") && len(v.Args) == 1 {
			return expr(v.Args[0], en)
		}
		fail(e, "call")
	case *ast.BinaryExpr:
		a, b := expr(v.X, en), expr(v.Y, en)
		switch v.Op {
		case token.ADD:
			return "(wadd " + a + " " + b + ")"
		case token.SUB:
			return "(wsub " + a + " " + b + ")"
		}
		fail(e, "operator %s", v.Op)
	}
	fail(e, "expression")
	return ""
}

// cond translates a boolean condition.
func cond(e ast.Expr, en env) string {
	switch v := e.(type) {
	case *ast.ParenExpr:
		return cond(v.X, en)
	case *ast.BinaryExpr:
		switch v.Op {
		case token.LAND:
			return "(" + cond(v.X, en) + " && " + cond(v.Y, en) + ")"
		case token.LOR:
			return "(" + cond(v.X, en) + " || " + cond(v.Y, en) + ")"
		case token.GTR, token.GEQ, token.LSS, token.LEQ, token.EQL, token.NEQ:
			op := map[token.Token]string{token.GTR: ">", token.GEQ: "≥", token.LSS: "<", token.LEQ: "≤", token.EQL: "=", token.NEQ: "≠"}[v.Op]
			return "decide (" + expr(v.X, en) + " " + op + " " + expr(v.Y, en) + ")"
		}
	}
	fail(e, "condition")
	return ""
}

// icond translates a condition over the signed `len` parameter alone (Int in Lean).
func icond(e ast.Expr, param string) string {
	var term func(e ast.Expr) string
	term = func(e ast.Expr) string {
		switch v := e.(type) {
		case *ast.ParenExpr:
			return term(v.X)
		case *ast.Ident:
			if v.Name == param {
				return "ilen"
			}
		case *ast.BasicLit:
			if v.Kind == token.INT {
				var n uint64
				if _, err := fmt.Sscan(v.Value, &n); err == nil {
					return fmt.Sprintf("(%d : Int)", n)
				}
			}
		}
		fail(e, "argument check may only compare the length parameter with integer literals")
		return ""
	}
	switch v := e.(type) {
	case *ast.ParenExpr:
		return icond(v.X, param)
	case *ast.BinaryExpr:
		switch v.Op {
		case token.LAND:
			return "(" + icond(v.X, param) + " && " + icond(v.Y, param) + ")"
		case token.LOR:
			return "(" + icond(v.X, param) + " || " + icond(v.Y, param) + ")"
		case token.GTR, token.GEQ, token.LSS, token.LEQ, token.EQL, token.NEQ:
			op := map[token.Token]string{token.GTR: ">", token.GEQ: "≥", token.LSS: "<", token.LEQ: "≤", token.EQL: "=", token.NEQ: "≠"}[v.Op]
			return "decide (" + term(v.X) + " " + op + " " + term(v.Y) + ")"
		}
	}
	fail(e, "argument check")
	return ""
}

// src prints a node without comments (the files are parsed without them).
func src(n ast.Node) string {
	var b bytes.Buffer
	_ = printer.Fprint(&b, fset, n)
	return strings.Join(strings.Fields(b.String()), " ")
}

// otherWriters fails on anything in package stub, outside acquireFromHolder and init, that could move the bump pointer or
// the bounds: an assignment / inc-dec / address-of of placeHolderIns.{off,min,max}, or an assignment to placeHolderIns.
func otherWriters(dir string) {
	ents, err := os.ReadDir(dir)
	if err != nil {
		panic(err)
	}
	isField := func(e ast.Expr) bool {
		return isSel(e, "placeHolderIns", "off") || isSel(e, "placeHolderIns", "min") || isSel(e, "placeHolderIns", "max")
	}
	for _, en := range ents {
		if en.IsDir() || !strings.HasSuffix(en.Name(), ".go") || strings.HasSuffix(en.Name(), "_test.go") {
			continue
		}
		f, err := parser.ParseFile(fset, filepath.Join(dir, en.Name()), nil, 0)
		if err != nil {
			panic(bad{token.NoPos, en.Name() + ": " + err.Error()})
		}
		for _, d := range f.Decls {
			fd, ok := d.(*ast.FuncDecl)
			if ok && fd.Recv == nil && en.Name() == "holder.go" && (fd.Name.Name == "acquireFromHolder" || fd.Name.Name == "init") {
				continue
			}
			ast.Inspect(d, func(n ast.Node) bool {
				switch v := n.(type) {
				case *ast.AssignStmt:
					for _, l := range v.Lhs {
						if id, ok := l.(*ast.Ident); ok && id.Name == "placeHolderIns" && v.Tok != token.DEFINE {
							fail(v, "%s: placeHolderIns is replaced outside init()", en.Name())
						}
						if isField(l) {
							fail(v, "%s: the bump pointer / bounds are written outside acquireFromHolder and init", en.Name())
						}
					}
				case *ast.IncDecStmt:
					if isField(v.X) {
						fail(v, "%s: the bump pointer / bounds are written outside acquireFromHolder and init", en.Name())
					}
				case *ast.UnaryExpr:
					if v.Op == token.AND && isField(v.X) {
						fail(v, "%s: the address of the bump pointer / bounds is taken outside acquireFromHolder (atomic store/add/CAS?)", en.Name())
					}
				case *ast.SelectorExpr: // receiver methods / aliases: any p.off, p.min, p.max on a *PlaceHolder other than reads through placeHolderIns
				}
				return true
			})
			// methods on PlaceHolder could write through the receiver
			if ok && fd.Recv != nil && len(fd.Recv.List) == 1 && strings.Contains(src(fd.Recv.List[0].Type), "PlaceHolder") {
				ast.Inspect(fd.Body, func(n ast.Node) bool {
					chk := func(e ast.Expr) {
						if se, ok := e.(*ast.SelectorExpr); ok && (se.Sel.Name == "off" || se.Sel.Name == "min" || se.Sel.Name == "max") {
							fail(e, "%s: method %s writes a PlaceHolder field", en.Name(), fd.Name.Name)
						}
					}
					switch v := n.(type) {
					case *ast.AssignStmt:
						for _, l := range v.Lhs {
							chk(l)
						}
					case *ast.IncDecStmt:
						chk(v.X)
					case *ast.UnaryExpr:
						if v.Op == token.AND {
							chk(v.X)
						}
					}
					return true
				})
			}
		}
	}
}

const acquireSrc = `{ if addr, space, err := acquireFromMMap(spaceLen); err == nil { return &Space{ Addr: addr, Space: space, typ: TypeMMap, }, nil } if addr, space, err := acquireFromHolder(spaceLen); err == nil { return &Space{ Addr: addr, Space: space, typ: TypeHolder, }, nil } else { return nil, err } }`
const writeSwitchSrc = `switch s.typ { case TypeMMap: copy(*s.Space, data[:]) return nil case TypeHolder: return memory.WriteTo(s.Addr, data) default: return fmt.Errorf("stub write fail, illegal type: %d", s.typ) }`

// spaceGo matches Acquire and Write of space.go against the forms that Model/Stub.lean transcribes (`acquire`, `writeVia`,
// `writeFootprint`) and extracts the optional length guard at the head of Write.
func spaceGo(repo string, o *out) {
	rel := "internal/bytecode/stub/space.go"
	f, err := parser.ParseFile(fset, filepath.Join(repo, rel), nil, 0)
	if err != nil {
		panic(bad{token.NoPos, rel + ": " + err.Error()})
	}
	seen := 0
	for _, d := range f.Decls {
		switch v := d.(type) {
		case *ast.GenDecl:
			for _, sp := range v.Specs {
				if vs, ok := sp.(*ast.ValueSpec); ok && v.Tok == token.CONST {
					for i, n := range vs.Names {
						if i < len(vs.Values) {
							if n.Name == "TypeHolder" && src(vs.Values[i]) != "1" || n.Name == "TypeMMap" && src(vs.Values[i]) != "2" {
								fail(vs, "space.go: TypeHolder/TypeMMap are 1/2 in the model")
							}
						}
					}
				}
			}
		case *ast.FuncDecl:
			if v.Recv != nil || v.Body == nil {
				continue
			}
			switch v.Name.Name {
			case "Acquire":
				if got := src(v.Body); got != strings.Join(strings.Fields(acquireSrc), " ") {
					fail(v, "space.go: Acquire is not the two-step dispatch (mmap, then reserve) that Model/Stub.lean `acquire` transcribes")
				}
				seen |= 1
			case "Write":
				st := v.Body.List
				o.wreject, o.lwreject = "false", line(v)
				if len(st) == 2 {
					is, ok := st[0].(*ast.IfStmt)
					if !ok || is.Init != nil || is.Else != nil || len(is.Body.List) != 1 {
						fail(st[0], "space.go: statement before the type switch of Write")
					}
					if r, ok := is.Body.List[0].(*ast.ReturnStmt); !ok || len(r.Results) != 1 || src(r.Results[0]) == "nil" {
						fail(is, "space.go: the guard of Write must return an error")
					}
					o.wreject, o.lwreject = wcond(is.Cond), line(is)
					st = st[1:]
				}
				if len(st) != 1 || src(st[0]) != strings.Join(strings.Fields(writeSwitchSrc), " ") {
					fail(v, "space.go: Write is not the switch (TypeMMap: copy, TypeHolder: memory.WriteTo, default: error) of the model")
				}
				seen |= 2
			}
		}
	}
	if seen != 3 {
		panic(bad{token.NoPos, rel + ": Acquire or Write not found"})
	}
}

// wcond translates the guard of Write over len(data) and len(*s.Space); `s.Space == nil` never holds for a Space from Acquire.
func wcond(e ast.Expr) string {
	term := func(e ast.Expr) string {
		switch src(e) {
		case "len(data)":
			return "dataLen"
		case "len(*s.Space)", "cap(*s.Space)":
			return "regionLen"
		}
		if l, ok := e.(*ast.BasicLit); ok && l.Kind == token.INT {
			return l.Value
		}
		fail(e, "space.go: guard of Write may only compare len(data) with len(*s.Space)")
		return ""
	}
	switch v := e.(type) {
	case *ast.ParenExpr:
		return wcond(v.X)
	case *ast.BinaryExpr:
		if src(v) == "s.Space == nil" {
			return "false"
		}
		switch v.Op {
		case token.LAND:
			return "(" + wcond(v.X) + " && " + wcond(v.Y) + ")"
		case token.LOR:
			return "(" + wcond(v.X) + " || " + wcond(v.Y) + ")"
		case token.GTR, token.GEQ, token.LSS, token.LEQ, token.EQL, token.NEQ:
			op := map[token.Token]string{token.GTR: ">", token.GEQ: "≥", token.LSS: "<", token.LEQ: "≤", token.EQL: "=", token.NEQ: "≠"}[v.Op]
			return "decide (" + term(v.X) + " " + op + " " + term(v.Y) + ")"
		}
	}
	fail(e, "space.go: guard of Write")
	return ""
}

// makeMethod reads interfaceJumpDataLen and insists that every stub.Acquire in package iface asks for exactly that many bytes.
func makeMethod(repo string, o *out) {
	dir := filepath.Join(repo, "internal/iface")
	ents, _ := os.ReadDir(dir)
	var names []string
	for _, en := range ents {
		if strings.HasSuffix(en.Name(), ".go") && !strings.HasSuffix(en.Name(), "_test.go") {
			names = append(names, en.Name())
		}
	}
	sort.Strings(names)
	calls := 0
	for _, n := range names {
		f, err := parser.ParseFile(fset, filepath.Join(dir, n), nil, 0)
		if err != nil {
			panic(bad{token.NoPos, n + ": " + err.Error()})
		}
		ast.Inspect(f, func(nd ast.Node) bool {
			switch v := nd.(type) {
			case *ast.ValueSpec:
				for i, id := range v.Names {
					if id.Name == "interfaceJumpDataLen" && i < len(v.Values) {
						l, ok := v.Values[i].(*ast.BasicLit)
						if !ok || l.Kind != token.INT {
							fail(v, "iface: interfaceJumpDataLen must be an integer literal")
						}
						o.jumpLen = l.Value
					}
				}
			case *ast.CallExpr:
				if isSel(v.Fun, "stub", "Acquire") {
					calls++
					if len(v.Args) != 1 || src(v.Args[0]) != "interfaceJumpDataLen" {
						fail(v, "iface/%s: stub.Acquire is not called with interfaceJumpDataLen", n)
					}
				}
			}
			return true
		})
	}
	if o.jumpLen == "" || calls == 0 {
		panic(bad{token.NoPos, "internal/iface: interfaceJumpDataLen / stub.Acquire call not found"})
	}
}

func isLoggerCall(s ast.Stmt) bool {
	es, ok := s.(*ast.ExprStmt)
	if !ok {
		return false
	}
	c, ok := es.X.(*ast.CallExpr)
	if !ok {
		return false
	}
	sel, ok := c.Fun.(*ast.SelectorExpr)
	if !ok {
		return false
	}
	id, ok := sel.X.(*ast.Ident)
	return ok && id.Name == "logger"
}

func strip(l []ast.Stmt) []ast.Stmt {
	var r []ast.Stmt
	for _, s := range l {
		if !isLoggerCall(s) {
			r = append(r, s)
		}
	}
	return r
}

// atomicCall matches `name := atomic.<fn>(&placeHolderIns.off, args...)`.
func atomicCall(s ast.Stmt, fn string, nargs int) (string, []ast.Expr) {
	as, ok := s.(*ast.AssignStmt)
	if !ok || as.Tok != token.DEFINE || len(as.Lhs) != 1 || len(as.Rhs) != 1 {
		fail(s, "expected `x := atomic.%s(&placeHolderIns.off…)`", fn)
	}
	c, ok := as.Rhs[0].(*ast.CallExpr)
	if !ok || !isSel(c.Fun, "atomic", fn) || len(c.Args) != nargs {
		fail(s, "expected a call of atomic.%s (the model's micro-step is one atomic access)", fn)
	}
	u, ok := c.Args[0].(*ast.UnaryExpr)
	if !ok || u.Op != token.AND || !isSel(u.X, "placeHolderIns", "off") {
		fail(s, "atomic.%s must address placeHolderIns.off", fn)
	}
	return as.Lhs[0].(*ast.Ident).Name, c.Args[1:]
}

// errorIf matches `if C { return 0, nil, <non-nil> }` and returns C.
func errorIf(s ast.Stmt) ast.Expr {
	is, ok := s.(*ast.IfStmt)
	if !ok || is.Init != nil || is.Else != nil {
		fail(s, "expected `if cond { return 0, nil, err }`")
	}
	body := strip(is.Body.List)
	if len(body) != 1 {
		fail(s, "error branch must only return")
	}
	r, ok := body[0].(*ast.ReturnStmt)
	if !ok || len(r.Results) != 3 {
		fail(s, "error branch must return three values")
	}
	if l, ok := r.Results[0].(*ast.BasicLit); !ok || l.Value != "0" {
		fail(r, "error branch must return address 0")
	}
	if id, ok := r.Results[1].(*ast.Ident); !ok || id.Name != "nil" {
		fail(r, "error branch must return a nil slice")
	}
	if id, ok := r.Results[2].(*ast.Ident); ok && id.Name == "nil" {
		fail(r, "error branch returns a nil error")
	}
	return is.Cond
}

type out struct {
	c1, c2, ret, data, ln, cp string
	l1, l2, lret              int
	ioff, imin, imax          string
	linit                     int
	guard                     string // leading `if <cond on len> { return 0, nil, err }` of acquireFromHolder ("false" if absent)
	lguard                    int
	wreject                   string // leading length guard of Write ("false" if absent)
	lwreject                  int
	jumpLen                   string // interfaceJumpDataLen
}

func line(n ast.Node) int { return fset.Position(n.Pos()).Line }

func acquire(fd *ast.FuncDecl, o *out) {
	ps := fd.Type.Params.List
	if len(ps) != 1 || len(ps[0].Names) != 1 {
		fail(fd, "acquireFromHolder must take one parameter")
	}
	if id, ok := ps[0].Type.(*ast.Ident); !ok || id.Name != "int" {
		fail(fd, "the request length must be an int")
	}
	en := env{ps[0].Names[0].Name: "len"}
	st := strip(fd.Body.List)
	o.guard, o.lguard = "false", line(fd)
	if len(st) > 0 {
		if is, ok := st[0].(*ast.IfStmt); ok { // optional argument check before any shared access
			o.guard, o.lguard = icond(errorIf(is), ps[0].Names[0].Name), line(is)
			st = st[1:]
		}
	}
	if len(st) < 6 {
		fail(fd, "body has %d statements, the model has six steps", len(st))
	}
	p, _ := atomicCall(st[0], "LoadUintptr", 1)
	en[p] = "placeholder"
	o.c1, o.l1 = cond(errorIf(st[1]), en), line(st[1])
	q, args := atomicCall(st[2], "AddUintptr", 2)
	if expr(args[0], en) != "len" {
		fail(st[2], "the atomic add must advance by exactly the request length")
	}
	en[q] = "newOffset"
	o.c2, o.l2 = cond(errorIf(st[3]), en), line(st[3])
	rest := st[4:]
	for len(rest) > 2 { // pure local definitions
		as, ok := rest[0].(*ast.AssignStmt)
		if !ok || as.Tok != token.DEFINE || len(as.Lhs) != 1 || len(as.Rhs) != 1 {
			fail(rest[0], "statement between the second check and the result")
		}
		en[as.Lhs[0].(*ast.Ident).Name] = expr(as.Rhs[0], en)
		rest = rest[1:]
	}
	// B := (*[]byte)(unsafe.Pointer(&reflect.SliceHeader{…}))
	as, ok := rest[0].(*ast.AssignStmt)
	if !ok || as.Tok != token.DEFINE || len(as.Lhs) != 1 || len(as.Rhs) != 1 {
		fail(rest[0], "expected the slice header construction")
	}
	var lit *ast.CompositeLit
	ast.Inspect(as.Rhs[0], func(n ast.Node) bool {
		if c, ok := n.(*ast.CompositeLit); ok && isSel(c.Type, "reflect", "SliceHeader") {
			lit = c
		}
		return true
	})
	if lit == nil {
		fail(rest[0], "expected reflect.SliceHeader{Data, Len, Cap}")
	}
	for _, el := range lit.Elts {
		kv, ok := el.(*ast.KeyValueExpr)
		if !ok {
			fail(el, "slice header fields must be keyed")
		}
		switch kv.Key.(*ast.Ident).Name {
		case "Data":
			o.data = expr(kv.Value, en)
		case "Len":
			o.ln = expr(kv.Value, en)
		case "Cap":
			o.cp = expr(kv.Value, en)
		}
	}
	if o.data == "" || o.ln == "" || o.cp == "" {
		fail(lit, "slice header needs Data, Len and Cap")
	}
	r, ok := rest[1].(*ast.ReturnStmt)
	if !ok || len(r.Results) != 3 {
		fail(rest[1], "expected `return addr, bytes, nil`")
	}
	if id, ok := r.Results[1].(*ast.Ident); !ok || id.Name != as.Lhs[0].(*ast.Ident).Name {
		fail(r, "second result must be the slice built from the header")
	}
	if id, ok := r.Results[2].(*ast.Ident); !ok || id.Name != "nil" {
		fail(r, "success must return a nil error")
	}
	o.ret, o.lret = expr(r.Results[0], en), line(r)
}

func initFn(fd *ast.FuncDecl, o *out) {
	en := env{"offset": "offset", "size": "size"}
	found := false
	ast.Inspect(fd.Body, func(n ast.Node) bool {
		as, ok := n.(*ast.AssignStmt)
		if !ok || len(as.Lhs) != 1 || len(as.Rhs) != 1 {
			return true
		}
		if id, ok := as.Lhs[0].(*ast.Ident); !ok || id.Name != "placeHolderIns" {
			return true
		}
		u, ok := as.Rhs[0].(*ast.UnaryExpr)
		if !ok {
			fail(as, "placeHolderIns must be assigned &PlaceHolder{…}")
		}
		lit, ok := u.X.(*ast.CompositeLit)
		if !ok {
			fail(as, "placeHolderIns must be assigned &PlaceHolder{…}")
		}
		for _, el := range lit.Elts {
			kv, ok := el.(*ast.KeyValueExpr)
			if !ok {
				fail(el, "PlaceHolder fields must be keyed")
			}
			switch kv.Key.(*ast.Ident).Name {
			case "off":
				o.ioff = expr(kv.Value, en)
			case "min":
				o.imin = expr(kv.Value, en)
			case "max":
				o.imax = expr(kv.Value, en)
			}
		}
		o.linit = line(as)
		found = true
		return true
	})
	if !found || o.ioff == "" || o.imin == "" || o.imax == "" {
		fail(fd, "init() must set off, min and max of placeHolderIns")
	}
}

func main() {
	repo := flag.String("repo", "/repo", "goom source tree")
	outp := flag.String("out", "", "output .lean file")
	flag.Parse()
	rel := "internal/bytecode/stub/holder.go"
	path := filepath.Join(*repo, rel)
	defer func() {
		if r := recover(); r != nil {
			if b, ok := r.(bad); ok {
				p := fset.Position(b.pos)
				name := rel
				if p.Filename != "" {
					if r, err := filepath.Rel(*repo, p.Filename); err == nil {
						name = r
					}
				}
				fmt.Fprintf(os.Stderr, "%s:%d: untranslatable: %s\n", name, p.Line, b.msg)
				os.Exit(1)
			}
			panic(r)
		}
	}()
	f, err := parser.ParseFile(fset, path, nil, 0)
	if err != nil {
		fmt.Fprintf(os.Stderr, "%s: untranslatable: %v\n", rel, err)
		os.Exit(1)
	}
	var o out
	seen := 0
	for _, d := range f.Decls {
		fd, ok := d.(*ast.FuncDecl)
		if !ok || fd.Recv != nil || fd.Body == nil {
			continue
		}
		switch fd.Name.Name {
		case "acquireFromHolder":
			acquire(fd, &o)
			seen |= 1
		case "init":
			initFn(fd, &o)
			seen |= 2
		}
	}
	if seen != 3 {
		fmt.Fprintf(os.Stderr, "%s:1: untranslatable: acquireFromHolder or init not found\n", rel)
		os.Exit(1)
	}
	otherWriters(filepath.Join(*repo, "internal/bytecode/stub"))
	spaceGo(*repo, &o)
	makeMethod(*repo, &o)
	var b strings.Builder
	w := func(format string, a ...interface{}) { fmt.Fprintf(&b, format, a...) }
	w("-- GENERATED by tools/genstub from %s — do not edit.\n", rel)
	w("/-! Expressions of `acquireFromHolder` and `init` (uintptr arithmetic = Nat modulo 2^64).\n")
	w("    The statement skeleton load / check / atomic add / check / return was matched by the extractor. -/\n")
	w("set_option linter.unusedVariables false\nnamespace Gen.StubHolder\n\n")
	w("/-- uintptr `+` -/\ndef wadd (a b : Nat) : Nat := (a + b) %% 18446744073709551616\n")
	w("/-- uintptr `-` -/\ndef wsub (a b : Nat) : Nat := (a + (18446744073709551616 - b %% 18446744073709551616)) %% 18446744073709551616\n\n")
	args := "(placeholder newOffset len min max : Nat)"
	w("/-- holder.go:%d — the error branch before the add is taken -/\ndef check1Fails (placeholder len min max : Nat) : Bool := %s\n", o.l1, o.c1)
	w("/-- holder.go:%d — the error branch after the add is taken -/\ndef check2Fails %s : Bool := %s\n", o.l2, args, o.c2)
	w("/-- holder.go:%d — the address returned -/\ndef retAddr %s : Nat := %s\n", o.lret, args, o.ret)
	w("/-- SliceHeader.Data -/\ndef sliceData %s : Nat := %s\n", args, o.data)
	w("/-- SliceHeader.Len -/\ndef sliceLen %s : Nat := %s\n", args, o.ln)
	w("/-- SliceHeader.Cap -/\ndef sliceCap %s : Nat := %s\n", args, o.cp)
	w("/-- holder.go:%d — argument check before any shared access (false: there is none); `ilen` is the Go `int` -/\ndef guardFails (ilen : Int) : Bool := %s\n", o.lguard, o.guard)
	w("/-- space.go:%d — Write refuses the data before touching memory (false: no such check) -/\ndef writeRejects (dataLen regionLen : Nat) : Bool := %s\n", o.lwreject, o.wreject)
	w("/-- make_method.go — bytes requested per interface-method stub (every stub.Acquire in package iface asks for this) -/\ndef interfaceJumpDataLen : Nat := %s\n", o.jumpLen)
	w("/-- holder.go:%d — init(): PlaceHolder{off, min, max} from the placeholder's entry and scanned size -/\n", o.linit)
	w("def initOff (offset size : Nat) : Nat := %s\ndef initMin (offset size : Nat) : Nat := %s\ndef initMax (offset size : Nat) : Nat := %s\n", o.ioff, o.imin, o.imax)
	w("\nend Gen.StubHolder\n")
	if *outp == "" {
		fmt.Print(b.String())
		return
	}
	if err := os.WriteFile(*outp, []byte(b.String()), 0o644); err != nil {
		fmt.Fprintln(os.Stderr, err)
		os.Exit(2)
	}
}
