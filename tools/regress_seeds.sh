#!/bin/bash
# tools/regress_seeds.sh [shards]  — re-run EVERY archived seeded change (seeded/<ID>/patch.diff) under the check of its own
# property (and under the neighbouring checks its meta.json names as detecting it) on the current goom HEAD, in parallel shards,
# each shard in its own clone of this tree (the regenerated Gen modules are per tree).  Results: /tmp/regress/summary.txt
V=$(cd "$(dirname "$0")/.." && pwd); N=${1:-4}
rm -rf /tmp/regress; mkdir -p /tmp/regress
python3 - "$V" "$N" <<'PY'
import glob, json, os, sys
V, N = sys.argv[1], int(sys.argv[2])
jobs = []
for d in sorted(glob.glob(V + '/seeded/C*')):
    m = json.load(open(d + '/meta.json'))
    own = os.path.basename(d).split('-')[0]
    props = [own] + [x['check'] for x in m.get('detection', []) if isinstance(x, dict) and x.get('detected') and x['check'] != own]
    for p in props:
        jobs.append((p, os.path.basename(d)))
# group by property so a shard keeps its Lean build warm
jobs.sort()
for k in range(N):
    open(f'/tmp/regress/shard{k}.txt', 'w').write(''.join(f'{p} {s}\n' for i, (p, s) in enumerate(jobs) if int(p[1:]) % N == k))
print(len(jobs), 'runs')
PY
for k in $(seq 0 $((N-1))); do
  ( C=/tmp/regress/v$k; git clone -q $V $C; cp -r $V/lean/.lake $C/lean/ 2>/dev/null; mkdir -p $C/build; cp -r $V/build/ref $V/build/home $C/build/ 2>/dev/null
    (cd $C && python3 tools/setup.py > /tmp/regress/setup$k.log 2>&1)
    while read p s; do
      TRY_SEED_TIMEOUT=1500 $C/tools/try_seed.sh $p $V/seeded/$s/patch.diff > /tmp/regress/$s-$p.txt 2>&1
      echo "$s under $p: $(tail -1 /tmp/regress/$s-$p.txt) $(grep -c '^VIOLATION' /tmp/regress/$s-$p.txt)v $(grep -m1 -o 'no-failing-input-found' /tmp/regress/$s-$p.txt)" >> /tmp/regress/summary.txt
    done < /tmp/regress/shard$k.txt
    echo "shard $k done" >> /tmp/regress/summary.txt ) &
done
wait
