#!/usr/bin/env python3
"""keep_seed.py <src dir> <dest id> <caught: yes|no> <first violation text> — archive a confirmed seeded change under seeded/<id>/"""
import json, os, shutil, sys
src, dest, caught, what = sys.argv[1:5]
d = os.path.join('/verif/seeded', dest)
shutil.rmtree(d, ignore_errors=True)
shutil.copytree(src, d)
m = json.load(open(os.path.join(d, 'meta.json')))
m['checked_with'] = f"tools/try_seed.sh {m['property']} seeded/{dest}/patch.diff  (git apply to a scratch worktree of /repo HEAD, GOOM_REPO=<worktree> python3 check.py {m['property']} --tier quick, revert)"
m['detected'] = caught == 'yes'
m['detection'] = what
m['confirmed'] = 'patch applies to /repo HEAD, go build ok, demonstration fails with the change and passes without it, existing suite unchanged (confirmed by the integrator in a scratch worktree)'
json.dump(m, open(os.path.join(d, 'meta.json'), 'w'), indent=1)
