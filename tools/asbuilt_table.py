#!/usr/bin/env python3
"""Rewrite the as-built table in DESIGN.md §11 (between ASBUILT-TABLE markers) from evidence/*.json and checks/*.py META."""
import glob, importlib, json, os, re, sys
V = os.path.dirname(os.path.dirname(os.path.abspath(__file__)))
sys.path.insert(0, V)
rows = []
for f in sorted(glob.glob(V + '/evidence/C*.json')):
    e = json.load(open(f)); pid = os.path.basename(f)[:-5]
    cov = e.get('coverage', {})
    meta = importlib.import_module('checks.' + pid).META
    props = V + f'/lean/GoomVerif/Props/{pid}.lean'
    nl = sum(1 for _ in open(props)) if os.path.exists(props) else 0
    wall = e.get('wall_s') or ''
    tech = meta['technique'].replace('|', '\\|')
    rows.append(f"| {pid} | {cov.get('discharged', '?')}/{cov.get('obligations', '?')} | {nl} | {cov.get('evaluations', '?')} | {cov.get('distinct_nontrivial', '?')} | "
                f"{(str(round(float(wall))) + ' s') if wall not in ('', None) else '—'} | {tech[:150]} |")
block = ['<!-- ASBUILT-TABLE-BEGIN -->', '| id | theorems (discharged/obligations) | lines in Props | evaluations (quick) | distinct non-trivial | quick wall | deciding technique |',
         '|---|---|---|---|---|---|---|'] + rows + ['<!-- ASBUILT-TABLE-END -->']
p = V + '/DESIGN.md'
s = open(p).read()
s = re.sub(r'<!-- ASBUILT-TABLE-BEGIN -->.*<!-- ASBUILT-TABLE-END -->', lambda _: '\n'.join(block), s, flags=re.S)
open(p, 'w').write(s)
print(len(rows), 'rows')
