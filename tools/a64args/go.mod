module a64args

go 1.23
