// a64args translates goom's arm64 argument decoders and canDecode predicates from the Go AST into Lean.
//
//	a64args -repo <goom tree> -out <file.lean>
//
// Scope: internal/arch/arm64asm  decodeArg (every `case arg_…:` of its switch), the helpers it calls
// (handle_*), every predicate of condition.go and the utilities of condition_util.go.
//
// What is translated: the CONTROL SKELETON with exact integer semantics — integer/bool locals (SSA-renamed), struct
// fields of locals that hold integers, Go's wrapping arithmetic on sized integers (BitVec n), conversions, shifts,
// comparisons, if/else, switch on constants (incl. `fallthrough` onto the next clause), calls among the translated
// functions — and, for functions returning the interface `Arg`, only WHETHER the result is nil: `Out.val | Out.nil`.
// The value of a non-nil argument is not translated (its expression is still scanned, see below).
//
// Every operation that can panic in Go is made explicit instead of being totalised: an index expression becomes a
// bounds test, a division/modulo by a non-constant a zero test, a shift by a signed non-constant a sign test; a failed
// test yields `Out.panic`.  Anything outside the fragment (type assertions, pointer dereference, calls to functions that
// are not translated, loops whose results are used for control, …) makes the enclosing case UNTRANSLATABLE: it is
// listed with the reason and the Lean side has to account for it (Props/C17 requires every kind used by a table row to
// be translated).  stdlib only: go/ast, go/types.
package main

import (
	"crypto/sha256"
	"flag"
	"fmt"
	"go/ast"
	"go/constant"
	"go/importer"
	"go/parser"
	"go/printer"
	"go/token"
	"go/types"
	"math/big"
	"os"
	"path/filepath"
	"sort"
	"strings"
)

type untr struct{ msg string }

type tr struct {
	fset     *token.FileSet
	info     *types.Info
	pkg      *types.Package
	funcs    map[string]*ast.FuncDecl
	done     map[string]string // translated function name -> lean text ("" while in progress)
	order    []string
	bad      map[string]string          // function -> reason
	panics   map[string]bool            // Arg-returning function has a panic leaf
	curTypes map[string]bool            // Go types of the non-nil results seen while translating the current case
	ftypes   map[string]map[string]bool // the same per Arg-returning helper
	n        int
	nodes    int
}

func (t *tr) fail(n ast.Node, f string, a ...interface{}) {
	pos := ""
	if n != nil {
		p := t.fset.Position(n.Pos())
		pos = fmt.Sprintf("%s:%d: ", filepath.Base(p.Filename), p.Line)
	}
	panic(untr{pos + fmt.Sprintf(f, a...)})
}

type ity struct {
	bits   int
	signed bool
	isBool bool
}

func (t *tr) ityOf(ty types.Type) (ity, bool) {
	b, ok := ty.Underlying().(*types.Basic)
	if !ok {
		return ity{}, false
	}
	switch b.Kind() {
	case types.Bool, types.UntypedBool:
		return ity{isBool: true}, true
	case types.Uint8:
		return ity{8, false, false}, true
	case types.Uint16:
		return ity{16, false, false}, true
	case types.Uint32:
		return ity{32, false, false}, true
	case types.Uint64, types.Uint, types.Uintptr:
		return ity{64, false, false}, true
	case types.Int8:
		return ity{8, true, false}, true
	case types.Int16:
		return ity{16, true, false}, true
	case types.Int32:
		return ity{32, true, false}, true
	case types.Int64, types.Int, types.UntypedInt, types.UntypedRune:
		return ity{64, true, false}, true
	}
	return ity{}, false
}

func (i ity) lean() string {
	if i.isBool {
		return "Bool"
	}
	return fmt.Sprintf("BitVec %d", i.bits)
}

func lit(v *big.Int, bits int) string {
	m := new(big.Int).Lsh(big.NewInt(1), uint(bits))
	r := new(big.Int).Mod(v, m)
	return fmt.Sprintf("(0x%s#%d)", r.Text(16), bits)
}

// env: immutable-by-copy map from variable (object or "obj.field") to its current Lean name; "" = opaque (not an integer,
// or havocked by a loop)
type env map[string]string

func (e env) with(k, v string) env {
	c := make(env, len(e)+1)
	for a, b := range e {
		c[a] = b
	}
	c[k] = v
	return c
}

func (t *tr) fresh(base string) string {
	t.n++
	return fmt.Sprintf("%s_%d", base, t.n)
}

func (t *tr) key(e ast.Expr) (string, bool) {
	switch x := e.(type) {
	case *ast.Ident:
		if o := t.info.ObjectOf(x); o != nil {
			return fmt.Sprintf("%p", o), true
		}
	case *ast.SelectorExpr:
		if id, ok := x.X.(*ast.Ident); ok {
			if o := t.info.ObjectOf(id); o != nil {
				if _, isVar := o.(*types.Var); isVar && o.Parent() != t.pkg.Scope() {
					return fmt.Sprintf("%p.%s", o, x.Sel.Name), true
				}
			}
		}
	case *ast.ParenExpr:
		return t.key(x.X)
	}
	return "", false
}

// checks collects the "does not panic" side conditions of evaluating e (Lean Bool expressions)
type checks []string

func (t *tr) constOf(e ast.Expr) (constant.Value, bool) {
	tv, ok := t.info.Types[e]
	if ok && tv.Value != nil {
		return tv.Value, true
	}
	return nil, false
}

func (t *tr) constLit(e ast.Expr, it ity) (string, bool) {
	v, ok := t.constOf(e)
	if !ok {
		return "", false
	}
	if it.isBool {
		if v.Kind() == constant.Bool {
			if constant.BoolVal(v) {
				return "true", true
			}
			return "false", true
		}
		return "", false
	}
	if v.Kind() != constant.Int {
		return "", false
	}
	bi, ok := new(big.Int).SetString(v.ExactString(), 10)
	if !ok {
		return "", false
	}
	return lit(bi, it.bits), true
}

// expr translates an integer/bool expression; ck accumulates panic side conditions
func (t *tr) expr(e ast.Expr, en env, ck *checks) (string, ity) {
	t.nodes++
	ty := t.info.TypeOf(e)
	it, ok := t.ityOf(ty)
	if !ok {
		t.fail(e, "expression of non-integer type %v used as a value", ty)
	}
	if s, ok := t.constLit(e, it); ok {
		return s, it
	}
	switch x := e.(type) {
	case *ast.ParenExpr:
		return t.expr(x.X, en, ck)
	case *ast.Ident, *ast.SelectorExpr:
		k, ok := t.key(e)
		if !ok {
			t.fail(e, "unsupported operand")
		}
		n, have := en[k]
		if !have {
			if _, isSel := e.(*ast.SelectorExpr); isSel { // field of a zero-initialised struct local, never assigned
				if it.isBool {
					return "false", it
				}
				return lit(big.NewInt(0), it.bits), it
			}
			t.fail(e, "variable read before any translated assignment")
		}
		if n == "" {
			t.fail(e, "value is opaque here (non-integer or produced by an untranslated loop)")
		}
		return n, it
	case *ast.UnaryExpr:
		a, _ := t.expr(x.X, en, ck)
		switch x.Op {
		case token.NOT:
			return "(!" + a + ")", it
		case token.XOR:
			return "(~~~" + a + ")", it
		case token.SUB:
			return "(-" + a + ")", it
		case token.ADD:
			return a, it
		}
		t.fail(e, "unary %s", x.Op)
	case *ast.BinaryExpr:
		return t.binary(x, en, ck), it
	case *ast.CallExpr:
		if tv, ok := t.info.Types[x.Fun]; ok && tv.IsType() { // conversion
			if len(x.Args) != 1 {
				t.fail(e, "conversion arity")
			}
			a, from := t.expr(x.Args[0], en, ck)
			if from.isBool || it.isBool {
				t.fail(e, "bool conversion")
			}
			if it.bits <= from.bits || !from.signed {
				if it.bits == from.bits {
					return a, it
				}
				return fmt.Sprintf("(BitVec.setWidth %d %s)", it.bits, a), it
			}
			return fmt.Sprintf("(BitVec.signExtend %d %s)", it.bits, a), it
		}
		return t.call(x, en, ck), it
	case *ast.IndexExpr:
		t.fail(e, "the VALUE of an index expression is not translated")
	}
	t.fail(e, "unsupported expression %T", e)
	return "", it
}

func (t *tr) binary(x *ast.BinaryExpr, en env, ck *checks) string {
	switch x.Op {
	case token.LAND, token.LOR:
		a, _ := t.expr(x.X, en, ck)
		b, _ := t.expr(x.Y, en, ck) // conservative: side conditions of the right operand are required unconditionally
		if x.Op == token.LAND {
			return "(" + a + " && " + b + ")"
		}
		return "(" + a + " || " + b + ")"
	case token.SHL, token.SHR:
		a, at := t.expr(x.X, en, ck)
		var cnt string
		if v, ok := t.constOf(x.Y); ok {
			n, _ := constant.Int64Val(v)
			if n < 0 {
				t.fail(x, "negative constant shift")
			}
			cnt = fmt.Sprint(n)
		} else {
			c, ct := t.expr(x.Y, en, ck)
			if ct.signed {
				*ck = append(*ck, fmt.Sprintf("(!(BitVec.slt %s %s))", c, lit(big.NewInt(0), ct.bits)))
			}
			cnt = "(" + c + ").toNat"
		}
		if x.Op == token.SHL {
			return "(" + a + " <<< " + cnt + ")"
		}
		if at.signed {
			return "(BitVec.sshiftRight " + a + " " + cnt + ")"
		}
		return "(" + a + " >>> " + cnt + ")"
	}
	// operand type: the typed side
	ot := t.info.TypeOf(x.X)
	if b, ok := ot.Underlying().(*types.Basic); ok && b.Info()&types.IsUntyped != 0 {
		ot = t.info.TypeOf(x.Y)
	}
	oit, ok := t.ityOf(ot)
	if !ok {
		t.fail(x, "operands of type %v", ot)
	}
	opnd := func(e ast.Expr) string {
		if s, ok := t.constLit(e, oit); ok {
			return s
		}
		s, _ := t.expr(e, en, ck)
		return s
	}
	a, b := opnd(x.X), opnd(x.Y)
	switch x.Op {
	case token.ADD:
		return "(" + a + " + " + b + ")"
	case token.SUB:
		return "(" + a + " - " + b + ")"
	case token.MUL:
		return "(" + a + " * " + b + ")"
	case token.AND:
		return "(" + a + " &&& " + b + ")"
	case token.OR:
		return "(" + a + " ||| " + b + ")"
	case token.XOR:
		return "(" + a + " ^^^ " + b + ")"
	case token.AND_NOT:
		return "(" + a + " &&& ~~~" + b + ")"
	case token.QUO, token.REM:
		if oit.signed {
			t.fail(x, "signed division is not in the fragment")
		}
		if _, isConst := t.constOf(x.Y); !isConst {
			*ck = append(*ck, "("+b+" != "+lit(big.NewInt(0), oit.bits)+")")
		} else if v, _ := t.constOf(x.Y); constant.Sign(v) == 0 {
			t.fail(x, "division by constant zero")
		}
		if x.Op == token.QUO {
			return "(" + a + " / " + b + ")"
		}
		return "(" + a + " % " + b + ")"
	case token.EQL:
		return "(" + a + " == " + b + ")"
	case token.NEQ:
		return "(" + a + " != " + b + ")"
	case token.LSS, token.LEQ, token.GTR, token.GEQ:
		if oit.isBool {
			t.fail(x, "ordering on bool")
		}
		lt, le := "BitVec.ult", "BitVec.ule"
		if oit.signed {
			lt, le = "BitVec.slt", "BitVec.sle"
		}
		switch x.Op {
		case token.LSS:
			return "(" + lt + " " + a + " " + b + ")"
		case token.LEQ:
			return "(" + le + " " + a + " " + b + ")"
		case token.GTR:
			return "(" + lt + " " + b + " " + a + ")"
		default:
			return "(" + le + " " + b + " " + a + ")"
		}
	}
	t.fail(x, "binary %s", x.Op)
	return ""
}

func (t *tr) callee(c *ast.CallExpr) string {
	if id, ok := c.Fun.(*ast.Ident); ok {
		if fn, ok := t.info.ObjectOf(id).(*types.Func); ok && fn.Pkg() == t.pkg {
			return fn.Name()
		}
	}
	return ""
}

// call of a translated function (value- or Out-returning); side conditions: none of its own (Out functions carry panic)
func (t *tr) call(c *ast.CallExpr, en env, ck *checks) string {
	name := t.callee(c)
	if name == "" {
		t.fail(c, "call of a function outside the translated set")
	}
	if err := t.function(name); err != "" {
		t.fail(c, "callee %s is untranslatable: %s", name, err)
	}
	sig := t.info.ObjectOf(c.Fun.(*ast.Ident)).Type().(*types.Signature)
	var as []string
	for i, a := range c.Args {
		pit, ok := t.ityOf(sig.Params().At(i).Type())
		if !ok {
			t.fail(a, "parameter %d of %s is not an integer", i, name)
		}
		if s, ok := t.constLit(a, pit); ok {
			as = append(as, s)
			continue
		}
		s, _ := t.expr(a, en, ck)
		as = append(as, s)
	}
	return "(f_" + name + " " + strings.Join(as, " ") + ")"
}

// scan walks an expression that is NOT translated as a value (e.g. the composite literal returned) and collects panic
// side conditions of the operations inside it; anything it cannot judge is a failure.
func (t *tr) scan(e ast.Expr, en env, ck *checks) {
	if e == nil {
		return
	}
	if _, ok := t.constOf(e); ok {
		return
	}
	switch x := e.(type) {
	case *ast.Ident:
		return
	case *ast.BasicLit:
		return
	case *ast.ParenExpr:
		t.scan(x.X, en, ck)
	case *ast.SelectorExpr:
		if _, ok := t.key(x); ok {
			return
		}
		if id, ok := x.X.(*ast.Ident); ok {
			if _, isPkg := t.info.ObjectOf(id).(*types.PkgName); isPkg {
				return
			}
		}
		t.fail(e, "selector on a possibly nil value")
	case *ast.UnaryExpr:
		if x.Op == token.AND || x.Op == token.ARROW {
			t.fail(e, "unary %s", x.Op)
		}
		t.scan(x.X, en, ck)
	case *ast.BinaryExpr:
		if _, ok := t.ityOf(t.info.TypeOf(e)); ok {
			// integer/bool operation: translate it (so that shifts/divisions get their side conditions); if an operand is
			// opaque fall back to scanning the operands, requiring that no partial operator is at this node
			func() {
				defer func() {
					if r := recover(); r != nil {
						if _, isU := r.(untr); !isU {
							panic(r)
						}
						if x.Op == token.QUO || x.Op == token.REM {
							if _, c := t.constOf(x.Y); !c {
								t.fail(e, "division by an untranslatable operand")
							}
						}
						if x.Op == token.SHL || x.Op == token.SHR {
							if yt, ok := t.ityOf(t.info.TypeOf(x.Y)); !ok || yt.signed {
								if _, c := t.constOf(x.Y); !c {
									t.fail(e, "shift by an untranslatable signed operand")
								}
							}
						}
						t.scan(x.X, en, ck)
						t.scan(x.Y, en, ck)
					}
				}()
				var local checks
				t.expr(e, en, &local)
				*ck = append(*ck, local...)
			}()
			return
		}
		t.fail(e, "binary operation on non-integers")
	case *ast.CompositeLit:
		if _, isStruct := t.info.TypeOf(x).Underlying().(*types.Struct); !isStruct {
			t.fail(e, "composite literal of non-struct type")
		}
		for _, el := range x.Elts {
			if kv, ok := el.(*ast.KeyValueExpr); ok {
				t.scan(kv.Value, en, ck)
			} else {
				t.scan(el, en, ck)
			}
		}
	case *ast.CallExpr:
		if tv, ok := t.info.Types[x.Fun]; ok && tv.IsType() {
			if _, ok := t.ityOf(tv.Type); !ok {
				t.fail(e, "conversion to non-integer type %v", tv.Type)
			}
			for _, a := range x.Args {
				t.scan(a, en, ck)
			}
			return
		}
		name := t.callee(x)
		if name == "" {
			t.fail(e, "call of a function outside the translated set")
		}
		sig := t.info.ObjectOf(x.Fun.(*ast.Ident)).Type().(*types.Signature)
		if sig.Results().Len() == 1 {
			if _, ok := t.ityOf(sig.Results().At(0).Type()); ok {
				var local checks
				t.call(x, en, &local)
				*ck = append(*ck, local...)
				return
			}
		}
		t.fail(e, "call of %s inside an untranslated value", name)
	case *ast.IndexExpr:
		if cl, ok := x.X.(*ast.CompositeLit); ok {
			for _, el := range cl.Elts {
				t.scan(el, en, ck)
			}
		} else {
			t.scan(x.X, en, ck)
		}
		n := t.lenOf(x.X)
		if n < 0 {
			t.fail(e, "index into a value of unknown length")
		}
		var local checks
		idx, it := t.expr(x.Index, en, &local)
		*ck = append(*ck, local...)
		if it.signed {
			*ck = append(*ck, fmt.Sprintf("(!(BitVec.slt %s %s))", idx, lit(big.NewInt(0), it.bits)))
		}
		*ck = append(*ck, fmt.Sprintf("(decide ((%s).toNat < %d))", idx, n))
	default:
		t.fail(e, "unsupported construct %T in a value", e)
	}
}

// lenOf: static length of an array value or of a package-level slice initialised by a composite literal; -1 unknown
func (t *tr) lenOf(e ast.Expr) int64 {
	ty := t.info.TypeOf(e)
	if a, ok := ty.Underlying().(*types.Array); ok {
		return a.Len()
	}
	if cl, ok := e.(*ast.CompositeLit); ok { // indexing a slice literal written in place
		for _, el := range cl.Elts {
			if _, keyed := el.(*ast.KeyValueExpr); keyed {
				return -1
			}
		}
		return int64(len(cl.Elts))
	}
	id, ok := e.(*ast.Ident)
	if !ok {
		return -1
	}
	v, ok := t.info.ObjectOf(id).(*types.Var)
	if !ok || v.Parent() != t.pkg.Scope() {
		return -1
	}
	return t.pkgSliceLen(v.Name())
}

var pkgFiles []*ast.File

func (t *tr) pkgSliceLen(name string) int64 {
	for _, f := range pkgFiles {
		for _, d := range f.Decls {
			gd, ok := d.(*ast.GenDecl)
			if !ok || gd.Tok != token.VAR {
				continue
			}
			for _, s := range gd.Specs {
				vs := s.(*ast.ValueSpec)
				for i, n := range vs.Names {
					if n.Name == name && i < len(vs.Values) {
						if cl, ok := vs.Values[i].(*ast.CompositeLit); ok {
							// a slice that is only ever read keeps the literal's length; assignments to it elsewhere are not tracked
							return int64(len(cl.Elts))
						}
					}
				}
			}
		}
	}
	return -1
}

type cont func(en env) string

type fctx struct {
	panics bool   // a panic leaf was emitted (or a callee with one is called)
	ret    string // "out" | "val"
	rit    ity
	ind    string
	brk    cont
	depth  int
}

func guard(ck checks, body, ind string, fc *fctx) string {
	if len(ck) == 0 {
		return body
	}
	if fc.ret != "out" {
		panic(untr{"a partial operation occurs in a function that does not return Arg"})
	}
	fc.panics = true
	return fmt.Sprintf("%sif %s then\n%s  %s\n%selse .panic", ind, strings.Join(ck, " && "), ind, strings.TrimLeft(body, " "), ind)
}

// finish resolves the result type of an Arg-returning definition: `Out2` (val | nil) when no panic leaf occurs in it or in
// anything it calls, `Out` otherwise (calls of panic-free helpers are then coerced)
func finish(body string, panics bool) (string, string) {
	if panics {
		return strings.ReplaceAll(body, "@@COERCE@@", "Out2.toOut "), "Out"
	}
	return strings.ReplaceAll(body, "@@COERCE@@", ""), "Out2"
}

func (t *tr) stmts(list []ast.Stmt, en env, fc *fctx, k cont) string {
	if t.nodes > 200000 {
		t.fail(nil, "translation too large")
	}
	if len(list) == 0 {
		return k(en)
	}
	s, rest := list[0], list[1:]
	next := func(e env) string { return t.stmts(rest, e, fc, k) }
	switch x := s.(type) {
	case *ast.BlockStmt:
		return t.stmts(x.List, en, fc, next)
	case *ast.EmptyStmt:
		return next(en)
	case *ast.DeclStmt:
		gd := x.Decl.(*ast.GenDecl)
		if gd.Tok != token.VAR {
			t.fail(s, "declaration")
		}
		out := ""
		for _, sp := range gd.Specs {
			vs := sp.(*ast.ValueSpec)
			for i, n := range vs.Names {
				o := t.info.ObjectOf(n)
				it, isInt := t.ityOf(o.Type())
				k0 := fmt.Sprintf("%p", o)
				if !isInt {
					if len(vs.Values) > 0 {
						var ck checks
						t.scan(vs.Values[i], en, &ck)
						if len(ck) > 0 {
							t.fail(s, "partial operation in a non-integer declaration")
						}
					}
					en = en.with(k0, "")
					continue
				}
				nm := t.fresh(n.Name)
				val := lit(big.NewInt(0), it.bits)
				if it.isBool {
					val = "false"
				}
				if len(vs.Values) > 0 {
					var ck checks
					val, _ = t.expr(vs.Values[i], en, &ck)
					if len(ck) > 0 {
						t.fail(s, "partial operation in a declaration")
					}
				}
				out += fmt.Sprintf("%slet %s : %s := %s\n", fc.ind, nm, it.lean(), val)
				en = en.with(k0, nm)
			}
		}
		return out + next(en)
	case *ast.AssignStmt:
		return t.assign(x, en, fc, next)
	case *ast.IncDecStmt:
		as := &ast.AssignStmt{Lhs: []ast.Expr{x.X}, Tok: token.ADD_ASSIGN, Rhs: []ast.Expr{&ast.BasicLit{Kind: token.INT, Value: "1"}}}
		_ = as
		t.fail(s, "++/-- is not in the fragment")
	case *ast.ReturnStmt:
		if len(x.Results) != 1 {
			t.fail(s, "return arity")
		}
		return t.ret(x.Results[0], en, fc)
	case *ast.IfStmt:
		if x.Init != nil {
			return t.stmts([]ast.Stmt{x.Init, &ast.IfStmt{If: x.If, Cond: x.Cond, Body: x.Body, Else: x.Else}}, en, fc, next)
		}
		var ck checks
		c, _ := t.expr(x.Cond, en, &ck)
		ind := fc.ind
		fc.ind = ind + "  "
		th := t.stmts(x.Body.List, en, fc, next)
		var el string
		if x.Else != nil {
			el = t.stmts([]ast.Stmt{x.Else}, en, fc, next)
		} else {
			el = next(en)
		}
		fc.ind = ind
		return guard(ck, fmt.Sprintf("%sif %s then\n%s\n%selse\n%s", ind, c, th, ind, el), ind, fc)
	case *ast.SwitchStmt:
		return t.switchStmt(x, en, fc, next)
	case *ast.ForStmt:
		// the loop is not translated: its body must be free of partial operations and calls, everything it assigns becomes
		// opaque (a later use as a value fails the case); termination is NOT shown (listed in `loops`)
		var ck checks
		en2 := en
		ast.Inspect(x, func(n ast.Node) bool {
			if as, ok := n.(*ast.AssignStmt); ok {
				for _, l := range as.Lhs {
					if k0, ok := t.key(l); ok {
						en2 = en2.with(k0, "")
					}
				}
			}
			switch n.(type) {
			case *ast.IndexExpr, *ast.CallExpr, *ast.TypeAssertExpr, *ast.StarExpr, *ast.SliceExpr:
				if c, ok := n.(*ast.CallExpr); ok {
					if tv, ok := t.info.Types[c.Fun]; ok && tv.IsType() {
						return true
					}
				}
				t.fail(n, "partial operation or call inside an untranslated loop")
			case *ast.BinaryExpr:
				b := n.(*ast.BinaryExpr)
				if b.Op == token.QUO || b.Op == token.REM {
					if _, c := t.constOf(b.Y); !c {
						t.fail(n, "division inside an untranslated loop")
					}
				}
				if b.Op == token.SHL || b.Op == token.SHR {
					if yt, ok := t.ityOf(t.info.TypeOf(b.Y)); !ok || yt.signed {
						if _, c := t.constOf(b.Y); !c {
							t.fail(n, "signed shift count inside an untranslated loop")
						}
					}
				}
			}
			return true
		})
		_ = ck
		if p := t.fset.Position(x.Pos()).String(); len(loops) == 0 || loops[len(loops)-1] != p {
			seen := false
			for _, l := range loops {
				seen = seen || l == p
			}
			if !seen {
				loops = append(loops, p)
			}
		}
		return next(en2)
	case *ast.BranchStmt:
		if x.Tok == token.BREAK && x.Label == nil && fc.brk != nil {
			return fc.brk(en)
		}
		t.fail(s, "branch statement %s", x.Tok)
	}
	t.fail(s, "unsupported statement %T", s)
	return ""
}

var loops []string

func (t *tr) assign(x *ast.AssignStmt, en env, fc *fctx, next cont) string {
	if len(x.Lhs) != len(x.Rhs) {
		t.fail(x, "assignment arity")
	}
	out := ""
	cur := en
	var ck checks
	type upd struct{ k, n string }
	var ups []upd
	for i, l := range x.Lhs {
		if id, ok := l.(*ast.Ident); ok && id.Name == "_" {
			t.scan(x.Rhs[i], en, &ck)
			continue
		}
		k0, ok := t.key(l)
		if !ok {
			t.fail(l, "assignment target")
		}
		lt := t.info.TypeOf(l)
		it, isInt := t.ityOf(lt)
		if !isInt {
			t.scan(x.Rhs[i], en, &ck)
			ups = append(ups, upd{k0, ""})
			continue
		}
		var rhs ast.Expr = x.Rhs[i]
		if x.Tok != token.ASSIGN && x.Tok != token.DEFINE {
			op := map[token.Token]token.Token{token.ADD_ASSIGN: token.ADD, token.SUB_ASSIGN: token.SUB, token.AND_ASSIGN: token.AND,
				token.OR_ASSIGN: token.OR, token.XOR_ASSIGN: token.XOR, token.SHL_ASSIGN: token.SHL, token.SHR_ASSIGN: token.SHR, token.MUL_ASSIGN: token.MUL}[x.Tok]
			if op == 0 {
				t.fail(x, "assignment operator %s", x.Tok)
			}
			// a op= b  ==  a = a op b ; go/types has no entry for the synthesised node, so translate the pieces
			a, _ := t.expr(l, en, &ck)
			var b string
			if s, ok := t.constLit(x.Rhs[i], it); ok && op != token.SHL && op != token.SHR {
				b = s
			} else if op == token.SHL || op == token.SHR {
				if v, ok := t.constOf(x.Rhs[i]); ok {
					n, _ := constant.Int64Val(v)
					b = fmt.Sprint(n)
				} else {
					c, ct := t.expr(x.Rhs[i], en, &ck)
					if ct.signed {
						ck = append(ck, fmt.Sprintf("(!(BitVec.slt %s %s))", c, lit(big.NewInt(0), ct.bits)))
					}
					b = "(" + c + ").toNat"
				}
			} else {
				b, _ = t.expr(x.Rhs[i], en, &ck)
			}
			sym := map[token.Token]string{token.ADD: "+", token.SUB: "-", token.AND: "&&&", token.OR: "|||", token.XOR: "^^^", token.SHL: "<<<", token.SHR: ">>>", token.MUL: "*"}[op]
			if op == token.SHR && it.signed {
				t.fail(x, "signed >>=")
			}
			nm := t.fresh(baseName(l))
			out += fmt.Sprintf("%slet %s : %s := (%s %s %s)\n", fc.ind, nm, it.lean(), a, sym, b)
			ups = append(ups, upd{k0, nm})
			continue
		}
		var val string
		if s, ok := t.constLit(rhs, it); ok {
			val = s
		} else {
			func() {
				defer func() {
					if r := recover(); r != nil {
						if _, isU := r.(untr); !isU {
							panic(r)
						}
						// the value cannot be translated (e.g. depends on a loop): keep it opaque, but its evaluation must be safe
						t.scan(rhs, en, &ck)
						val = ""
					}
				}()
				val, _ = t.expr(rhs, en, &ck)
			}()
		}
		if val == "" {
			ups = append(ups, upd{k0, ""})
			continue
		}
		nm := t.fresh(baseName(l))
		out += fmt.Sprintf("%slet %s : %s := %s\n", fc.ind, nm, it.lean(), val)
		ups = append(ups, upd{k0, nm})
	}
	for _, u := range ups {
		cur = cur.with(u.k, u.n)
	}
	return guard(ck, out+next(cur), fc.ind, fc)
}

func baseName(e ast.Expr) string {
	switch x := e.(type) {
	case *ast.Ident:
		return x.Name
	case *ast.SelectorExpr:
		return baseName(x.X) + "_" + x.Sel.Name
	case *ast.ParenExpr:
		return baseName(x.X)
	}
	return "v"
}

func (t *tr) ret(e ast.Expr, en env, fc *fctx) string {
	if fc.ret == "val" {
		var ck checks
		var s string
		if c, ok := t.constLit(e, fc.rit); ok {
			s = c
		} else {
			s, _ = t.expr(e, en, &ck)
		}
		if len(ck) > 0 {
			t.fail(e, "partial operation in a value-returning function")
		}
		return fc.ind + s
	}
	if id, ok := e.(*ast.Ident); ok && id.Name == "nil" {
		return fc.ind + ".nil"
	}
	ty := t.info.TypeOf(e)
	if _, isIface := ty.Underlying().(*types.Interface); isIface {
		// a call of an Arg-returning helper, or an interface-typed local: only the former is in the fragment
		if c, ok := e.(*ast.CallExpr); ok {
			var ck checks
			saved := t.curTypes
			t.curTypes = map[string]bool{}
			s := t.call(c, en, &ck)
			if ft, ok := t.ftypes[t.callee(c)]; ok {
				for k := range ft {
					saved[k] = true
				}
			} else {
				for k := range t.curTypes {
					saved[k] = true
				}
				t.ftypes[t.callee(c)] = t.curTypes
			}
			t.curTypes = saved
			if t.panics[t.callee(c)] {
				fc.panics = true
				return guard(ck, fc.ind+s, fc.ind, fc)
			}
			return guard(ck, fc.ind+"@@COERCE@@"+s, fc.ind, fc)
		}
		t.fail(e, "return of an interface-typed value")
	}
	if _, isPtr := ty.Underlying().(*types.Pointer); isPtr {
		t.fail(e, "return of a pointer (could be a typed nil)")
	}
	var ck checks
	t.scan(e, en, &ck)
	if t.curTypes != nil {
		t.curTypes[types.TypeString(ty, func(*types.Package) string { return "" })] = true
	}
	return guard(ck, fc.ind+".val", fc.ind, fc)
}

func (t *tr) switchStmt(x *ast.SwitchStmt, en env, fc *fctx, next cont) string {
	if x.Init != nil {
		t.fail(x, "switch with init")
	}
	var ck checks
	out := ""
	var tag string
	var tit ity
	if x.Tag != nil {
		tv, it := t.expr(x.Tag, en, &ck)
		tag = t.fresh("tag")
		tit = it
		out = fmt.Sprintf("%slet %s : %s := %s\n", fc.ind, tag, it.lean(), tv)
	}
	clauses := x.Body.List
	// body of clause i, following `fallthrough`
	var body func(i int) []ast.Stmt
	body = func(i int) []ast.Stmt {
		cc := clauses[i].(*ast.CaseClause)
		if n := len(cc.Body); n > 0 {
			if b, ok := cc.Body[n-1].(*ast.BranchStmt); ok && b.Tok == token.FALLTHROUGH {
				if i+1 >= len(clauses) {
					t.fail(b, "fallthrough in the last clause")
				}
				return append(append([]ast.Stmt{}, cc.Body[:n-1]...), body(i+1)...)
			}
		}
		return cc.Body
	}
	oldBrk := fc.brk
	ind := fc.ind
	def := -1
	type arm struct {
		cond string
		i    int
	}
	var arms []arm
	for i, c := range clauses {
		cc := c.(*ast.CaseClause)
		if cc.List == nil {
			def = i
			continue
		}
		var cs []string
		for _, e := range cc.List {
			if x.Tag != nil {
				l, ok := t.constLit(e, tit)
				if !ok {
					l, _ = t.expr(e, en, &ck)
				}
				cs = append(cs, "("+tag+" == "+l+")")
			} else {
				l, _ := t.expr(e, en, &ck)
				cs = append(cs, l)
			}
		}
		arms = append(arms, arm{strings.Join(cs, " || "), i})
	}
	fc.brk = next
	var build func(j int, ind string) string
	build = func(j int, ind string) string {
		fc.ind = ind + "  "
		if j == len(arms) {
			fc.ind = ind
			if def >= 0 {
				return t.stmts(body(def), en, fc, next)
			}
			return next(en)
		}
		th := t.stmts(body(arms[j].i), en, fc, next)
		el := build(j+1, ind)
		return fmt.Sprintf("%sif %s then\n%s\n%selse\n%s", ind, arms[j].cond, th, ind, el)
	}
	res := build(0, ind)
	fc.ind = ind
	fc.brk = oldBrk
	return guard(ck, out+res, ind, fc)
}

// function translates a whole function; returns "" or the reason it is untranslatable
func (t *tr) function(name string) (reason string) {
	if r, ok := t.bad[name]; ok {
		return r
	}
	if _, ok := t.done[name]; ok {
		return ""
	}
	fd := t.funcs[name]
	if fd == nil || fd.Body == nil {
		return "no such function"
	}
	t.done[name] = ""
	defer func() {
		if r := recover(); r != nil {
			u, ok := r.(untr)
			if !ok {
				panic(r)
			}
			delete(t.done, name)
			t.bad[name] = u.msg
			reason = u.msg
		}
	}()
	sig := t.info.ObjectOf(fd.Name).Type().(*types.Signature)
	if sig.Results().Len() != 1 {
		t.fail(fd, "result arity")
	}
	fc := &fctx{ind: "  "}
	rt := sig.Results().At(0).Type()
	var rlean string
	if it, ok := t.ityOf(rt); ok {
		fc.ret, fc.rit, rlean = "val", it, it.lean()
	} else if _, ok := rt.Underlying().(*types.Interface); ok {
		fc.ret, rlean = "out", "Out"
	} else {
		t.fail(fd, "result type %v", rt)
	}
	en := env{}
	var ps []string
	for i := 0; i < sig.Params().Len(); i++ {
		p := sig.Params().At(i)
		it, ok := t.ityOf(p.Type())
		if !ok {
			t.fail(fd, "parameter %s of type %v", p.Name(), p.Type())
		}
		nm := t.fresh(p.Name())
		en = en.with(fmt.Sprintf("%p", p), nm)
		ps = append(ps, fmt.Sprintf("(%s : %s)", nm, it.lean()))
	}
	body := t.stmts(fd.Body.List, en, fc, func(env) string {
		t.fail(fd, "control reaches the end of the function")
		return ""
	})
	pos := t.fset.Position(fd.Pos())
	if fc.ret == "out" {
		body, rlean = finish(body, fc.panics)
		t.panics[name] = fc.panics
	}
	t.done[name] = fmt.Sprintf("/-- %s:%d `%s` -/\ndef f_%s %s : %s :=\n%s\n", filepath.Base(pos.Filename), pos.Line, name, name, strings.Join(ps, " "), rlean, body)
	t.order = append(t.order, name)
	return ""
}

func main() {
	repo := flag.String("repo", "/repo", "goom tree")
	out := flag.String("out", "", "output .lean")
	dirFlag := flag.String("dir", "", "package directory (default <repo>/internal/arch/arm64asm); used to translate the reference decoder too")
	meta := flag.String("meta", "", "optional JSON: per kind the Go result types, and a content hash of every function of the package")
	flag.Parse()
	dir := filepath.Join(*repo, "internal/arch/arm64asm")
	if *dirFlag != "" {
		dir = *dirFlag
	}
	fset := token.NewFileSet()
	pkgs, err := parser.ParseDir(fset, dir, func(fi os.FileInfo) bool { return !strings.HasSuffix(fi.Name(), "_test.go") }, parser.ParseComments)
	if err != nil {
		fmt.Fprintln(os.Stderr, err)
		os.Exit(1)
	}
	var files []*ast.File
	var names []string
	for _, p := range pkgs {
		for n := range p.Files {
			names = append(names, n)
		}
		sort.Strings(names)
		for _, n := range names {
			files = append(files, p.Files[n])
		}
	}
	pkgFiles = files
	info := &types.Info{Types: map[ast.Expr]types.TypeAndValue{}, Defs: map[*ast.Ident]types.Object{}, Uses: map[*ast.Ident]types.Object{}}
	conf := types.Config{Importer: importer.ForCompiler(fset, "source", nil)}
	pkg, err := conf.Check("arm64asm", fset, files, info)
	if err != nil {
		fmt.Fprintln(os.Stderr, "type check:", err)
		os.Exit(1)
	}
	t := &tr{fset: fset, info: info, pkg: pkg, funcs: map[string]*ast.FuncDecl{}, done: map[string]string{}, bad: map[string]string{}, panics: map[string]bool{}, ftypes: map[string]map[string]bool{}, curTypes: map[string]bool{}}
	var condNames []string
	for i, f := range files {
		base := filepath.Base(names[i])
		for _, d := range f.Decls {
			if fd, ok := d.(*ast.FuncDecl); ok && fd.Recv == nil {
				t.funcs[fd.Name.Name] = fd
				if base == "condition.go" {
					condNames = append(condNames, fd.Name.Name)
				}
			}
		}
	}
	sort.Strings(condNames)

	// ---- decodeArg: one Lean function per case clause
	da := t.funcs["decodeArg"]
	if da == nil {
		fmt.Fprintln(os.Stderr, "decodeArg not found")
		os.Exit(1)
	}
	var sw *ast.SwitchStmt
	for _, s := range da.Body.List {
		if x, ok := s.(*ast.SwitchStmt); ok {
			sw = x
		}
	}
	if sw == nil || len(da.Body.List) != 1 {
		fmt.Fprintln(os.Stderr, "decodeArg is no longer a single switch: untranslatable")
		os.Exit(1)
	}
	sig := info.ObjectOf(da.Name).Type().(*types.Signature)
	if sig.Params().Len() != 2 {
		fmt.Fprintln(os.Stderr, "decodeArg signature changed")
		os.Exit(1)
	}
	tagObj := info.ObjectOf(sw.Tag.(*ast.Ident))
	if tagObj != sig.Params().At(0) {
		fmt.Fprintln(os.Stderr, "decodeArg does not switch on its first parameter")
		os.Exit(1)
	}
	xParam := sig.Params().At(1)
	type kcase struct {
		types  []string
		panics bool
		name   string
		val    int64
		lean   string
		reason string
		line   int
	}
	var cases []kcase
	defaultNil := false
	clauses := sw.Body.List
	var bodyOf func(i int) []ast.Stmt
	bodyOf = func(i int) []ast.Stmt {
		cc := clauses[i].(*ast.CaseClause)
		if n := len(cc.Body); n > 0 {
			if b, ok := cc.Body[n-1].(*ast.BranchStmt); ok && b.Tok == token.FALLTHROUGH && i+1 < len(clauses) {
				return append(append([]ast.Stmt{}, cc.Body[:n-1]...), bodyOf(i+1)...)
			}
		}
		return cc.Body
	}
	var sb strings.Builder
	for i, c := range clauses {
		cc := c.(*ast.CaseClause)
		if cc.List == nil {
			if len(cc.Body) == 1 {
				if r, ok := cc.Body[0].(*ast.ReturnStmt); ok && len(r.Results) == 1 {
					if id, ok := r.Results[0].(*ast.Ident); ok && id.Name == "nil" {
						defaultNil = true
					}
				}
			}
			continue
		}
		for _, ce := range cc.List {
			id, ok := ce.(*ast.Ident)
			if !ok {
				continue
			}
			v, _ := t.constOf(ce)
			n, _ := constant.Int64Val(v)
			kc := kcase{name: id.Name, val: n, line: fset.Position(cc.Pos()).Line}
			func() {
				defer func() {
					if r := recover(); r != nil {
						u, ok := r.(untr)
						if !ok {
							panic(r)
						}
						kc.reason = u.msg
					}
				}()
				t.curTypes = map[string]bool{}
				defer func() {
					for k := range t.curTypes {
						kc.types = append(kc.types, k)
					}
					sort.Strings(kc.types)
				}()
				xn := t.fresh("x")
				fc := &fctx{ret: "out", ind: "  "}
				en := env{fmt.Sprintf("%p", xParam): xn}
				body := t.stmts(bodyOf(i), en, fc, func(env) string {
					t.fail(cc, "control leaves the case without return")
					return ""
				})
				body, ty := finish(body, fc.panics)
				kc.panics = fc.panics
				kc.lean = fmt.Sprintf("/-- decode.go:%d `case %s` -/\ndef %s (%s : BitVec 32) : %s :=\n%s\n", kc.line, id.Name, id.Name, xn, ty, body)
			}()
			cases = append(cases, kc)
		}
	}
	// ---- canDecode predicates
	type pcond struct{ name, reason string }
	var conds []pcond
	for _, n := range condNames {
		conds = append(conds, pcond{n, t.function(n)})
	}

	sb.WriteString("-- GENERATED by /verif/tools/a64args from internal/arch/arm64asm/{decode.go,condition.go,condition_util.go} — do not edit.\n")
	sb.WriteString("set_option linter.unusedVariables false\nnamespace Gen.A64Args\n\n")
	sb.WriteString("/-- what `decodeArg` (or a helper returning `Arg`) does: a non-nil argument, nil, or a run-time panic\n    (index out of range, division by zero, negative shift count — made explicit by the translator) -/\ninductive Out where\n  | val | nil | panic | unknown\n  deriving DecidableEq, Repr\n\n")
	sb.WriteString("/-- the result type of every definition in which the translator found NO operation that can panic (neither in it nor in anything it calls) -/\ninductive Out2 where\n  | val | nil\n  deriving DecidableEq, Repr\n\ndef Out2.toOut : Out2 → Out\n  | .val => .val\n  | .nil => .nil\n\ntheorem Out2.toOut_ok (o : Out2) : o.toOut = .val ∨ o.toOut = .nil := by cases o <;> simp [Out2.toOut]\n\n")
	for _, n := range t.order {
		sb.WriteString(t.done[n] + "\n")
	}
	ntr := 0
	for _, c := range cases {
		if c.reason == "" {
			sb.WriteString(c.lean + "\n")
			ntr++
		}
	}
	// kinds whose case is outside the fragment or contains an operation that can panic
	sb.WriteString("/-- kinds whose case is untranslated or contains an operation that can panic (the theorems below exclude exactly these) -/\ndef badKinds : List Nat := [")
	firstb := true
	for _, kc := range cases {
		if kc.reason != "" || kc.panics {
			if !firstb {
				sb.WriteString(", ")
			}
			firstb = false
			sb.WriteString(fmt.Sprint(kc.val))
		}
	}
	sb.WriteString("]\n\n")
	// dispatcher as an association list, in chunks (one 311-deep if-chain exceeds the elaborator's recursion depth)
	const chunk = 24
	nch := (len(cases) + chunk - 1) / chunk
	for c := 0; c < nch; c++ {
		part := cases[c*chunk : min(len(cases), (c+1)*chunk)]
		sb.WriteString(fmt.Sprintf("def arms%d : List (Nat × (BitVec 32 → Out)) := [\n", c))
		for i, kc := range part {
			sep := ","
			if i == len(part)-1 {
				sep = ""
			}
			switch {
			case kc.reason != "":
				sb.WriteString(fmt.Sprintf("  (%d, fun _ => .unknown)%s\n", kc.val, sep))
			case kc.panics:
				sb.WriteString(fmt.Sprintf("  (%d, fun x => %s x)%s\n", kc.val, kc.name, sep))
			default:
				sb.WriteString(fmt.Sprintf("  (%d, fun x => (%s x).toOut)%s\n", kc.val, kc.name, sep))
			}
		}
		sb.WriteString("]\n\n")
		sb.WriteString(fmt.Sprintf("theorem arms%d_ok : ∀ p ∈ arms%d, p.1 ∉ badKinds → ∀ x, p.2 x = .val ∨ p.2 x = .nil := by\n  intro p hp hk x\n  simp only [arms%d, List.mem_cons, List.not_mem_nil, or_false] at hp\n  rcases hp with ", c, c, c))
		for i := range part {
			if i > 0 {
				sb.WriteString(" | ")
			}
			sb.WriteString("rfl")
		}
		sb.WriteString("\n  all_goals first\n    | (dsimp only; exact Out2.toOut_ok _)\n    | (exfalso; simp [badKinds] at hk; done)\n\n")
	}
	sb.WriteString("def arms : List (Nat × (BitVec 32 → Out)) := ")
	for c := 0; c < nch; c++ {
		if c > 0 {
			sb.WriteString(" ++ ")
		}
		sb.WriteString(fmt.Sprintf("arms%d", c))
	}
	dflt := ".unknown"
	if defaultNil {
		dflt = ".nil"
	}
	sb.WriteString("\n\n/-- decode.go:83 `decodeArg` as far as nil-ness and panics go (first clause whose constant equals `k`; `default: return nil`) -/\n")
	sb.WriteString("def decodeArgOut (k : Nat) (x : BitVec 32) : Out :=\n  match arms.find? (fun p => p.1 == k) with\n  | some p => p.2 x\n  | none => " + dflt + "\n\n")
	if defaultNil {
		sb.WriteString("/-- TOTALITY OF ARGUMENT DECODING: for every kind outside `badKinds` and EVERY word, the translated `decodeArg` returns a\n    non-nil argument or nil — it never reaches an operation that can panic. -/\n")
		sb.WriteString("theorem decodeArgOut_ok (k : Nat) (x : BitVec 32) (hk : k ∉ badKinds) : decodeArgOut k x = .val ∨ decodeArgOut k x = .nil := by\n  unfold decodeArgOut\n  split\n  · rename_i p hf\n    have hm := List.mem_of_find?_eq_some hf\n    have hkey : p.1 = k := by have := List.find?_some hf; simpa using this\n    simp only [arms, List.mem_append] at hm\n    have hk' : p.1 ∉ badKinds := hkey ▸ hk\n    rcases hm with ")
		// left-nested ors from successive appends: ((((a ∨ b) ∨ c) ∨ d) …)
		pat := "h"
		for c := 1; c < nch; c++ {
			pat = "(" + pat + " | h)"
		}
		sb.WriteString(pat + "\n    all_goals first\n")
		for c := 0; c < nch; c++ {
			sb.WriteString(fmt.Sprintf("      | exact arms%d_ok p h hk' x\n", c))
		}
		sb.WriteString("  · right; rfl\n\n")
	}
	sb.WriteString("/-- numeric values of the translated `arg_*` kinds -/\ndef translatedKinds : List Nat := [")
	first := true
	for _, c := range cases {
		if c.reason == "" {
			if !first {
				sb.WriteString(", ")
			}
			first = false
			sb.WriteString(fmt.Sprint(c.val))
		}
	}
	sb.WriteString("]\n\n/-- cases and predicates outside the fragment, with the reason -/\ndef untranslated : List (String × String) := [")
	first = true
	esc := func(s string) string { return strings.ReplaceAll(strings.ReplaceAll(s, "\\", "\\\\"), "\"", "\\\"") }
	for _, c := range cases {
		if c.reason != "" {
			if !first {
				sb.WriteString(",\n  ")
			}
			first = false
			sb.WriteString(fmt.Sprintf("(\"%s\", \"%s\")", c.name, esc(c.reason)))
		}
	}
	for _, c := range conds {
		if c.reason != "" {
			if !first {
				sb.WriteString(",\n  ")
			}
			first = false
			sb.WriteString(fmt.Sprintf("(\"%s\", \"%s\")", c.name, esc(c.reason)))
		}
	}
	sb.WriteString("]\n\n/-- loops that were skipped (termination not shown; everything they assign is opaque) -/\ndef loops : List String := [")
	for i, l := range loops {
		if i > 0 {
			sb.WriteString(", ")
		}
		sb.WriteString("\"" + esc(strings.TrimPrefix(l, *repo+"/")) + "\"")
	}
	sb.WriteString("]\n\n/-- condition.go: the `canDecode` predicates by name; `none` = not translated -/\ndef condByName (n : String) : Option (BitVec 32 → Bool) :=\n")
	for _, c := range conds {
		if c.reason == "" {
			sb.WriteString(fmt.Sprintf("  if n = \"%s\" then some f_%s else\n", c.name, c.name))
		}
	}
	sb.WriteString("  none\n\nend Gen.A64Args\n")
	if err := os.WriteFile(*out, []byte(sb.String()), 0o644); err != nil {
		fmt.Fprintln(os.Stderr, err)
		os.Exit(1)
	}
	if *meta != "" {
		var mb strings.Builder
		mb.WriteString("{\n \"kinds\": {")
		for i, c := range cases {
			if i > 0 {
				mb.WriteString(",")
			}
			mb.WriteString(fmt.Sprintf("\n  \"%d\": {\"name\": \"%s\", \"types\": [", c.val, c.name))
			for j, ty := range c.types {
				if j > 0 {
					mb.WriteString(", ")
				}
				mb.WriteString("\"" + ty + "\"")
			}
			mb.WriteString("]}")
		}
		mb.WriteString("\n },\n \"funcs\": {")
		var fnames []string
		sums := map[string]string{}
		for _, f := range files {
			for _, d := range f.Decls {
				fd, ok := d.(*ast.FuncDecl)
				if !ok || fd.Body == nil {
					continue
				}
				key := fd.Name.Name
				if fd.Recv != nil && len(fd.Recv.List) == 1 {
					var rb strings.Builder
					printer.Fprint(&rb, fset, fd.Recv.List[0].Type)
					key = strings.TrimPrefix(rb.String(), "*") + "." + key
				}
				var bb strings.Builder
				fd2 := *fd
				fd2.Doc = nil
				printer.Fprint(&bb, token.NewFileSet(), &fd2) // positions dropped: comments inside the body are not printed
				sums[key] = fmt.Sprintf("%x", sha256.Sum256([]byte(bb.String())))
				fnames = append(fnames, key)
			}
		}
		sort.Strings(fnames)
		for i, k := range fnames {
			if i > 0 {
				mb.WriteString(",")
			}
			mb.WriteString(fmt.Sprintf("\n  \"%s\": \"%s\"", k, sums[k]))
		}
		mb.WriteString("\n }\n}\n")
		os.WriteFile(*meta, []byte(mb.String()), 0o644)
	}
	nb := 0
	for _, c := range conds {
		if c.reason != "" {
			nb++
		}
	}
	fmt.Printf("cases=%d translated=%d conds=%d untranslated_conds=%d helpers=%d loops=%d\n", len(cases), ntr, len(conds), nb, len(t.order), len(loops))
	for _, c := range cases {
		if c.reason != "" {
			fmt.Printf("UNTRANSLATED %s: %s\n", c.name, c.reason)
		}
	}
	for _, c := range conds {
		if c.reason != "" {
			fmt.Printf("UNTRANSLATED %s: %s\n", c.name, c.reason)
		}
	}
}
