#!/bin/bash
# tools/confirm_seed.sh <seed dir, e.g. /tmp/seed/out/c04-1>
# Confirms, in a scratch worktree of /repo HEAD at the path the seed's demo_cmd expects: demo passes on the clean tree,
# patch applies and builds, demo fails with the patch, goom's baseline suite still passes 45/45 with the patch.
D=$1; S=$(basename $D); P=$(echo $S | cut -d- -f1)
WT=${SEED_WT_BASE:-/tmp/seed}/$P
export GOFLAGS=-mod=mod GOPROXY=off GOSUMDB=off GOTOOLCHAIN=local
git -C /repo worktree remove --force $WT >/dev/null 2>&1; git -C /repo worktree add --detach $WT HEAD >/dev/null 2>&1 || { echo "$S worktree failed"; exit 9; }
CMD=$(python3 -c "import json;print(json.load(open('$D/meta.json')).get('demo_cmd',''))" | sed "s#<goom-root>#$WT#g; s#<goom>#$WT#g")
place() {
  if ! echo "$CMD" | grep -q 'cp \|run.sh'; then
    tgt=$(echo "$CMD" | awk '{print $NF}'); case "$tgt" in ./*|.) ;; *) tgt=. ;; esac
    for f in $D/demo/*; do
      b=$(basename $f)
      if [ -d "$f" ]; then cp -r $f $WT/; elif [ "$b" != README.txt ]; then cp $f $WT/$tgt/; fi
    done
  fi
}
RUNDIR=$D; echo "$CMD" | grep -q "cd /" || RUNDIR=$WT
run() { (cd $RUNDIR && timeout 900 bash -c "$CMD") >/tmp/confirm-$S.$1.log 2>&1; echo $?; }
place; clean_rc=$(run clean)
git -C $WT checkout -q -- . ; git -C $WT clean -fdq
git -C $WT apply $D/patch.diff || { echo "$S PATCH-DOES-NOT-APPLY"; exit 3; }
(cd $WT && go build ./... ) || { echo "$S BUILD-FAILS"; exit 4; }
python3 /verif/tools/baseline.py $WT > /tmp/confirm-$S.base.log 2>&1; base_rc=$?
place; patched_rc=$(run patched)
git -C $WT checkout -q -- . ; git -C $WT clean -fdq
git -C /repo worktree remove --force $WT >/dev/null 2>&1
ok=NO; [ "$clean_rc" = 0 ] && [ "$patched_rc" != 0 ] && [ "$base_rc" = 0 ] && ok=YES
echo "$S confirmed=$ok demo_clean_rc=$clean_rc demo_patched_rc=$patched_rc baseline_rc=$base_rc"
