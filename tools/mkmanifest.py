#!/usr/bin/env python3
"""Regenerate /verif/MANIFEST.json from the META dictionaries of checks/Cxx.py (one registry, no hand-merging)."""
import importlib, json, os, sys
here = os.path.dirname(os.path.abspath(__file__))
verif = os.path.dirname(here)
sys.path.insert(0, verif)
props = [json.loads(l) for l in open(os.path.join(verif, 'properties.jsonl'))]
checks, na = [], []
for p in props:
    pid = p['id']
    if not os.path.exists(os.path.join(verif, 'checks', pid + '.py')):
        na.append({'property_id': pid, 'reason': 'no check is registered for this property yet (under construction; see DESIGN.md section 7 for the plan)'})
        continue
    m = importlib.import_module('checks.' + pid).META
    if m.get('not_applicable'):
        na.append({'property_id': pid, 'reason': m['not_applicable']})
        continue
    checks.append({
        'property_id': pid,
        'quick_cmd': f'python3 check.py {pid} --tier quick',
        'thorough_cmd': f'python3 check.py {pid} --tier thorough',
        'evidence_file': f'/verif/evidence/{pid}.json',
        'replay_cmd_template': f'python3 check.py {pid} --replay {{path}}',
        'engine': 'goomverif',
        'level_claimed': {'category': m.get('level', 'proof'), 'text': m['level_text'], 'design_ref': m.get('design_ref', 'DESIGN.md section 7, ' + pid)},
        'level_note': m['level_note'],
        'technique': m['technique'],
    })
man = {
    'version': 1,
    'setup_cmd': 'python3 tools/setup.py',
    'hooks': {
        'guard': 'verif',
        'enable': 'none needed: probes are injected into goom packages with `go test -overlay` (in-package _test.go files and whole helper packages), so no instrumentation is committed to /repo and the guard is never consulted',
        'baseline_off_cmd': 'cd /repo && GOFLAGS=-mod=mod GOPROXY=off GOSUMDB=off go test -mod=mod -json -vet=off -count=1 -timeout 25m ./...',
        'source_commits': [],
        'add_only': True,
    },
    'engines': [{'name': 'goomverif', 'path': '/verif/check.py',
                 'serves_properties': [c['property_id'] for c in checks],
                 'kind_free_text': 'Lean 4 theorems about models of goom (lean/GoomVerif), tied to /repo on every run by a Go->Lean translator (tools/gen) and by differential execution of the model driver (goomdrv) against in-package Go probes'}],
    'checks': checks,
    'not_applicable': na,
    'notes': 'Every check: regenerate Gen/*.lean from /repo, lake build the property theorems, audit #print axioms, build probes against the current tree with go test -overlay, run implementation and model on one operation stream, compare, apply the property oracle to the implementation, write evidence. GOOM_REPO overrides /repo for scratch-worktree experiments.',
}
json.dump(man, open(os.path.join(verif, 'MANIFEST.json'), 'w'), indent=1)
print(f'{len(checks)} checks, {len(na)} not_applicable')
