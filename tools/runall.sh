#!/bin/bash
# run every registered quick check on /repo and summarise
cd "$(dirname "$0")/.."
for P in $(python3 -c "import json;print(' '.join(c['property_id'] for c in json.load(open('MANIFEST.json'))['checks']))"); do
  s=$(date +%s); out=$(timeout 3000 python3 check.py $P --tier ${1:-quick} 2>&1 | grep -E "^(OK|VIOLATION|KNOWN-FINDING|INFRA)" | cut -c1-150 | tr '\n' '|'); e=$(date +%s)
  echo "$P $((e-s))s $out"
done
