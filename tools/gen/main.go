// Command gen regenerates Lean definitions from goom's Go sources.
//
// It accepts a small, documented subset of Go (straight-line sized-integer arithmetic, byte-slice
// construction, if/switch, map-literal lookup, panics) and emits total Lean 4 functions over
// BitVec n / List (BitVec 8).  Anything outside the subset is reported as
//
//	file:line: untranslatable: <why>
//
// and the program exits 2, which the checks treat as a broken proof obligation (never as a skip).
//
// usage: gen -repo /repo -spec spec.json -out lean/GoomVerif/Gen
package main

import (
	"encoding/json"
	"flag"
	"fmt"
	"go/ast"
	"go/constant"
	"go/importer"
	"go/parser"
	"go/token"
	"go/types"
	"math/big"
	"os"
	"path/filepath"
	"sort"
	"strings"
)

// Unit is one generated Lean module.
type Unit struct {
	Module    string            `json:"module"`    // Lean module name under GoomVerif.Gen, e.g. "JmpAmd64"
	Namespace string            `json:"namespace"` // Lean namespace, e.g. "Gen.Amd64"
	Files     []string          `json:"files"`     // paths relative to the repo
	Arch      string            `json:"arch"`      // amd64 | arm64 | 386 (word size)
	Funcs     []string          `json:"funcs"`     // functions (or Recv.Method) to translate, in dependency order
	Consts    []string          `json:"consts"`    // package-level constants / byte-slice vars / map literals to translate
	Imports   []string          `json:"imports"`   // other Gen modules to import
	Externs   map[string]string `json:"externs"`   // external calls replaced by a Lean expression (recorded in the trusted base)
}

type untranslatable struct {
	pos token.Position
	msg string
}

func (u untranslatable) Error() string {
	return fmt.Sprintf("%s:%d: untranslatable: %s", u.pos.Filename, u.pos.Line, u.msg)
}

type tr struct {
	fset     *token.FileSet
	info     *types.Info
	wordBits int
	funcs    map[string]*ast.FuncDecl // by Lean-level name
	mutator  map[string]int           // function name -> index of mutated slice param (functions without results)
	excepts  map[string]bool          // function returns Except
	maps     map[string]bool          // package-level map literals translated as lookup functions
	curFn    *ast.FuncDecl
	curExc   bool
	externs  map[string]string
}

func (t *tr) fail(n ast.Node, f string, a ...interface{}) {
	panic(untranslatable{t.fset.Position(n.Pos()), fmt.Sprintf(f, a...)})
}

var reserved = map[string]bool{"from": true, "at": true, "end": true, "then": true, "do": true, "fun": true,
	"let": true, "have": true, "show": true, "in": true, "open": true, "with": true, "match": true,
	"instance": true, "def": true, "theorem": true, "variable": true, "universe": true, "namespace": true,
	"section": true, "local": true, "where": true, "if": true, "else": true, "return": true, "mutual": true,
	"structure": true, "class": true, "inductive": true, "by": true, "prefix": true, "infix": true, "notation": true,
	"macro": true, "syntax": true, "export": true, "import": true, "abbrev": true, "example": true, "deriving": true,
	"private": true, "protected": true, "partial": true, "unsafe": true, "calc": true, "using": true, "exact": true,
	"val": false, "to": false, "double": false}

func id(s string) string {
	if reserved[s] {
		return s + "_"
	}
	return s
}

// ---------- types

type ity struct {
	bits   int
	signed bool
}

func (t *tr) intType(ty types.Type) (ity, bool) {
	b, ok := ty.Underlying().(*types.Basic)
	if !ok {
		return ity{}, false
	}
	switch b.Kind() {
	case types.Int8:
		return ity{8, true}, true
	case types.Uint8:
		return ity{8, false}, true
	case types.Int16:
		return ity{16, true}, true
	case types.Uint16:
		return ity{16, false}, true
	case types.Int32:
		return ity{32, true}, true
	case types.Uint32:
		return ity{32, false}, true
	case types.Int64:
		return ity{64, true}, true
	case types.Uint64:
		return ity{64, false}, true
	case types.Int, types.UntypedInt, types.UntypedRune:
		return ity{t.wordBits, true}, true
	case types.Uint, types.Uintptr:
		return ity{t.wordBits, false}, true
	}
	return ity{}, false
}

func (t *tr) isByteSlice(ty types.Type) bool {
	s, ok := ty.Underlying().(*types.Slice)
	if !ok {
		return false
	}
	it, ok := t.intType(s.Elem())
	return ok && it.bits == 8 && !it.signed
}

func (t *tr) leanType(n ast.Node, ty types.Type) string {
	if it, ok := t.intType(ty); ok {
		return fmt.Sprintf("BitVec %d", it.bits)
	}
	if t.isByteSlice(ty) {
		return "List (BitVec 8)"
	}
	if b, ok := ty.Underlying().(*types.Basic); ok && (b.Kind() == types.Bool || b.Kind() == types.UntypedBool) {
		return "Bool"
	}
	t.fail(n, "type %s", ty)
	return ""
}

func lit(v *big.Int, bits int) string {
	m := new(big.Int).Lsh(big.NewInt(1), uint(bits))
	r := new(big.Int).Mod(v, m)
	return fmt.Sprintf("(0x%s#%d)", r.Text(16), bits)
}

func constInt(v constant.Value) (*big.Int, bool) {
	v = constant.ToInt(v)
	if v.Kind() != constant.Int {
		return nil, false
	}
	if i, ok := constant.Int64Val(v); ok {
		return big.NewInt(i), true
	}
	b, ok := new(big.Int).SetString(v.ExactString(), 10)
	return b, ok
}

// ---------- expressions

func (t *tr) typeOf(e ast.Expr) types.Type {
	tv, ok := t.info.Types[e]
	if !ok || tv.Type == nil {
		if idn, ok := e.(*ast.Ident); ok {
			if o := t.info.ObjectOf(idn); o != nil {
				return o.Type()
			}
		}
		t.fail(e, "no type information")
	}
	return tv.Type
}

// natExpr translates an integer expression to a Lean Nat (for shift counts and indices).
func (t *tr) natExpr(e ast.Expr) string {
	if tv, ok := t.info.Types[e]; ok && tv.Value != nil {
		if v, ok := constInt(tv.Value); ok && v.Sign() >= 0 {
			return v.String()
		}
	}
	return "(" + t.expr(e) + ").toNat"
}

func (t *tr) expr(e ast.Expr) string {
	// constants first
	if tv, ok := t.info.Types[e]; ok && tv.Value != nil {
		if tv.Value.Kind() == constant.Bool {
			if constant.BoolVal(tv.Value) {
				return "true"
			}
			return "false"
		}
		if it, ok := t.intType(tv.Type); ok {
			if v, ok := constInt(tv.Value); ok {
				return lit(v, it.bits)
			}
		}
		if tv.Value.Kind() == constant.String {
			return fmt.Sprintf("%q", constant.StringVal(tv.Value))
		}
		t.fail(e, "constant of type %s", tv.Type)
	}
	switch x := e.(type) {
	case *ast.ParenExpr:
		return t.expr(x.X)
	case *ast.Ident:
		if x.Name == "true" || x.Name == "false" {
			return x.Name
		}
		return id(x.Name)
	case *ast.UnaryExpr:
		switch x.Op {
		case token.SUB:
			return "(- " + t.expr(x.X) + ")"
		case token.NOT:
			return "(! " + t.expr(x.X) + ")"
		case token.XOR:
			return "(~~~ " + t.expr(x.X) + ")"
		}
		t.fail(e, "unary %s", x.Op)
	case *ast.BinaryExpr:
		return t.binary(x)
	case *ast.CallExpr:
		return t.call(x)
	case *ast.CompositeLit:
		if !t.isByteSlice(t.typeOf(x)) {
			t.fail(e, "composite literal of type %s", t.typeOf(x))
		}
		var els []string
		for _, el := range x.Elts {
			if _, ok := el.(*ast.KeyValueExpr); ok {
				t.fail(el, "keyed element")
			}
			els = append(els, t.expr(el))
		}
		return "[" + strings.Join(els, ", ") + "]"
	case *ast.IndexExpr:
		if !t.isByteSlice(t.typeOf(x.X)) {
			t.fail(e, "index of %s", t.typeOf(x.X))
		}
		return fmt.Sprintf("(%s.getD %s 0#8)", t.expr(x.X), t.natExpr(x.Index))
	case *ast.SliceExpr:
		if !t.isByteSlice(t.typeOf(x.X)) || x.Slice3 {
			t.fail(e, "slice expression")
		}
		s := t.expr(x.X)
		if x.High != nil {
			s = fmt.Sprintf("(%s.take %s)", s, t.natExpr(x.High))
		}
		if x.Low != nil {
			s = fmt.Sprintf("(%s.drop %s)", s, t.natExpr(x.Low))
		}
		return s
	}
	t.fail(e, "expression %T", e)
	return ""
}

func (t *tr) binary(x *ast.BinaryExpr) string {
	a, b := x.X, x.Y
	switch x.Op {
	case token.LAND:
		return "(" + t.expr(a) + " && " + t.expr(b) + ")"
	case token.LOR:
		return "(" + t.expr(a) + " || " + t.expr(b) + ")"
	case token.SHL, token.SHR:
		it, ok := t.intType(t.typeOf(x))
		if !ok {
			t.fail(x, "shift of %s", t.typeOf(x))
		}
		if x.Op == token.SHL {
			return fmt.Sprintf("(%s <<< %s)", t.expr(a), t.natExpr(b))
		}
		if it.signed {
			return fmt.Sprintf("(BitVec.sshiftRight %s %s)", t.expr(a), t.natExpr(b))
		}
		return fmt.Sprintf("(%s >>> %s)", t.expr(a), t.natExpr(b))
	case token.EQL, token.NEQ, token.LSS, token.LEQ, token.GTR, token.GEQ:
		ta := t.typeOf(a)
		if it, ok := t.intType(ta); ok {
			// an untyped constant operand takes the other operand's type
			if b0, isB := ta.Underlying().(*types.Basic); isB && b0.Info()&types.IsUntyped != 0 {
				it, _ = t.intType(t.typeOf(b))
			}
			sa, sb := t.exprAs(a, it), t.exprAs(b, it)
			p := "u"
			if it.signed {
				p = "s"
			}
			switch x.Op {
			case token.EQL:
				return fmt.Sprintf("(%s == %s)", sa, sb)
			case token.NEQ:
				return fmt.Sprintf("(%s != %s)", sa, sb)
			case token.LSS:
				return fmt.Sprintf("(BitVec.%slt %s %s)", p, sa, sb)
			case token.LEQ:
				return fmt.Sprintf("(BitVec.%sle %s %s)", p, sa, sb)
			case token.GTR:
				return fmt.Sprintf("(BitVec.%slt %s %s)", p, sb, sa)
			case token.GEQ:
				return fmt.Sprintf("(BitVec.%sle %s %s)", p, sb, sa)
			}
		}
		if x.Op == token.EQL {
			return fmt.Sprintf("(%s == %s)", t.expr(a), t.expr(b))
		}
		if x.Op == token.NEQ {
			return fmt.Sprintf("(%s != %s)", t.expr(a), t.expr(b))
		}
		t.fail(x, "comparison of %s", ta)
	case token.ADD, token.SUB, token.MUL, token.AND, token.OR, token.XOR:
		it, ok := t.intType(t.typeOf(x))
		if !ok {
			t.fail(x, "arithmetic on %s", t.typeOf(x))
		}
		op := map[token.Token]string{token.ADD: "+", token.SUB: "-", token.MUL: "*", token.AND: "&&&", token.OR: "|||", token.XOR: "^^^"}[x.Op]
		return fmt.Sprintf("(%s %s %s)", t.exprAs(a, it), op, t.exprAs(b, it))
	}
	t.fail(x, "binary %s", x.Op)
	return ""
}

// exprAs translates e; a constant is emitted at the width of the context type.
func (t *tr) exprAs(e ast.Expr, it ity) string {
	if tv, ok := t.info.Types[e]; ok && tv.Value != nil {
		if v, ok := constInt(tv.Value); ok {
			return lit(v, it.bits)
		}
	}
	return t.expr(e)
}

func (t *tr) conv(n ast.Node, to types.Type, arg ast.Expr) string {
	dst, ok := t.intType(to)
	if !ok {
		t.fail(n, "conversion to %s", to)
	}
	src, ok := t.intType(t.typeOf(arg))
	if !ok {
		t.fail(n, "conversion from %s", t.typeOf(arg))
	}
	s := t.expr(arg)
	switch {
	case dst.bits == src.bits:
		return s
	case dst.bits < src.bits:
		return fmt.Sprintf("(BitVec.setWidth %d %s)", dst.bits, s)
	case src.signed:
		return fmt.Sprintf("(BitVec.signExtend %d %s)", dst.bits, s)
	default:
		return fmt.Sprintf("(BitVec.setWidth %d %s)", dst.bits, s)
	}
}

func (t *tr) calleeName(c *ast.CallExpr) string {
	switch f := c.Fun.(type) {
	case *ast.Ident:
		return f.Name
	case *ast.SelectorExpr:
		if x, ok := f.X.(*ast.Ident); ok {
			return x.Name + "_" + f.Sel.Name
		}
	}
	return ""
}

func (t *tr) call(c *ast.CallExpr) string {
	// conversion?
	if tv, ok := t.info.Types[c.Fun]; ok && tv.IsType() {
		if len(c.Args) != 1 {
			t.fail(c, "conversion arity")
		}
		return t.conv(c, tv.Type, c.Args[0])
	}
	if p, ok := c.Fun.(*ast.ParenExpr); ok {
		if tv, ok := t.info.Types[p.X]; ok && tv.IsType() {
			return t.conv(c, tv.Type, c.Args[0])
		}
	}
	name := t.calleeName(c)
	switch name {
	case "len":
		it, _ := t.intType(t.typeOf(c))
		return fmt.Sprintf("(BitVec.ofNat %d %s.length)", it.bits, t.expr(c.Args[0]))
	case "make":
		if !t.isByteSlice(t.typeOf(c)) {
			t.fail(c, "make of %s", t.typeOf(c))
		}
		return fmt.Sprintf("(List.replicate %s (0#8))", t.natExpr(c.Args[1]))
	case "append":
		if !t.isByteSlice(t.typeOf(c)) {
			t.fail(c, "append to %s", t.typeOf(c))
		}
		if c.Ellipsis.IsValid() {
			if len(c.Args) != 2 {
				t.fail(c, "append arity")
			}
			return fmt.Sprintf("(%s ++ %s)", t.expr(c.Args[0]), t.expr(c.Args[1]))
		}
		var els []string
		for _, a := range c.Args[1:] {
			els = append(els, t.expr(a))
		}
		return fmt.Sprintf("(%s ++ [%s])", t.expr(c.Args[0]), strings.Join(els, ", "))
	}
	if ex, ok := t.externs[name]; ok {
		return ex
	}
	if _, ok := t.funcs[name]; ok {
		if t.excepts[name] {
			t.fail(c, "call of panicking function %s in expression position", name)
		}
		if _, mut := t.mutator[name]; mut {
			t.fail(c, "mutator %s used as expression", name)
		}
		s := "(" + name
		for _, a := range c.Args {
			s += " " + t.expr(a)
		}
		return s + ")"
	}
	t.fail(c, "call of %s (not in the translated set)", name)
	return ""
}

// ---------- statements (continuation style; the continuation is duplicated at joins)

type cont func(ind string) string

func (t *tr) ret(ind, s string) string {
	if t.curExc {
		return ind + ".ok " + s + "\n"
	}
	return ind + s + "\n"
}

func (t *tr) stmts(list []ast.Stmt, ind string, k cont) string {
	if len(list) == 0 {
		if k == nil {
			t.fail(t.curFn, "control reaches end of function without return")
		}
		return k(ind)
	}
	s, rest := list[0], list[1:]
	next := func(ind string) string { return t.stmts(rest, ind, k) }
	switch x := s.(type) {
	case *ast.ReturnStmt:
		if len(x.Results) == 0 {
			return t.bareReturn(x, ind)
		}
		if len(x.Results) != 1 {
			t.fail(x, "multiple results")
		}
		if c, ok := x.Results[0].(*ast.CallExpr); ok && t.excepts[t.calleeName(c)] {
			s := t.calleeName(c)
			for _, a := range c.Args {
				s += " " + t.expr(a)
			}
			return ind + s + "\n"
		}
		return t.ret(ind, t.expr(x.Results[0]))
	case *ast.DeclStmt:
		gd := x.Decl.(*ast.GenDecl)
		if gd.Tok != token.VAR {
			t.fail(x, "declaration %s", gd.Tok)
		}
		out := ""
		for _, sp := range gd.Specs {
			vs := sp.(*ast.ValueSpec)
			for i, n := range vs.Names {
				ty := t.info.ObjectOf(n).Type()
				var v string
				if len(vs.Values) > i {
					it, isInt := t.intType(ty)
					if isInt {
						v = t.exprAs(vs.Values[i], it)
					} else {
						v = t.expr(vs.Values[i])
					}
				} else if it, ok := t.intType(ty); ok {
					v = lit(big.NewInt(0), it.bits)
				} else if t.isByteSlice(ty) {
					v = "[]"
				} else {
					v = "false"
				}
				out += fmt.Sprintf("%slet %s : %s := %s\n", ind, id(n.Name), t.leanType(n, ty), v)
			}
		}
		return out + next(ind)
	case *ast.AssignStmt:
		return t.assign(x, ind) + next(ind)
	case *ast.ExprStmt:
		c, ok := x.X.(*ast.CallExpr)
		if !ok {
			t.fail(x, "expression statement")
		}
		name := t.calleeName(c)
		if name == "panic" {
			if !t.curExc {
				t.fail(x, "panic in non-Except function")
			}
			return ind + ".error \"panic\"\n"
		}
		if pi, ok := t.mutator[name]; ok {
			v, ok := c.Args[pi].(*ast.Ident)
			if !ok {
				t.fail(x, "mutator argument must be a variable")
			}
			s := name
			for _, a := range c.Args {
				s += " " + t.expr(a)
			}
			return fmt.Sprintf("%slet %s := %s\n", ind, id(v.Name), s) + next(ind)
		}
		t.fail(x, "call statement %s", name)
	case *ast.IfStmt:
		return t.ifStmt(x, ind, next)
	case *ast.SwitchStmt:
		return t.switchStmt(x, ind, next)
	case *ast.BlockStmt:
		return t.stmts(append(append([]ast.Stmt{}, x.List...), rest...), ind, k)
	}
	t.fail(s, "statement %T", s)
	return ""
}

func (t *tr) bareReturn(x *ast.ReturnStmt, ind string) string {
	res := t.curFn.Type.Results
	if res == nil || len(res.List) == 0 {
		// mutator: return the mutated parameter
		if pi, ok := t.mutator[t.fnName(t.curFn)]; ok {
			return t.ret(ind, id(t.paramNames(t.curFn)[pi]))
		}
		t.fail(x, "bare return")
	}
	if len(res.List) != 1 || len(res.List[0].Names) != 1 {
		t.fail(x, "bare return with multiple named results")
	}
	return t.ret(ind, id(res.List[0].Names[0].Name))
}

func (t *tr) assign(x *ast.AssignStmt, ind string) string {
	if len(x.Lhs) != 1 || len(x.Rhs) != 1 {
		t.fail(x, "multi-assignment")
	}
	lhs, rhs := x.Lhs[0], x.Rhs[0]
	if idn, ok := lhs.(*ast.Ident); ok && idn.Name == "_" {
		return "" // bounds-check hint
	}
	// *(*uint32)(unsafe.Pointer(&res[0])) = m   -- little-endian store of a uint32 on every supported host
	if st, ok := lhs.(*ast.StarExpr); ok {
		if v, ok := t.leStore32(st); ok {
			m := t.expr(rhs)
			return fmt.Sprintf("%slet %s := ((%s.set 0 (BitVec.setWidth 8 %s)).set 1 (BitVec.setWidth 8 (%s >>> 8))).set 2 (BitVec.setWidth 8 (%s >>> 16)) |>.set 3 (BitVec.setWidth 8 (%s >>> 24))\n",
				ind, v, v, m, m, m, m)
		}
		t.fail(x, "store through pointer")
	}
	switch l := lhs.(type) {
	case *ast.Ident:
		ty := t.typeOf(l)
		var v string
		if x.Tok == token.ASSIGN || x.Tok == token.DEFINE {
			if it, ok := t.intType(ty); ok {
				v = t.exprAs(rhs, it)
			} else {
				v = t.expr(rhs)
			}
		} else {
			it, ok := t.intType(ty)
			if !ok {
				t.fail(x, "op-assign on %s", ty)
			}
			op, ok := map[token.Token]string{token.ADD_ASSIGN: "+", token.SUB_ASSIGN: "-", token.OR_ASSIGN: "|||",
				token.AND_ASSIGN: "&&&", token.XOR_ASSIGN: "^^^"}[x.Tok]
			if !ok {
				t.fail(x, "assignment operator %s", x.Tok)
			}
			v = fmt.Sprintf("%s %s %s", id(l.Name), op, t.exprAs(rhs, it))
		}
		return fmt.Sprintf("%slet %s : %s := %s\n", ind, id(l.Name), t.leanType(l, ty), v)
	case *ast.IndexExpr:
		base, ok := l.X.(*ast.Ident)
		if !ok || !t.isByteSlice(t.typeOf(base)) || x.Tok != token.ASSIGN {
			t.fail(x, "element assignment")
		}
		return fmt.Sprintf("%slet %s := %s.set %s %s\n", ind, id(base.Name), id(base.Name), t.natExpr(l.Index), t.expr(rhs))
	}
	t.fail(x, "assignment target %T", lhs)
	return ""
}

func (t *tr) leStore32(st *ast.StarExpr) (string, bool) {
	p, ok := st.X.(*ast.CallExpr) // (*uint32)(...)
	if !ok || len(p.Args) != 1 {
		return "", false
	}
	tv, ok := t.info.Types[p.Fun]
	if !ok || !tv.IsType() || tv.Type.String() != "*uint32" {
		return "", false
	}
	u, ok := p.Args[0].(*ast.CallExpr) // unsafe.Pointer(&res[0])
	if !ok || len(u.Args) != 1 {
		return "", false
	}
	if sel, ok := u.Fun.(*ast.SelectorExpr); !ok || sel.Sel.Name != "Pointer" {
		return "", false
	}
	a, ok := u.Args[0].(*ast.UnaryExpr)
	if !ok || a.Op != token.AND {
		return "", false
	}
	ix, ok := a.X.(*ast.IndexExpr)
	if !ok {
		return "", false
	}
	if tv, ok := t.info.Types[ix.Index]; !ok || tv.Value == nil || tv.Value.ExactString() != "0" {
		return "", false
	}
	b, ok := ix.X.(*ast.Ident)
	if !ok {
		return "", false
	}
	return id(b.Name), true
}

func (t *tr) terminates(list []ast.Stmt) bool {
	if len(list) == 0 {
		return false
	}
	switch x := list[len(list)-1].(type) {
	case *ast.ReturnStmt:
		return true
	case *ast.ExprStmt:
		if c, ok := x.X.(*ast.CallExpr); ok && t.calleeName(c) == "panic" {
			return true
		}
	case *ast.IfStmt:
		if x.Else == nil {
			return false
		}
		eb, ok := x.Else.(*ast.BlockStmt)
		if !ok {
			return t.terminates([]ast.Stmt{x.Else})
		}
		return t.terminates(x.Body.List) && t.terminates(eb.List)
	case *ast.BlockStmt:
		return t.terminates(x.List)
	}
	return false
}

func (t *tr) ifStmt(x *ast.IfStmt, ind string, next cont) string {
	elseK := func(ind string) string {
		if x.Else == nil {
			return next(ind)
		}
		switch e := x.Else.(type) {
		case *ast.BlockStmt:
			return t.stmts(e.List, ind, next)
		case *ast.IfStmt:
			return t.ifStmt(e, ind, next)
		}
		t.fail(x.Else, "else form")
		return ""
	}
	// if v, ok := m[k]; ok { ... }
	if x.Init != nil {
		as, ok := x.Init.(*ast.AssignStmt)
		if ok && as.Tok == token.DEFINE && len(as.Lhs) == 2 && len(as.Rhs) == 1 {
			if ix, ok := as.Rhs[0].(*ast.IndexExpr); ok {
				if m, ok := ix.X.(*ast.Ident); ok && t.maps[m.Name] {
					okv := as.Lhs[1].(*ast.Ident).Name
					if c, ok := x.Cond.(*ast.Ident); ok && c.Name == okv {
						v := as.Lhs[0].(*ast.Ident).Name
						return fmt.Sprintf("%smatch %s %s with\n%s| some %s =>\n%s%s| none =>\n%s", ind, m.Name, t.expr(ix.Index),
							ind, id(v), t.stmts(x.Body.List, ind+"    ", next), ind, elseK(ind+"    "))
					}
				}
			}
		}
		t.fail(x, "if with init statement (only `v, ok := m[k]; ok` is supported)")
	}
	// constant condition: choose the branch (e.g. unsafe.Sizeof comparisons)
	if tv, ok := t.info.Types[x.Cond]; ok && tv.Value != nil && tv.Value.Kind() == constant.Bool {
		if constant.BoolVal(tv.Value) {
			return t.stmts(x.Body.List, ind, next)
		}
		return elseK(ind)
	}
	return fmt.Sprintf("%sif %s then\n%s%selse\n%s", ind, t.expr(x.Cond), t.stmts(x.Body.List, ind+"  ", next), ind, elseK(ind+"  "))
}

func (t *tr) switchStmt(x *ast.SwitchStmt, ind string, next cont) string {
	if x.Init != nil || x.Tag == nil {
		t.fail(x, "switch form")
	}
	it, ok := t.intType(t.typeOf(x.Tag))
	if !ok {
		t.fail(x, "switch on %s", t.typeOf(x.Tag))
	}
	tag := t.expr(x.Tag)
	var def *ast.CaseClause
	type arm struct {
		cond string
		body []ast.Stmt
	}
	var arms []arm
	for _, c := range x.Body.List {
		cc := c.(*ast.CaseClause)
		for _, s := range cc.Body {
			if b, ok := s.(*ast.BranchStmt); ok {
				t.fail(b, "branch statement in switch")
			}
		}
		if cc.List == nil {
			def = cc
			continue
		}
		var cs []string
		for _, e := range cc.List {
			cs = append(cs, fmt.Sprintf("%s == %s", tag, t.exprAs(e, it)))
		}
		arms = append(arms, arm{strings.Join(cs, " || "), cc.Body})
	}
	out := ""
	cur := ind
	for _, a := range arms {
		out += fmt.Sprintf("%sif %s then\n%s%selse\n", cur, a.cond, t.stmts(a.body, cur+"  ", next), cur)
		cur += "  "
	}
	if def != nil {
		out += t.stmts(def.Body, cur, next)
	} else {
		out += next(cur)
	}
	return out
}

// ---------- functions

func (t *tr) fnName(fd *ast.FuncDecl) string {
	if fd.Recv != nil && len(fd.Recv.List) == 1 {
		var rn string
		switch r := fd.Recv.List[0].Type.(type) {
		case *ast.Ident:
			rn = r.Name
		case *ast.StarExpr:
			rn = r.X.(*ast.Ident).Name
		}
		// methods of `littleEndian` are called as LittleEndian.X
		if rn == "littleEndian" {
			rn = "LittleEndian"
		}
		return rn + "_" + fd.Name.Name
	}
	return fd.Name.Name
}

func (t *tr) paramNames(fd *ast.FuncDecl) []string {
	var out []string
	for _, f := range fd.Type.Params.List {
		if len(f.Names) == 0 {
			out = append(out, "_")
		}
		for _, n := range f.Names {
			out = append(out, n.Name)
		}
	}
	return out
}

func hasPanic(n ast.Node) bool {
	found := false
	ast.Inspect(n, func(n ast.Node) bool {
		if c, ok := n.(*ast.CallExpr); ok {
			if i, ok := c.Fun.(*ast.Ident); ok && i.Name == "panic" {
				found = true
			}
		}
		return true
	})
	return found
}

func (t *tr) mutatedParam(fd *ast.FuncDecl) (int, bool) {
	if fd.Type.Results != nil && len(fd.Type.Results.List) > 0 {
		return 0, false
	}
	names := t.paramNames(fd)
	idx := -1
	ast.Inspect(fd.Body, func(n ast.Node) bool {
		if as, ok := n.(*ast.AssignStmt); ok {
			for _, l := range as.Lhs {
				if ix, ok := l.(*ast.IndexExpr); ok {
					if b, ok := ix.X.(*ast.Ident); ok {
						for i, p := range names {
							if p == b.Name {
								idx = i
							}
						}
					}
				}
			}
		}
		return true
	})
	return idx, idx >= 0
}

func (t *tr) function(fd *ast.FuncDecl) string {
	t.curFn = fd
	name := t.fnName(fd)
	t.curExc = t.excepts[name]
	var ps []string
	k := 0
	for _, f := range fd.Type.Params.List {
		ty := t.info.TypeOf(f.Type)
		names := f.Names
		if len(names) == 0 {
			names = []*ast.Ident{{Name: "_"}}
		}
		for _, n := range names {
			pn := id(n.Name)
			if pn == "_" {
				pn = fmt.Sprintf("_p%d", k)
			}
			ps = append(ps, fmt.Sprintf("(%s : %s)", pn, t.leanType(f, ty)))
			k++
		}
	}
	var rty string
	var pre string
	var endK cont
	if pi, ok := t.mutator[name]; ok {
		rty = "List (BitVec 8)"
		pn := id(t.paramNames(fd)[pi])
		endK = func(ind string) string { return t.ret(ind, pn) }
	} else {
		res := fd.Type.Results
		if res == nil || len(res.List) != 1 || len(res.List[0].Names) > 1 {
			t.fail(fd, "function must have exactly one result")
		}
		rt := t.info.TypeOf(res.List[0].Type)
		rty = t.leanType(fd, rt)
		if len(res.List[0].Names) == 1 {
			n := res.List[0].Names[0].Name
			zero := "[]"
			if it, ok := t.intType(rt); ok {
				zero = lit(big.NewInt(0), it.bits)
			} else if rty == "Bool" {
				zero = "false"
			}
			pre = fmt.Sprintf("  let %s : %s := %s\n", id(n), rty, zero)
		}
	}
	if t.curExc {
		rty = "Except String (" + rty + ")"
	}
	pos := t.fset.Position(fd.Pos())
	body := t.stmts(fd.Body.List, "  ", endK)
	return fmt.Sprintf("/-- %s:%d `%s` -/\ndef %s %s : %s :=\n%s%s\n", relPath(pos.Filename), pos.Line, fd.Name.Name, name,
		strings.Join(ps, " "), rty, pre, body)
}

var repoRoot string

func relPath(p string) string {
	if r, err := filepath.Rel(repoRoot, p); err == nil {
		return r
	}
	return p
}

// ---------- package-level constants, byte-slice vars, map literals

func (t *tr) constant(files []*ast.File, name string) string {
	for _, f := range files {
		for _, d := range f.Decls {
			gd, ok := d.(*ast.GenDecl)
			if !ok {
				continue
			}
			for _, sp := range gd.Specs {
				vs, ok := sp.(*ast.ValueSpec)
				if !ok {
					continue
				}
				for i, n := range vs.Names {
					if n.Name != name {
						continue
					}
					obj := t.info.ObjectOf(n)
					pos := t.fset.Position(n.Pos())
					hdr := fmt.Sprintf("/-- %s:%d `%s` -/\n", relPath(pos.Filename), pos.Line, name)
					if c, ok := obj.(*types.Const); ok {
						it, ok := t.intType(c.Type())
						if !ok {
							t.fail(n, "constant type %s", c.Type())
						}
						v, _ := constInt(c.Val())
						// untyped constants are exported as Nat so that their use site decides the width
						if b, ok := c.Type().(*types.Basic); ok && b.Info()&types.IsUntyped != 0 {
							return hdr + fmt.Sprintf("def %s : Nat := %s\n", id(name), v.String())
						}
						return hdr + fmt.Sprintf("def %s : BitVec %d := %s\n", id(name), it.bits, lit(v, it.bits))
					}
					if len(vs.Values) <= i {
						t.fail(n, "variable without initialiser")
					}
					val := vs.Values[i]
					if cl, ok := val.(*ast.CompositeLit); ok {
						if t.isByteSlice(obj.Type()) {
							return hdr + fmt.Sprintf("def %s : List (BitVec 8) := %s\n", id(name), t.expr(cl))
						}
						if mt, ok := obj.Type().Underlying().(*types.Map); ok {
							kt, ok := t.intType(mt.Key())
							if !ok || !t.isByteSlice(mt.Elem()) {
								t.fail(n, "map type %s", mt)
							}
							s := hdr + fmt.Sprintf("def %s (k : BitVec %d) : Option (List (BitVec 8)) :=\n", id(name), kt.bits)
							for _, el := range cl.Elts {
								kv := el.(*ast.KeyValueExpr)
								vl, ok := kv.Value.(*ast.CompositeLit)
								if !ok {
									t.fail(kv, "map value")
								}
								var els []string
								for _, e := range vl.Elts {
									els = append(els, t.exprAs(e, ity{8, false}))
								}
								s += fmt.Sprintf("  if k == %s then some [%s] else\n", t.exprAs(kv.Key, kt), strings.Join(els, ", "))
							}
							return s + "  none\n"
						}
					}
					t.fail(n, "package-level value of type %s", obj.Type())
				}
			}
		}
	}
	panic(untranslatable{token.Position{Filename: "spec"}, "constant " + name + " not found"})
}

type srcImporter struct {
	src types.Importer
}

func (s srcImporter) Import(path string) (*types.Package, error) {
	first := strings.Split(path, "/")[0]
	if !strings.Contains(first, ".") {
		if p, err := s.src.Import(path); err == nil {
			return p, nil
		}
	}
	p := types.NewPackage(path, filepath.Base(path))
	p.MarkComplete()
	return p, nil
}

func genUnit(repo, out string, u Unit) (err error) {
	defer func() {
		if r := recover(); r != nil {
			if ue, ok := r.(untranslatable); ok {
				err = ue
				return
			}
			panic(r)
		}
	}()
	fset := token.NewFileSet()
	var files []*ast.File
	for _, f := range u.Files {
		af, e := parser.ParseFile(fset, filepath.Join(repo, f), nil, parser.SkipObjectResolution)
		if e != nil {
			return e
		}
		files = append(files, af)
	}
	wb := 64
	if u.Arch == "386" {
		wb = 32
	}
	info := &types.Info{Types: map[ast.Expr]types.TypeAndValue{}, Defs: map[*ast.Ident]types.Object{}, Uses: map[*ast.Ident]types.Object{}}
	conf := types.Config{Importer: srcImporter{importer.ForCompiler(fset, "source", nil)}, Error: func(error) {},
		Sizes: types.SizesFor("gc", u.Arch)}
	conf.Check("p", fset, files, info)
	t := &tr{fset: fset, info: info, wordBits: wb, funcs: map[string]*ast.FuncDecl{}, mutator: map[string]int{},
		excepts: map[string]bool{}, maps: map[string]bool{}, externs: u.Externs}
	all := map[string]*ast.FuncDecl{}
	for _, f := range files {
		for _, d := range f.Decls {
			if fd, ok := d.(*ast.FuncDecl); ok && fd.Body != nil {
				all[t.fnName(fd)] = fd
			}
		}
	}
	var sb strings.Builder
	sb.WriteString("-- GENERATED by /verif/tools/gen from " + strings.Join(u.Files, ", ") + " — do not edit.\n")
	for _, im := range u.Imports {
		sb.WriteString("import GoomVerif.Gen." + im + "\n")
	}
	sb.WriteString("set_option linter.unusedVariables false\n")
	sb.WriteString("namespace " + u.Namespace + "\n\n")
	for _, c := range u.Consts {
		s := t.constant(files, c)
		if strings.Contains(s, "Option (List (BitVec 8))") {
			t.maps[c] = true
		}
		sb.WriteString(s + "\n")
	}
	for _, name := range u.Funcs {
		fd, ok := all[name]
		if !ok {
			return untranslatable{token.Position{Filename: strings.Join(u.Files, ","), Line: 0}, "function " + name + " not found"}
		}
		t.funcs[name] = fd
		if pi, ok := t.mutatedParam(fd); ok {
			t.mutator[name] = pi
		}
		if hasPanic(fd) {
			t.excepts[name] = true
		}
		sb.WriteString(t.function(fd) + "\n")
	}
	sb.WriteString("end " + u.Namespace + "\n")
	return os.WriteFile(filepath.Join(out, u.Module+".lean"), []byte(sb.String()), 0o644)
}

func main() {
	repo := flag.String("repo", "/repo", "goom working tree")
	spec := flag.String("spec", "", "spec json")
	out := flag.String("out", "", "output directory (GoomVerif/Gen)")
	only := flag.String("only", "", "comma-separated module names (default all)")
	flag.Parse()
	repoRoot = *repo
	raw, err := os.ReadFile(*spec)
	if err != nil {
		fmt.Fprintln(os.Stderr, err)
		os.Exit(2)
	}
	var units []Unit
	if err := json.Unmarshal(raw, &units); err != nil {
		fmt.Fprintln(os.Stderr, err)
		os.Exit(2)
	}
	want := map[string]bool{}
	for _, m := range strings.Split(*only, ",") {
		if m != "" {
			want[m] = true
		}
	}
	sort.SliceStable(units, func(i, j int) bool { return false })
	rc := 0
	for _, u := range units {
		if len(want) > 0 && !want[u.Module] {
			continue
		}
		if err := genUnit(*repo, *out, u); err != nil {
			fmt.Fprintln(os.Stderr, err)
			// leave a module that cannot be imported successfully so stale proofs do not pass
			os.WriteFile(filepath.Join(*out, u.Module+".lean"),
				[]byte("-- GENERATION FAILED\n#eval (throw (IO.userError \"gen failed: "+strings.ReplaceAll(err.Error(), "\"", "'")+"\") : IO Unit)\nexample : False := by trivial\n"), 0o644)
			rc = 2
		}
	}
	os.Exit(rc)
}
