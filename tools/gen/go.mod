module goomverif/gen

go 1.23
