#!/usr/bin/env python3
"""Rewrite DESIGN.md section 13 (between the markers) from seeded/*/meta.json."""
import glob, json, os, re
rows = []
for f in sorted(glob.glob('/verif/seeded/*/meta.json'), key=lambda p: (p.split('/')[-2].split('-')[0], ('R2' in p) + 2 * ('R3' in p) + 3 * ('R4' in p) + 4 * ('R5' in p) + 5 * ('R6' in p), int(p.split('/')[-2].split('-')[-1]))):
    m = json.load(open(f)); ident = f.split('/')[-2]
    det = m.get('detection')
    if isinstance(det, str):
        by = m['property'] if m.get('detected') else '—'
        how = det
    else:
        by = ', '.join(d['check'] for d in det if d['detected']) or '**none**'
        missed = [d['check'] for d in det if not d['detected']]
        how = next((d['first_violation'] for d in det if d['detected']), '')
        if missed and by != '**none**':
            by += ' (not by ' + ', '.join(missed) + ')'
    what = m.get('what', '').replace('|', '\\|').replace('\n', ' ')
    how = re.sub(r'\s+', ' ', how).replace('|', '\\|')[:170]
    rows.append(f"| {ident} | {what[:230]} | {by} | {how} |")
block = ['<!-- SEEDED-TABLE-BEGIN -->', '| seeded change | edit (still compiles, goom\'s own suite unchanged) | caught by check | first violation reported |', '|---|---|---|---|'] + rows + ['<!-- SEEDED-TABLE-END -->']
p = '/verif/DESIGN.md'
s = open(p).read()
if '<!-- SEEDED-TABLE-BEGIN -->' in s:
    s = re.sub(r'<!-- SEEDED-TABLE-BEGIN -->.*<!-- SEEDED-TABLE-END -->', lambda _: '\n'.join(block), s, flags=re.S)
else:
    s += '\n' + '\n'.join(block) + '\n'
open(p, 'w').write(s)
print(len(rows), 'rows')
