#!/usr/bin/env python3
"""Run goom's own test suite (guard off — there are no hooks in the tree) and compare with /root/.vp/BASELINE.json.
usage: baseline.py [repo-dir]   exit 0 iff every stable-pass test passes."""
import json, os, subprocess, sys
repo = sys.argv[1] if len(sys.argv) > 1 else '/repo'
base = json.load(open('/root/.vp/BASELINE.json'))
env = dict(os.environ, GOFLAGS='-mod=mod', GOPROXY='off', GOSUMDB='off', GOTOOLCHAIN='local')
p = subprocess.run(['go', 'test', '-mod=mod', '-json', '-vet=off', '-count=1', '-timeout', '25m', './...'], cwd=repo, env=env,
                   capture_output=True, text=True)
res = {}
for line in p.stdout.splitlines():
    try:
        r = json.loads(line)
    except ValueError:
        continue
    if r.get('Test') and r.get('Action') in ('pass', 'fail', 'skip'):
        res[f"{r['Package']}::{r['Test']}"] = r['Action']
missing = [t for t in base['stable_pass'] if res.get(t) != 'pass']
print(f"passed={sum(1 for v in res.values() if v == 'pass')} failed={sum(1 for v in res.values() if v == 'fail')} "
      f"stable_pass_ok={len(base['stable_pass']) - len(missing)}/{len(base['stable_pass'])}")
for t in missing:
    print('NOT PASSING:', t, res.get(t))
sys.exit(1 if missing else 0)
