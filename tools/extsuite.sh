#!/bin/bash
# tools/extsuite.sh <repo dir> <out file>: goom's root/arg/nocgo tests that the prescribed baseline never reaches
# (TestCompatibility needs the network and aborts the root package), run with inlining off.
export GOFLAGS=-mod=mod GOPROXY=off GOSUMDB=off GOTOOLCHAIN=local
cd $1 && go test -mod=mod -vet=off -count=1 -gcflags=all=-l -ldflags=-s=false -skip 'TestCompatibility' -v . ./arg/... ./nocgo/... ./erro/... 2>&1 | grep -E '^\s*--- (PASS|FAIL)|^(ok|FAIL|panic)' | sed -E 's/\([0-9.]+s\)//; s/[0-9.]+s$//' | sort > $2
grep -c PASS $2; grep -c "FAIL" $2
