#!/usr/bin/env python3
"""Archive confirmed seeded changes from /tmp/seed/out into /verif/seeded/<ID>/ with what was run and what detected them.
Reads /tmp/confirm-summary*.txt (tools/confirm_seed.sh) and /tmp/seedres-summary.txt + /tmp/seedres-*.txt (tools/try_seed.sh)."""
import glob, json, os, re, shutil, sys
ROUND = sys.argv[1] if len(sys.argv) > 1 else "1"
OUT = {"1": "/tmp/seed/out", "2": "/tmp/seed/out2", "3": "/tmp/seed/out3", "4": "/tmp/seed/out4", "5": "/tmp/seed/out5", "6": "/tmp/seed/out6"}[ROUND]
CONF = {"1": "/tmp/confirm-summary*.txt", "2": "/tmp/confirm2-summary*.txt", "3": "/tmp/confirm3-summary*.txt", "4": "/tmp/confirm4-summary*.txt", "5": "/tmp/confirm5-summary*.txt", "6": "/tmp/confirm6-summary*.txt"}[ROUND]
SUMM = {"1": "/tmp/seedres-summary.txt", "2": "/tmp/seedres2-summary.txt", "3": "/tmp/seedres3-summary.txt", "4": "/tmp/seedres4-summary.txt", "5": "/tmp/seedres5-summary.txt", "6": "/tmp/seedres6-summary.txt"}[ROUND]
RES = {"1": "/tmp/seedres-", "2": "/tmp/seedres2-", "3": "/tmp/seedres3-", "4": "/tmp/seedres4-", "5": "/tmp/seedres5-", "6": "/tmp/seedres6-"}[ROUND]
SUFFIX = {"1": "", "2": "R2-", "3": "R3-", "4": "R4-", "5": "R5-", "6": "R6-"}[ROUND]
conf = {}
for f in glob.glob(CONF) + (['/tmp/confirm-ok.txt'] if ROUND == '1' else []):
    if os.path.exists(f):
        for l in open(f):
            m = re.match(r'(c\d+-\d+) confirmed=(YES|NO)', l)
            if m and (m.group(2) == 'YES' or m.group(1) not in conf):
                conf[m.group(1)] = l.strip() if m.group(2) == 'YES' else conf.get(m.group(1), l.strip())
runs = {}   # seed -> list of (prop, rc) latest per prop
for l in open(SUMM):
    m = re.match(r'(c\d+-\d+) under (C\d+): try_seed rc=(\d+)', l) or re.match(r'(c\d+-\d+) rc=try_seed rc=(\d+)', l)
    if not m:
        continue
    if len(m.groups()) == 3:
        s, p, rc = m.groups()
    else:
        s, rc = m.groups(); p = s.split('-')[0].upper()
    runs.setdefault(s, {})[p] = int(rc)
def first_violation(seed, prop):
    for cand in (f'{RES}{seed}-{prop}.txt', f'{RES}{seed}.txt'):
        if os.path.exists(cand):
            for l in open(cand):
                m = re.match(r'VIOLATION property=(C\d+) replay=(\S+)(.*)', l)
                if m:
                    what = ''
                    try:
                        what = json.load(open(m.group(2))).get('what', '')[:400]
                    except Exception:
                        pass
                    return (m.group(3).strip() + ' ' + what).strip()
    return ''
n = 0
for d in sorted(glob.glob(OUT + '/c*-[0-9]')):
    s = os.path.basename(d)
    if s not in conf or 'confirmed=YES' not in conf[s] or s not in runs:
        continue
    meta = json.load(open(os.path.join(d, 'meta.json')))
    ident = s.upper() if ROUND == '1' else s.split('-')[0].upper() + '-' + SUFFIX + s.split('-')[1]
    dst = os.path.join('/verif/seeded', ident)
    shutil.rmtree(dst, ignore_errors=True)
    shutil.copytree(d, dst)
    det = []
    for p, rc in sorted(runs[s].items()):
        det.append({'check': p, 'detected': rc == 1, 'exit': rc, 'first_violation': first_violation(s, p) if rc == 1 else ''})
    meta['property'] = meta.get('property', ident.split('-')[0])
    meta['confirmed'] = 'by the integrator with tools/confirm_seed.sh in a scratch worktree of /repo HEAD: ' + conf[s]
    meta['checked_with'] = 'tools/try_seed.sh <Cxx> seeded/%s/patch.diff  (git apply to a scratch worktree of /repo HEAD, GOOM_REPO=<worktree> python3 check.py <Cxx> --tier quick, revert)' % ident
    meta['detection'] = det
    meta['detected'] = any(x['detected'] for x in det)
    json.dump(meta, open(os.path.join(dst, 'meta.json'), 'w'), indent=1)
    n += 1
print('archived', n)
