#!/bin/bash
# tools/apply_fix.sh <diff> <msg file>  — apply a drafted repair to /repo as its own "fix:" commit after goom's own suite passes
set -e
D=$(readlink -f $1); M=$(readlink -f $2)
head -1 $M | grep -q '^fix:' || { echo "message must start with fix:"; exit 1; }
cd /repo
[ -z "$(git status --porcelain)" ] || { echo "/repo dirty"; git status --short; exit 1; }
git apply --check $D
git apply $D
export GOFLAGS=-mod=mod GOPROXY=off GOSUMDB=off
go build ./... 
/verif/tools/extsuite.sh /repo /tmp/ext-now.txt >/dev/null || true
if python3 /verif/tools/baseline.py /repo && diff -q /verif/tools/ext-baseline.txt /tmp/ext-now.txt; then
  git add -A && git commit -q -F $M && git log --oneline | head -1
else
  echo "BASELINE FAILED — reverting"; git checkout -q -- . ; git clean -fdq; exit 1
fi
