#!/bin/bash
# tools/try_seed.sh <Cxx> <patch.diff> [tier]  — apply a seeded change to a scratch worktree of goom HEAD, run the check of this
# /verif tree (the one the script lives in) against it, undo.  Exit code: the check's (1 = VIOLATION reported), 3 = patch does not apply.
V=$(cd "$(dirname "$0")/.." && pwd)
P=$1; PATCH=$(readlink -f $2); TIER=${3:-quick}
TAG=$(echo "$V" | md5sum | cut -c1-6)
WT=/tmp/seedwt/$TAG-$P
mkdir -p /tmp/seedwt
[ -d $WT ] || git -C /repo worktree add --detach $WT HEAD >/dev/null 2>&1
git -C $WT reset -q --hard 2>/dev/null; git -C $WT checkout -q --detach $(git -C /repo rev-parse HEAD); git -C $WT checkout -q -- . ; git -C $WT clean -fdq
git -C $WT apply $PATCH 2>/dev/null || { git -C $WT apply --3way $PATCH >/dev/null 2>&1 && echo "APPLIED-3WAY (the patch was made for an older goom commit; a three-way merge may change what it does)"; } || { echo "PATCH DOES NOT APPLY"; git -C $WT reset -q --hard; echo "try_seed rc=3"; exit 3; }
git -C $WT reset -q 2>/dev/null
cd $V
EV=evidence/$P.json; cp $EV /tmp/seedwt/$TAG-$P.evidence.bak 2>/dev/null
GOOM_REPO=$WT VERIF_BUILD=$V/build/seed-$P timeout ${TRY_SEED_TIMEOUT:-3000} python3 check.py $P --tier $TIER; rc=$?
cp /tmp/seedwt/$TAG-$P.evidence.bak $EV 2>/dev/null
git -C $WT reset -q --hard 2>/dev/null; git -C $WT clean -fdq
git -C $V checkout -- lean/GoomVerif/Gen 2>/dev/null
echo "try_seed rc=$rc"
exit $rc
