#!/bin/bash
# tools/try_seed.sh <Cxx> <patch.diff> [tier]  — apply a seeded change to a scratch worktree, run the check against it, undo.
P=$1; PATCH=$2; TIER=${3:-quick}
WT=/tmp/seedwt/$P
mkdir -p /tmp/seedwt
[ -d $WT ] || git -C /repo worktree add --detach $WT HEAD >/dev/null 2>&1
git -C $WT reset -q --hard 2>/dev/null; git -C $WT checkout -q --detach $(git -C /repo rev-parse HEAD); git -C $WT checkout -q -- . ; git -C $WT clean -fdq
git -C $WT apply $PATCH 2>/dev/null || git -C $WT apply --3way $PATCH >/dev/null 2>&1 || { echo "PATCH DOES NOT APPLY"; echo "try_seed rc=3"; exit 3; }
git -C $WT reset -q 2>/dev/null
cd /verif
EV=evidence/$P.json; cp $EV /tmp/seedwt/$P.evidence.bak 2>/dev/null
GOOM_REPO=$WT VERIF_BUILD=/verif/build/seed-$P timeout 3000 python3 check.py $P --tier $TIER; rc=$?
cp /tmp/seedwt/$P.evidence.bak $EV 2>/dev/null
git -C $WT reset -q --hard 2>/dev/null; git -C $WT clean -fdq
git -C /verif checkout -- lean/GoomVerif/Gen 2>/dev/null
echo "try_seed rc=$rc"
exit $rc
