#!/usr/bin/env python3
"""Annotate every /verif/seeded/<ID>/meta.json with `applies_at`: the newest commit of /repo (searching back from HEAD)
to which patch.diff applies cleanly. Later "fix:" commits touch some of the same files, so older seeds are replayed
with `git apply --3way` (tools/try_seed.sh does) or on a worktree of that commit."""
import glob, json, os, subprocess, sys
WT = '/tmp/seedwt/base'
def sh(*a):
    return subprocess.run(a, capture_output=True, text=True)
os.makedirs('/tmp/seedwt', exist_ok=True)
if not os.path.isdir(WT):
    sh('git', '-C', '/repo', 'worktree', 'add', '--detach', WT, 'HEAD')
commits = sh('git', '-C', '/repo', 'log', '--format=%h', '-n', '60').stdout.split()
todo = {d: None for d in sorted(glob.glob('/verif/seeded/C*'))}
for c in commits:
    left = [d for d, v in todo.items() if v is None]
    if not left:
        break
    sh('git', '-C', WT, 'checkout', '-q', '--detach', c)
    sh('git', '-C', WT, 'checkout', '-q', '--', '.')
    for d in left:
        if sh('git', '-C', WT, 'apply', '--check', os.path.join(d, 'patch.diff')).returncode == 0:
            todo[d] = c
n = 0
for d, c in todo.items():
    mp = os.path.join(d, 'meta.json')
    m = json.load(open(mp))
    if m.get('applies_at') != c:
        m['applies_at'] = c
        json.dump(m, open(mp, 'w'), indent=1)
        n += 1
sh('git', '-C', '/repo', 'worktree', 'remove', '--force', WT)
print('annotated', n, 'of', len(todo), '; not applicable anywhere:', [os.path.basename(d) for d, c in todo.items() if c is None])
