#!/bin/bash
# integrate a builder's side clone:  tools/integrate.sh c08
# pulls branch <name> from /tmp/ag/<name>/verif, regenerates the generated registries, rebuilds, runs the check on /repo
set -e
n=$1
cd /verif
git pull --no-edit --no-rebase /tmp/ag/$n/verif $n || { echo "MERGE CONFLICT"; git status --short | head; exit 1; }
python3 tools/mkmain.py
python3 tools/mkmanifest.py
[ -f tools/regen_extra.py ] && python3 tools/regen_extra.py || true
(cd lean && timeout 3000 lake build GoomVerif goomdrv 2>&1 | grep -v "^warning\|unused\|Hint\|apply\|Note\|^$\|^  " | tail -15)
P=$(echo $n | tr a-z A-Z)
time python3 check.py $P --tier quick
echo "rc=$?"
