#!/usr/bin/env python3
"""setup_cmd: build the framework from files on disk only (offline): translator, generated Lean modules from the
current /repo, every Lean module (models, lemmas, property theorems), the model driver."""
import os, subprocess, sys, json
here = os.path.dirname(os.path.abspath(__file__))
verif = os.path.dirname(here)
sys.path.insert(0, verif)
from vlib import common as C
spec = json.load(open(os.path.join(here, 'gen', 'spec.json')))
ok, msg, changed = C.regen([u['module'] for u in spec])
print('regen', 'ok' if ok else 'FAILED: ' + msg, 'changed:', changed)
extra = os.path.join(here, 'regen_extra.py')
if os.path.exists(extra):
    subprocess.run([sys.executable, extra], check=False)
C.mkmain()
rc, out = C.lake(['build', 'GoomVerif', 'goomdrv'], timeout=7200)
print(out[-3000:])
C.helper_pkgs()
sys.exit(0 if rc == 0 else 1)
