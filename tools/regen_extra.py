#!/usr/bin/env python3
"""Extra generated Lean modules that are not produced by tools/gen (called by tools/setup.py before `lake build`)."""
import os, sys
here = os.path.dirname(os.path.abspath(__file__))
sys.path.insert(0, here)
import x86table
s, ch, _ = x86table.regen()
print('x86table', s, 'changed:', ch)
