#!/usr/bin/env python3
"""Regenerate every generated Lean module that is NOT produced by tools/gen (property-specific extractors / table dumpers).
Called by tools/setup.py so a fresh checkout has them before `lake build`.  Each check module may expose `regen_setup()`."""
import importlib, os, sys, traceback
here = os.path.dirname(os.path.abspath(__file__))
verif = os.path.dirname(here)
sys.path.insert(0, verif)
for f in sorted(os.listdir(os.path.join(verif, 'checks'))):
    if not (f.startswith('C') and f.endswith('.py')):
        continue
    try:
        m = importlib.import_module('checks.' + f[:-3])
        fn = getattr(m, 'regen_setup', None)
        if fn:
            print('regen_setup', f[:-3], fn())
    except Exception:
        traceback.print_exc()
