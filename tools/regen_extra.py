#!/usr/bin/env python3
"""Called by tools/setup.py: regenerate the Gen modules that do not come from tools/gen (table dumps).
Every script tools/regen_extra_*.py and the generators listed below are run."""
import glob
import os
import subprocess
import sys

here = os.path.dirname(os.path.abspath(__file__))
scripts = [os.path.join(here, 'a64table.py')] + sorted(glob.glob(os.path.join(here, 'regen_extra_*.py')))
rc = 0
for s in scripts:
    if os.path.exists(s):
        r = subprocess.run([sys.executable, s])
        rc = rc or r.returncode
sys.exit(rc)
