"""C12 — within a builder the most recent instruction for a target wins.

Proof: Props/C12.lean proves, by induction over arbitrary op histories, that the model of goom's builder / cache /
mocker layer (Model/ApiC12.lean, a transcription of builder.go, cache.go, mocker.go, iface.go, when.go) refines the
last-writer-wins reference model (Model/LwwC12.lean) as long as every instruction goes through a handle that is still
the builder's live mocker for its target (the excluded case is known finding `stale-handle`, with a counter-example
theorem), that a repeated lookup returns the live mocker unless it was cancelled, that Reset starts from scratch and
that a Pkg override is consumed by the next lookup, after which names resolve in the package that issued it.
Tie X: whole histories are executed on the real goom API by a probe in the external test package (harness/c12; a
helper package creates builders / issues lookups on its behalf) and by the model driver; the outcome class of every
op and the behaviour class of all 15 targets after every step must agree.
Oracle: a separate last-writer-wins reference (below, in Python) is applied to what the implementation did.
"""
import os
import subprocess
import threading

from vlib import common as C

META = {
    'property_id': 'C12',
    'technique': 'Lean 4 refinement proof (induction over all op histories) of a transcribed model of builder/cache/mocker against a last-writer-wins reference + differential run of random histories on the real goom API',
    'level': 'proof',
    'level_text': 'Proof on the model: for every history of Func / Struct.Method / Interface.Method / ExportFunc / ExportStruct.Method / Var / UnExportedVar lookups (issued directly or kept in a variable and used later) combined with Apply, Return, When, When..Return, Returns, Set, Cancel, Reset and Pkg, in which every instruction goes through a handle that is still the live mocker of its target, the behaviour of every target after every step equals the last-writer-wins reference; a repeated lookup returns the live mocker unless cancelled; after Reset everything is original and configuration starts afresh; a Pkg override is consumed by the next lookup and names then resolve in the package that issued that lookup. Instructions through stale handles (cancelled and replaced in the builder cache) break last-writer-wins on the real code: known finding stale-handle, counter-example theorem in Findings/C12Stale.lean. The model is tied to the source by executing random and systematic histories on the real API and on the model and comparing outcome and behaviour classes after every step.',
    'level_note': 'Trusted: Lean kernel (axioms propext, Classical.choice, Quot.sound at most), the hand transcription Model/ApiC12.lean (validated on every run against the real code on the generated histories, stale-handle histories included), the probe and its canonicalisation. Universe: one builder (created in the test package or in a helper package), 2 functions, 2 methods, 1 single-method interface variable, 2x2 unexported functions and a same-named unexported struct method in two packages, 2 int variables, int arguments/results; each target is reached through one kind of handle (the same function reached through Func and ExportFunc gets two independent mockers - outside the universe). Not generated and not modelled: interface handles used after their own Cancel (context backup) and kept variable handles (saved origin; C08). The When algebra is shared between model and reference (it is the subject of C04/C05). reflect.MakeFunc, the patch layer and the GC are exercised, not modelled (GC is switched off in the probe: F9 belongs to C07).',
}

TARGETS = ['fA', 'fB', 'm1', 'm2', 'im', 'x0', 'y0', 'x1', 'y1', 'u0', 'u1', 'vv', 'vw', 'ia', 'ib']
SIBLING = {'ia': 'ib', 'ib': 'ia'}
HANDLES = [('fn', 'fA'), ('fn', 'fB'), ('st', 'M1'), ('st', 'M2'), ('if', 'M'), ('xf', 'X'), ('xf', 'Y'), ('xs', 'um'),
           ('var', 'v'), ('uvar', 'w'), ('i2', 'A'), ('i2', 'B')]
VAR_KINDS = ('var', 'uvar')
KEEP_KINDS = [('fn', 'fA'), ('st', 'M1'), ('xf', 'X'), ('xs', 'um'), ('if', 'M'), ('if', 'M')]
PKG_KINDS = ('xf', 'xs')        # lookups that resolve a name in the builder's package
STUBS = ('ret', 'when', 'whenret', 'rets')
KEY_F7 = 'stub-after-apply-not-reinstalled'
KEY_PKG = 'pkg-override-not-consumed-by-lookup'
KEY_STALE = 'stale-handle'
KEY_IF2 = 'iface-cancel-one-method'
KEY_REVIVED = 'iface-revived-handle-replaced'


# ------------------------------------------------------------------ the reference: last writer wins (independent of the Lean model)

class RefWhen:
    """goom's When reduced to int args/results: matcher objects [cond, results, cursor]."""

    def __init__(self):
        self.heap, self.ms, self.dflt, self.cur = [], [], None, None

    def _new(self, cond, rs):
        self.heap.append([cond, list(rs), 0])
        return len(self.heap) - 1

    def when(self, a):
        self.cur = self._new(a, [])

    def ret(self, v):
        if self.cur is not None:
            self.heap[self.cur][1].append(v)
            self.ms.append(self.cur)
        elif self.dflt is None:
            self.dflt = self._new(None, [v])
        else:
            self.heap[self.dflt][1].append(v)

    def andret(self, v):
        if self.cur is None:
            self.ret(v)
        else:
            self.heap[self.cur][1].append(v)

    def rets(self, vs):
        for i, v in enumerate(vs):
            (self.ret if i == 0 else self.andret)(v)

    def stub(self, ins):
        k = ins[0]
        if k == 'ret':
            self.ret(int(ins[1]))
        elif k == 'when':
            self.when(int(ins[1]))
        elif k == 'whenret':
            self.when(int(ins[1]))
            self.ret(int(ins[2]))
        elif k == 'rets':
            self.rets([int(x) for x in ins[1:]])

    @staticmethod
    def fresh(ins):
        w = RefWhen()
        if ins[0] == 'ret':                       # CreateWhen(default) makes the default matcher the current one
            w.dflt = w.cur = w._new(None, [int(ins[1])])
        else:
            w.stub(ins)
        return w

    def _result(self, i):
        m = self.heap[i]
        if len(m[1]) <= 1:
            return 'v%d' % m[1][m[2]]
        if m[2] >= len(m[1]):
            return 'v%d' % m[1][-1]
        m[2] += 1
        return 'v%d' % m[1][m[2] - 1]

    def invoke(self, a):
        for i in self.ms:
            if self.heap[i][0] is None or self.heap[i][0] == a:
                return self._result(i)
        if self.dflt is None:
            return 'p'
        return self._result(self.dflt)


def tgt_name(kind, name, pkg):
    """The target a lookup addresses when names resolve in `pkg`; None: nothing exists under that name."""
    if kind == 'fn':
        return name
    if kind == 'st':
        return {'M1': 'm1', 'M2': 'm2'}.get(name)
    if kind == 'if':
        return 'im' if name == 'M' else None
    if kind == 'xf':
        return {'X': 'x', 'Y': 'y'}[name] + pkg[1] if name in ('X', 'Y') and pkg in ('p0', 'p1') else None
    if kind == 'xs':
        return 'u' + pkg[1] if name == 'um' and pkg in ('p0', 'p1') else None
    if kind == 'i2':
        return {'A': 'ia', 'B': 'ib'}.get(name)
    if kind == 'var':
        return 'vv'
    if kind == 'uvar':
        return 'vw'
    return None


def norm(t):
    """`if M.aN ...` addresses the same interface method as `if M ...` (N only selects the literal given to As())."""
    if len(t) > 1 and t[0] == 'if' and t[1].startswith('M.a') and t[1][3:] in ('0', '1', '2'):
        t = [t[0], 'M'] + t[2:]
    if len(t) > 3 and t[0] == 'keep' and t[2] == 'if' and t[3].startswith('M.a'):
        t = t[:3] + ['M']
    return t


class Obj:
    """What a lookup hands out (only used to tell which handle is stale; the property does not demand object identity)."""

    def __init__(self, key, tgt, kind, ctx=None):
        self.key, self.tgt, self.kind, self.canceled = key, tgt, kind, False
        self.ctx, self.guard = ctx, False           # interface mockers: the context shared by the variable's methods; applied at least once


class Ref:
    """Last-writer-wins reference: per target the LAST instruction decides; a Pkg override is consumed by the next lookup,
    after which names resolve in the package that issued it; a kept handle addresses the target it was looked up for."""

    def __init__(self, newq):
        self.beh = {t: 'o' for t in TARGETS}        # 'o' | 'k<i>' | RefWhen
        self.pkg = 'pq' if newq else 'p0'          # a builder resolves names in the package that created it until its first lookup
        self.cache, self.regs = {}, {}
        self.stale_use = None                       # index of the first instruction issued through a stale handle
        self.if2_cancel = None                      # index of the first Cancel of one method of the two-method interface while the other is configured
        self.ictx = {'if': None, 'i2': None}        # current context of each interface variable in the builder's cache
        self.revived_replaced = None                # index of the lookup that replaced a cancelled-and-re-applied interface handle
        self.iface_taint = None                     # from here on the Lean model (no context backup) is not compared

    def lookup(self, kind, name, caller='p0', idx=None):
        key = (kind, name, self.pkg if kind in PKG_KINDS else '')
        tgt = tgt_name(kind, name, self.pkg)
        self.pkg = caller
        if kind == 'st' and name not in ('M1', 'M2'):
            return None
        ctx = None
        if kind in self.ictx:
            # Builder.Interface: the cached mocker counts as cancelled iff its context is; a context is never revived
            ctx = self.ictx[kind]
            if ctx is None or ctx['canceled']:
                for k in [k for k in self.cache if k[0] == kind]:
                    old = self.cache.pop(k)
                    if not old.canceled and old.guard and self.revived_replaced is None:
                        self.revived_replaced = idx     # a handle that was applied again after its Cancel is pushed out of the cache
                        if self.iface_taint is None:
                            self.iface_taint = idx
                ctx = self.ictx[kind] = {'canceled': False}
        o = self.cache.get(key)
        if o is None or o.canceled:
            o = self.cache[key] = Obj(key, tgt, kind, ctx)
        return o

    def stale(self, o):
        return self.cache.get(o.key) is not o

    def instr(self, o, ins, idx):
        if ins[0] == 'look':
            return
        if self.stale(o):
            if self.stale_use is None:
                self.stale_use = idx
            if o.ctx is not None and self.iface_taint is None:
                self.iface_taint = idx
        t = o.tgt
        if ins[0] == 'cancel':
            o.canceled = True
            if o.ctx is not None and o.guard:
                o.ctx['canceled'] = True             # ctx.Cancel(): the variable is restored and the shared context cancelled
            if t is not None:
                if t in SIBLING and self.beh[t] != 'o' and self.beh[SIBLING[t]] != 'o' and self.if2_cancel is None:
                    self.if2_cancel = idx
                self.beh[t] = 'o'
            return
        if t is None or (ins[0] in STUBS and o.kind in VAR_KINDS):
            return                                   # rejected: nothing of that name / no such instruction on a variable
        o.canceled = False                           # applying again revives the mocker (50de3fa); an interface CONTEXT stays cancelled
        o.guard = True
        if ins[0] == 'apply':
            self.beh[t] = ins[1]
        elif isinstance(self.beh[t], RefWhen):
            self.beh[t].stub(ins)
        else:
            self.beh[t] = RefWhen.fresh(ins)

    def step(self, t, idx):
        t = norm(t)
        if t[0] == 'pkg':
            self.pkg = t[1]
        elif t[0] == 'reset':
            self.beh = {x: 'o' for x in TARGETS}
            for o in self.cache.values():
                o.canceled = True
                if o.ctx is not None and o.guard:
                    o.ctx['canceled'] = True
        elif t[0] == 'xfe' or t[0] == 'newq':
            pass                                     # ExportFunc("") is rejected before it is a lookup
        elif t[0] == 'qlook':
            self.lookup('fn', 'fA', caller='pq')
        elif t[0] == 'keep':
            self.regs[t[1]] = self.lookup(t[2], t[3], idx=idx)
        elif t[0] == 'on':
            o = self.regs.get(t[1])
            if o is not None:
                self.instr(o, t[2:], idx)
        else:
            o = self.lookup(t[0], t[1], idx=idx)
            if o is not None:
                self.instr(o, t[2:], idx)

    def row(self):
        row = []
        for x in TARGETS:
            b = self.beh[x]
            if b == 'o' and x in SIBLING and self.beh[SIBLING[x]] != 'o':
                b = 'n'                              # C07: a method without a mock of its own panics while its variable is mocked
            row.append('.'.join((b.invoke(a) if isinstance(b, RefWhen) else b) for a in (1, 2)))
        return ','.join(row)


def split_ops(hist):
    return [o.strip() for o in hist.split(';')]


def reference(ops):
    """Expected behaviour rows, and the Ref after the last op."""
    ref = Ref(bool(ops) and ops[0] == 'newq')
    rows = []
    for i, op in enumerate(ops):
        ref.step(op.split(), i)
        rows.append(ref.row())
    return rows, ref


def oracle(hist, obs):
    """The property on the implementation's observation of one history. Returns (why, key) or None."""
    ops = split_ops(hist)
    if obs is None:
        return ('no observation (probe crashed?)', None)
    if obs.startswith('crash') or obs.startswith('dirty'):
        return ('probe: ' + obs, None)
    steps = obs.split(' ; ')
    if len(steps) != len(ops):
        return ('observation has %d steps for %d ops' % (len(steps), len(ops)), None)
    want, ref = reference(ops)
    for i, (st, w) in enumerate(zip(steps, want)):
        row = st.rpartition(' ')[2]
        if row != w:
            g, ww = row.split(','), w.split(',')
            only_if2 = all(g[j] == ww[j] for j in range(len(TARGETS) - 2))
            if ref.revived_replaced is not None and i >= ref.revived_replaced and (ref.stale_use is None or ref.revived_replaced <= ref.stale_use):
                key = KEY_REVIVED
            elif ref.stale_use is not None and i >= ref.stale_use:
                key = KEY_STALE
            elif ref.if2_cancel is not None and i >= ref.if2_cancel and only_if2:
                key = KEY_IF2
            else:
                key = classify(ops[:i + 1], row, w)
            return ('after op %d `%s` targets behave %s, the last instructions say %s' % (i, ops[i], row, w), key)
    return None


def classify(ops, got, want):
    """Name the class of a deviation (narrowly), else None."""
    g, w = got.split(','), want.split(',')
    bad = [i for i in range(len(g)) if g[i] != w[i]]
    t = norm(ops[-1].split())
    # F7: the failing op is a stub instruction, only its own target deviates, and that target still runs a callback
    if len(bad) == 1 and len(t) > 2 and t[2] in STUBS and g[bad[0]].startswith('k') \
            and any(norm(o.split())[:2] == t[:2] and o.split()[2] == 'apply' for o in ops[:-1] if len(o.split()) > 2):
        return KEY_F7
    if len(bad) <= 2:
        return classify_pkg(ops)
    return None


def classify_pkg(ops):
    """A package-sensitive op that resolved its name in p1 although a lookup came after the last Pkg(p1)."""
    t = ops[-1].split()
    if t[0] == 'keep':
        t = t[2:]
    if t[0] not in PKG_KINDS:
        return None
    seen_lookup = False
    for o in reversed(ops[:-1]):
        k = o.split()[0]
        if k == 'pkg':
            return KEY_PKG if (seen_lookup and o.split()[1] == 'p1') else None
        if k not in ('reset', 'on', 'xfe'):
            seen_lookup = True
    return None


# ------------------------------------------------------------------ generators

def gen_instr(rng, kind='fn', w_apply=4, w_stub=6, w_cancel=2, w_look=2):
    if kind in VAR_KINDS:
        w_stub = 0
    x = rng.below(w_apply + w_stub + w_cancel + w_look)
    if x < w_apply:
        return 'apply k%d' % rng.below(4)
    x -= w_apply
    if x < w_stub:
        k = rng.below(10)
        if k < 4:
            return 'ret %d' % rng.below(10)
        if k < 7:
            return 'whenret %d %d' % (1 + rng.below(2), rng.below(10))
        if k < 8:
            return 'when %d' % (1 + rng.below(3))
        return 'rets ' + ' '.join(str(rng.below(10)) for _ in range(1 + rng.below(3)))
    x -= w_stub
    if x < w_cancel:
        return 'cancel'
    return 'look'


def sanitize(ops):
    """Drop ops the probe cannot issue or the model does not cover: `on r` with an empty register, and instructions
    kept variable / two-method-interface handles."""
    ref = Ref(bool(ops) and ops[0] == 'newq')
    out = []
    for i, op in enumerate(ops):
        t = norm(op.split())
        if t[0] == 'on':
            o = ref.regs.get(t[1])
            if o is None or (t[2] in STUBS and o.kind in VAR_KINDS):
                continue
        if t[0] == 'keep' and (t[2] in VAR_KINDS or t[2] == 'i2'):
            continue
        ref.step(op.split(), i)
        out.append(op)
    return out


def gen_history(rng, maxlen, bad=False, keep=False):
    """A mostly valid history concentrated on 1-3 handles (so that instructions for one target alternate)."""
    n = 2 + rng.below(maxlen - 1)
    pool = KEEP_KINDS if keep else HANDLES
    hs = [rng.choice(pool) for _ in range(1 + rng.below(3))]
    if rng.chance(1, 3):
        hs.append(rng.choice([('xf', 'X'), ('xf', 'Y'), ('xs', 'um')]))
    ops = ['newq'] if rng.chance(1, 10) else []
    for _ in range(n):
        x = rng.below(24)
        if x == 0:
            ops.append('reset')
        elif x == 1:
            ops.append('pkg ' + rng.choice(['p0', 'p1', 'p1', 'pq']))
        elif x == 2:
            ops.append('qlook')
        elif bad and x == 3:
            ops.append(rng.choice(['st Mz look', 'xf nosuch apply k1', 'xf nosuch ret 1', 'xf nosuch look', 'xf nosuch cancel', 'xfe',
                                   'pkg pq ; xf X apply k1', 'pkg pq ; xs um ret 2']))
        else:
            if hs[0][0] not in PKG_KINDS and rng.chance(1, 6):
                k, nm = rng.choice(pool)
            else:
                k, nm = rng.choice(hs)
            if k in PKG_KINDS and rng.chance(1, 2):
                ops.append('pkg p1')
            if k == 'if' and rng.chance(2, 3):
                nm = 'M.a%d' % rng.below(3)          # a different function literal handed to As()
            if keep and rng.chance(1, 2):
                if rng.chance(1, 3):
                    ops.append('keep %d %s %s' % (rng.below(3), k, nm))
                else:
                    ops.append('on %d %s' % (rng.below(3), gen_instr(rng, k, w_look=1)))
            else:
                ops.append('%s %s %s' % (k, nm, gen_instr(rng, k)))
    return ' ; '.join(sanitize([o.strip() for o in ' ; '.join(ops).split(';')]))


def systematic(depth):
    """All instruction sequences of length `depth` over a small alphabet on each handle kind (the F7 shapes are among them)."""
    alpha = ['apply k2', 'apply k3', 'ret 3', 'ret 4', 'whenret 1 5', 'rets 6 7', 'cancel', 'look']     # k2, k3: closures of one literal
    valpha = ['apply k1', 'apply k2', 'cancel', 'look']
    out = []

    def rec(prefix, al):
        if len(prefix) == depth:
            out.append(list(prefix))
            return
        for a in al:
            rec(prefix + [a], al)
    rec([], alpha)
    hist = []
    for k, nm in [('fn', 'fA'), ('st', 'M1'), ('if', 'M'), ('xf', 'X'), ('xs', 'um')]:
        for seq in out:
            hist.append(' ; '.join('%s %s %s' % (k, nm, a) for a in seq))
    # the interface method again, every statement of the chain with its own As() literal
    for seq in out:
        hist.append(' ; '.join('if M.a%d %s' % (i % 3, a) for i, a in enumerate(seq)))
    # the two-method interface variable: every sequence over both methods
    al2 = ['%s %s' % (m, a) for m in ('A', 'B') for a in ('apply k1', 'ret 3', 'cancel', 'look')] + ['reset']
    out = []
    rec([], al2)
    for seq in out:
        hist.append(' ; '.join(a if a == 'reset' else 'i2 ' + a for a in seq))
    # variables: Set / Cancel / lookups, then Reset (the value must be back) and one more Set
    out = []
    rec([], valpha)
    for k, nm in [('var', 'v'), ('uvar', 'w')]:
        for seq in out:
            hist.append(' ; '.join(['%s %s %s' % (k, nm, a) for a in seq] + ['reset', '%s %s apply k3' % (k, nm)]))
    return hist


def kept_lane(depth):
    """Handles kept in variables: h0 is looked up, used and cancelled, h1 is looked up again (replacing h0 in the builder's
    cache); then every sequence of `depth` instructions through h0 (stale), h1 (live) or a fresh lookup."""
    acts = ['apply k1', 'ret 3', 'cancel']
    firsts = ['ret 1', 'apply k2']
    hist = []
    for k, nm in [('fn', 'fA'), ('st', 'M1'), ('xf', 'X'), ('xs', 'um')]:
        via = ['on 0 ', 'on 1 ', '%s %s ' % (k, nm)]
        seqs = [[]]
        for _ in range(depth):
            seqs = [q + [v + a] for q in seqs for v in via for a in acts]
        for f in firsts:
            for q in seqs:
                hist.append(' ; '.join(['keep 0 %s %s' % (k, nm), 'on 0 ' + f, 'on 0 cancel', 'keep 1 %s %s' % (k, nm)] + q))
        # live kept handles only (no cancel before the second lookup: h0 and h1 are the same mocker)
        for q in seqs:
            hist.append(' ; '.join(['keep 0 %s %s' % (k, nm), 'on 0 ret 1', 'keep 1 %s %s' % (k, nm)] + q))
    # one handle used on after its own Cancel / after Reset, no second lookup (a cancelled mocker that is applied again is
    # live again; Cancel / Reset as the most recent instruction must still win) - interface method handles included
    ends = ['on 0 cancel', 'reset']
    for k, nm in [('fn', 'fA'), ('st', 'M1'), ('xf', 'X'), ('xs', 'um'), ('if', 'M'), ('if', 'M.a1')]:
        mid = [[x] for x in ['on 0 ' + a for a in acts + ['whenret 1 5']]] + [['on 0 ret 6', 'on 0 apply k2'], ['on 0 apply k2', 'on 0 ret 6']]
        for f in firsts:
            for e1 in ends:
                for m in mid:
                    for e2 in ends + ['%s %s cancel' % (k, nm.split('.')[0])]:
                        hist.append(' ; '.join(['keep 0 %s %s' % (k, nm), 'on 0 ' + f, e1] + m + [e2, 'on 0 ret 9', 'reset']))
    for q in [[a, b] for a in acts + ['whenret 1 5'] for b in acts + ['whenret 2 6']]:
        hist.append(' ; '.join(sanitize(['keep 0 if M.a1', 'on 0 ' + q[0], 'keep 1 if M.a2', 'on 1 ' + q[1], 'on 0 ret 7', 'if M ret 8'])))
    return hist


def pkg_lane(triples):
    """Pkg followed by every pair (triple) of lookups of every kind - first-time lookups and cache hits (the same lookup
    was already made under the same package before) - then probes that show where the package-sensitive names resolve
    (the clause `applies to the next lookup only`)."""
    looks = ['fn fA look', 'st M1 look', 'if M look', 'xf X look', 'xf Y ret 5', 'xs um look', 'xs um apply k1', 'var v apply k3',
             'uvar w look', 'st Mz look', 'xf nosuch look', 'keep 0 xf X', 'keep 1 fn fB']
    probes = ['xf X apply k2 ; xs um apply k3 ; xf X ret 7 ; xs um ret 8']
    hist = []
    seqs = [[a, b] for a in looks for b in looks]
    if triples:
        seqs += [[a, b, c] for a in looks[:11] for b in looks[:11] for c in looks[:11]]
    for p in ('p0', 'p1'):
        for seq in seqs:
            # cold: every lookup is the first of its kind; warm: each was made before under Pkg(p) (cache hit now),
            # and Pkg(p) is repeated before each so that only the *hit* branches decide whether it is consumed
            hist.append(' ; '.join(['pkg ' + p] + seq + probes))
            hist.append(' ; '.join(['pkg ' + p, seq[0], 'pkg ' + p, seq[0]] + seq[1:] + probes))
        for a in looks:
            warm = ' ; '.join('pkg %s ; %s' % (p, x) for x in looks)
            hist.append(' ; '.join([warm, 'pkg ' + p, a] + probes))
    return hist


def caller_lane():
    """Whose package is "the caller's": builders created by the helper package, lookups issued from it, the rejected
    ExportFunc("") that is no lookup."""
    looks = ['fn fA look', 'st M1 look', 'if M look', 'xf X look', 'xs um look', 'var v look', 'uvar w look', 'qlook', 'xfe', 'pkg p1',
             'pkg pq', 'pkg p0', 'reset', 'keep 0 xf Y', 'keep 0 st M2']
    probes = 'xf X apply k2 ; xs um apply k3 ; xf Y ret 7 ; xs um ret 8'
    hist = []
    for pre in ('', 'newq ; '):
        hist.append(pre + probes)
        for a in looks:
            hist.append(pre + a + ' ; ' + probes)
            for b in looks:
                hist.append(pre + a + ' ; ' + b + ' ; ' + probes)
    return hist


CORPUS = [
    'fn fA ret 1 ; fn fA apply k2 ; fn fA ret 3',                      # F7 (DESIGN section 8)
    'st M1 ret 1 ; st M1 apply k2 ; st M1 whenret 1 3',
    'if M ret 1 ; if M apply k2 ; if M ret 3',
    'xf X ret 1 ; xf X apply k2 ; xf X ret 3',
    'fn fA apply k1 ; fn fA ret 3 ; fn fA apply k2 ; fn fA ret 4 ; fn fA apply k3 ; fn fA whenret 1 5',
    'pkg p1 ; var v apply k3 ; xf Y apply k1',                          # F14/F17
    'pkg p1 ; uvar w apply k3 ; xf Y apply k1',
    'pkg p1 ; xf X apply k1 ; xf X apply k2 ; pkg p1 ; xf X look ; xf X cancel',
    'pkg p1 ; xs um look ; pkg p1 ; xs um look ; xs um apply k1',        # seed c06-3: ExportStruct cache hit keeps the override
    'pkg p1 ; xs um ret 1 ; pkg p1 ; xs um apply k2 ; pkg p1 ; xs um ret 3 ; xs um whenret 1 4 ; reset ; xs um look',
    'fn fA ret 1 ; fn fA cancel ; fn fA look ; fn fA whenret 1 2 ; reset ; fn fA look ; fn fA apply k0',
    'if M apply k1 ; if M cancel ; if M ret 2 ; reset ; if M look ; if M rets 1 2 3',
    'if M.a1 rets 1 2 ; if M.a2 rets 3 4',                              # seed c05-4: a second statement with its own As() literal
    'if M.a0 whenret 1 5 ; if M.a1 whenret 2 6 ; if M.a2 ret 7 ; if M.a0 rets 8 9',
    'st M1 apply k1 ; st M2 ret 5 ; st M1 cancel ; st M1 ret 2 ; reset ; st M2 look',
    'keep 0 fn fA ; on 0 ret 1 ; on 0 cancel ; keep 1 fn fA ; on 1 ret 3 ; on 0 ret 2 ; fn fA ret 4',   # review A2: stale handle
    'var v apply k1 ; var v apply k2 ; reset ; var v look ; uvar w apply k1 ; uvar w apply k2 ; uvar w cancel',   # review D5
    'newq ; xf X apply k1 ; xf X apply k2 ; qlook ; xf X apply k3 ; xf X ret 5',                        # review D1/D2
    'pkg p1 ; xfe ; xf X apply k1 ; xf X apply k2',                                                     # review A5
    'keep 0 if M ; on 0 apply k1 ; reset ; on 0 apply k2 ; reset',                                       # seed out5/c12-1
    'keep 0 if M.a1 ; on 0 ret 5 ; on 0 cancel ; on 0 ret 6 ; on 0 cancel ; if M look',
    'keep 0 if M ; on 0 ret 1 ; on 0 cancel ; on 0 ret 2 ; if M ret 3 ; if M cancel',                    # HEAD: known finding iface-revived-handle-replaced
    'i2 A ret 1 ; i2 B ret 2 ; i2 A cancel ; i2 A ret 3',                                               # review A3
    'i2 A apply k1 ; i2 B look ; i2 A ret 3 ; i2 B whenret 1 5 ; i2 A cancel ; i2 B cancel ; reset ; i2 B apply k2',
]


def gen_all(tier, rng):
    hist = list(CORPUS)
    hist += systematic(3)
    hist += kept_lane(2)
    hist += caller_lane()
    hist += pkg_lane(triples=(tier == 'thorough'))
    n_valid, n_keep, n_bad, maxlen = (1500, 1200, 300, 20) if tier == 'quick' else (60000, 40000, 8000, 30)
    if tier == 'thorough':
        hist += systematic(4)
        hist += kept_lane(3)
    for _ in range(n_valid):
        hist.append(gen_history(rng, maxlen))
    for _ in range(n_keep):
        hist.append(gen_history(rng, maxlen, keep=True))
    for _ in range(n_bad):
        hist.append(gen_history(rng, maxlen, bad=True))
    return [h for h in dict.fromkeys(hist) if h]


# ------------------------------------------------------------------ running

_BIN = {}
PROBE_TIMEOUT = 420           # per chunk of up to ~10k histories; typical chunk wall time is 2-15 s
REDO_TIMEOUT = 120            # one history alone; typical 0.05 s


def build_probe():
    if 'b' in _BIN:
        return _BIN['b']
    extra = C.helper_pkgs()
    extra['internal/zzverif/c12p'] = {'p1.go': os.path.join(C.HARNESS, 'c12', 'p1', 'p1.go')}
    extra['internal/zzverif/c12q'] = {'q.go': os.path.join(C.HARNESS, 'c12', 'q', 'q.go')}
    b, err = C.overlay_build('c12', '', {'zz_verif_c12_test.go': os.path.join(C.HARNESS, 'c12', 'probe_test.go')}, extra)
    if b is None:
        raise C.Infra('probe c12 does not build against the current tree:\n' + err[-3000:])
    _BIN['b'] = b
    return b


def probe_env(opsp, outp):
    """The environment the probe runs in: goom's own knobs are removed (GOOM_DEBUG switches the debug wrapper on)."""
    e = C.goenv({'VERIF_OPS': opsp, 'VERIF_OUT': outp, 'VERIF_SEED': str(C.seed())})
    for k in list(e):
        if k.startswith('GOOM_') and k != 'GOOM_REPO':
            del e[k]
    e.pop('GOTRACEBACK', None)
    e.pop('GODEBUG', None)
    return e


def run_chunk(b, lines, tag, timeout=None):
    """One probe process on `lines`. Returns (observations, rc) - rc None when the process was killed by the timeout."""
    opsp = os.path.join(C.BUILD, f'{tag}.ops')
    outp = os.path.join(C.BUILD, f'{tag}.impl')
    open(opsp, 'w').write('\n'.join(lines) + '\n')
    if os.path.exists(outp):
        os.remove(outp)
    try:
        timeout = timeout or PROBE_TIMEOUT
        p = subprocess.run([b, '-test.run', '^TestVerifC12$', '-test.count=1', '-test.timeout', f'{timeout + 60}s'],
                           env=probe_env(opsp, outp), cwd=C.BUILD, capture_output=True, text=True, timeout=timeout)
        rc = p.returncode
    except subprocess.TimeoutExpired:
        rc = None
    return C.read_indexed(outp, len(lines)), rc


def run_impl(lines, tag):
    """Run the probe on `lines` in parallel chunks (own process each).  A history whose process died, or that found the
    process dirty (left-overs of an earlier history), is re-run ONCE alone in a fresh process: only what reproduces is
    reported (a crash that reproduces is an observation `crash`; a timeout that does not reproduce is nothing)."""
    b = build_probe()
    res = [None] * len(lines)
    nchunk = max(1, min(C.NCPU, len(lines) // 50 + 1))
    size = (len(lines) + nchunk - 1) // nchunk
    redo = []
    lock = threading.Lock()

    def work(ci):
        lo, hi = ci * size, min(len(lines), (ci + 1) * size)
        start = lo
        while start < hi:
            got, rc = run_chunk(b, lines[start:hi], f'{tag}.{ci}')
            for j, v in enumerate(got):
                if v is not None:
                    res[start + j] = v
            if rc == 0:
                break
            done = max([j for j, v in enumerate(got) if v is not None], default=-1)
            with lock:
                redo.append(start + done + 1)
            start = start + done + 2

    ths = [threading.Thread(target=work, args=(i,)) for i in range(nchunk)]
    for t in ths:
        t.start()
    for t in ths:
        t.join()
    redo += [i for i, v in enumerate(res) if v is not None and v.startswith('dirty')]
    for k, i in enumerate(sorted(set(redo))):
        if i >= len(lines):
            continue
        got, rc = run_chunk(b, [lines[i]], f'{tag}.redo{k}', timeout=REDO_TIMEOUT)
        if got[0] is not None and not got[0].startswith('dirty'):
            res[i] = got[0]
        elif rc is None:
            res[i] = 'crash hang: no answer within %d s, alone in a fresh process (reproduced)' % REDO_TIMEOUT
        else:
            res[i] = got[0] if got[0] is not None else 'crash rc=%s' % rc
    return res


def run_model(lines, tag, cmd='c12.hist'):
    exe, err = C.build_driver()
    if exe is None:
        return None, err
    opsp = os.path.join(C.BUILD, f'{tag}.model.ops')
    open(opsp, 'w').write('\n'.join(l.replace('c12.hist', cmd, 1) for l in lines) + '\n')
    return C.run_driver(exe, opsp, os.path.join(C.BUILD, f'{tag}.model')), ''


def shrink(hist):
    """Delta-debug one failing history on the implementation: drop ops while the oracle still fails with the same key."""
    ops = split_ops(hist)
    first = oracle(hist, run_impl(['c12.hist ' + hist], 'c12-shrink')[0])
    if first is None:
        return hist
    key = first[1]
    changed = True
    while changed and len(ops) > 1:
        changed = False
        cands = [c for c in (sanitize(ops[:i] + ops[i + 1:]) for i in range(len(ops))) if c and len(c) < len(ops)]
        cands = [list(x) for x in dict.fromkeys(tuple(c) for c in cands)]
        if not cands:
            break
        obs = run_impl(['c12.hist ' + ' ; '.join(c) for c in cands], 'c12-shrink')
        for c, o in zip(cands, obs):
            r = oracle(' ; '.join(c), o)
            if r is not None and r[1] == key and not (o or '').startswith('crash'):
                ops, changed = c, True
                break
    return ' ; '.join(ops)


FLOORS = {'quick': 5000, 'thorough': 60000}


def run(tier):
    out = C.Outcome('C12', tier)
    rng = C.Rng(C.seed()).fork('C12')
    proof = C.prove('C12', extra_targets=('GoomVerif.Findings.C12F7', 'GoomVerif.Findings.C12Stale'), leanchecker=(tier == 'thorough'))
    hists = gen_all(tier, rng)
    lines = ['c12.hist ' + h for h in hists]
    impl = run_impl(lines, 'c12')
    model, derr = run_model(lines, 'c12')
    lww, _ = run_model(lines, 'c12', 'c12.lww') if model is not None else (None, '')
    if model is None:
        proof['failed'].append(('goomdrv', 'driver does not build: ' + derr[-500:]))
        proof['ok'] = False
    # floors: a lane that silently ran nothing is a machinery error, not a pass
    refs = [reference(split_ops(h))[1] for h in hists]
    n_stale = sum(1 for r in refs if r.stale_use is not None)
    n_kept = sum(1 for h in hists if 'on ' in h)
    n_obs = sum(1 for o in impl if o and not o.startswith(('crash', 'dirty')))
    if len(hists) < FLOORS[tier] or n_obs < len(hists) * 9 // 10 or n_stale < 100 or n_kept < 500 or \
            (model is not None and sum(1 for m in model if m == 'bad-op') > 0):
        raise C.Infra(f'generator/probe floor not met: histories={len(hists)} observed={n_obs} kept-handle={n_kept} stale={n_stale} '
                      f'model-bad-op={sum(1 for m in (model or []) if m == "bad-op")}')
    # 1. the property on the implementation
    fails = {}
    for h, o in zip(hists, impl):
        r = oracle(h, o)
        if r:
            fails.setdefault(r[1], []).append((h, o, r[0]))
    known_keys = {kf.get('match', {}).get('key') for kf in C.known_findings('C12') if kf.get('status') == 'known'}
    for key, fl in fails.items():
        fl.sort(key=lambda x: len(x[0]))
        h, o, why = fl[0]
        hs = shrink(h) if key not in known_keys else h
        o2 = run_impl(['c12.hist ' + hs], 'c12-shrink')[0]
        r2 = oracle(hs, o2) or (why, key)
        out.violation(f'`{hs}`: {r2[0]}', {'kind': 'impl-oracle', 'ops': ['c12.hist ' + hs], 'observed': o2, 'expected': ' ; '.join(reference(split_ops(hs))[0]),
                                          'class': key, 'n_failing_histories': len(fl), 'unshrunk': h,
                                          'how': 'GOOM_REPO=<tree> python3 check.py C12 --replay <this file>'}, key=key)
    real_fails = {k: v for k, v in fails.items() if k not in known_keys}
    # 2. correspondence (model vs implementation, stale-handle histories included) and reference vs model on the histories the theorem covers
    # the Lean model has no context backup: after a revived interface handle was replaced / a replaced interface handle was
    # used, only the steps before that point are compared (those histories are still judged by the reference above)
    def cut(obs, r):
        return obs if obs is None or r.iface_taint is None else ' ; '.join(obs.split(' ; ')[:r.iface_taint])
    diffs = C.diff_streams(lines, [cut(o, r) for o, r in zip(impl, refs)], [cut(m, r) for m, r in zip(model, refs)]) if model is not None else []
    refdiff = 0
    if model is not None and lww is not None:
        for h, m, l, r in zip(hists, model, lww, refs):
            covered = r.stale_use is None and r.revived_replaced is None and not any(o.split()[0] == 'i2' for o in split_ops(h))   # hypothesis of refines_lww_partial
            if covered and [s.rpartition(' ')[2] for s in m.split(' ; ')] != l.split(' ; '):
                refdiff += 1
    if not real_fails:
        if diffs:
            i, op, a, b = diffs[0]
            out.violation(f'model and implementation disagree on `{op}`', {'kind': 'correspondence', 'ops': [op], 'impl': a, 'model': b,
                          'broken': 'correspondence Model/ApiC12.lean vs builder.go/cache.go/mocker.go/iface.go/when.go/var.go',
                          'n_disagreements_shown': len(diffs)}, no_failing_input=True)
        elif not proof['ok']:
            out.violation('proof obligations of Props/C12.lean no longer check and no failing input was found in the search',
                          {'kind': 'proof', 'broken': proof['failed'], 'searched': len(lines), 'output': proof.get('output', '')[-3000:]},
                          no_failing_input=True)
        elif refdiff:
            out.violation('driver: model and reference disagree on a history that meets the hypothesis of refines_lww_partial',
                          {'kind': 'driver', 'n': refdiff}, no_failing_input=True)
    # evidence
    nops = sum(h.count(';') + 1 for h in hists)
    kinds = {}
    classes = set()
    for h, o in zip(hists, impl):
        for op in h.split(';'):
            t = op.split()
            if t[0] in ('keep', 'on'):
                k = t[0] + ':' + (t[2] if len(t) > 2 else '')
            else:
                k = t[0] + ':' + (t[2] if len(t) > 2 else '')
            kinds[k] = kinds.get(k, 0) + 1
        if o:
            for st in o.split(' ; '):
                for c in st.rpartition(' ')[2].split(','):
                    classes.add(c[0])
    nontrivial = len({o for o in impl if o and any(ch in o for ch in 'kv')})
    out.coverage = {
        'obligations': proof['obligations'], 'discharged': proof['discharged'],
        'checker_cmd': ' ; '.join(proof['cmds']),
        'trusted_base': ['Lean 4.33 kernel', 'axioms: ' + ', '.join(sorted({a for v in proof['axioms'].values() for a in v}) or ['none']),
                         'hand transcription Model/ApiC12.lean of builder.go/cache.go/mocker.go/iface.go/when.go/var.go (validated: every history below ran on the real API and on the model, outcome class of every op and behaviour of 15 targets compared after every step)',
                         'probe harness/c12 and its canonicalisation; Python last-writer-wins reference in checks/C12.py (third, independent statement of the property)',
                         'not modelled: reflect.MakeFunc, patch layer, GC (off in the probe), aliasing of one function through two kinds of handle, interface handles used after their own Cancel, kept variable handles'],
        'theorems': proof['axioms'], 'proof_failures': proof['failed'],
        'evaluations': len(hists), 'steps': nops, 'distinct_nontrivial': nontrivial,
        'traces_validated_against_impl': len(hists) - len(diffs),
        'rule': 'one evaluation = one history (fresh builder, created in the test package or by the helper package) of 1..30 ops; after every op all 15 targets are called with 1 and 2 / read; '
                'lanes: regress corpus, all instruction triples (thorough: quadruples) over 8 instructions x 5 handle kinds and over 4 x 2 variable kinds, kept handles (stale/live/fresh x 3 instructions, pairs; thorough: triples), '
                'caller-package lane (helper-created builder, helper-issued lookup, rejected lookup x pairs of 15 ops), Pkg x every pair (thorough: triple) of 13 lookup forms (cold and as cache hits), random valid, random with kept handles, random with error ops; '
                'non-trivial = distinct observation in which some target is mocked',
        'distribution': {'histories': len(hists), 'ops': nops, 'op_kinds': dict(sorted(kinds.items())), 'result_classes_seen': sorted(classes),
                         'histories_with_kept_handles': n_kept, 'histories_with_stale_handle_use': n_stale,
                         'impl_vs_model_disagreements': len(diffs), 'model_vs_reference_disagreements': refdiff,
                         'oracle_failures_by_class': {str(k): len(v) for k, v in fails.items()}},
        'samples': [{'op': lines[i], 'impl': impl[i], 'model': model[i] if model else None} for i in (0, len(lines) // 3, len(lines) // 2, len(lines) - 1)],
    }
    out.assumptions = ['one builder, calls from one goroutine; GC disabled in the probe; the same function is not addressed through two kinds of handle']
    return out.finish()


def replay(body):
    lines = body.get('ops', [])
    impl = run_impl(lines, 'c12-replay')
    model, _ = run_model(lines, 'c12-replay')
    rc = 0
    for i, l in enumerate(lines):
        h = l.split(' ', 1)[1]
        r = oracle(h, impl[i])
        print(l)
        ops = split_ops(h)
        want = reference(ops)[0]
        im = (impl[i] or 'None').split(' ; ')
        mo = (model[i] if model else 'None').split(' ; ')
        for j, op in enumerate(ops):
            g = lambda xs: xs[j] if j < len(xs) else '?'
            print(f'  {op:24s} impl {g(im)}\n  {"":24s} model {g(mo)}\n  {"":24s} last-writer-wins {g(want)}')
        print('  oracle:', (r[0] + (' [class ' + str(r[1]) + ']' if r[1] else '')) if r else 'ok')
        if r or (model and impl[i] != model[i]):
            rc = 1
    return rc
