"""C12 — within a builder the most recent instruction for a target wins.

Proof: Props/C12.lean proves, by induction over arbitrary op histories, that the model of goom's builder / cache /
mocker layer (Model/ApiC12.lean, a transcription of builder.go, cache.go, mocker.go, iface.go, when.go) refines the
last-writer-wins reference model (Model/LwwC12.lean), that a repeated lookup returns the live mocker unless it was
cancelled, that Reset starts from scratch and that a Pkg override is consumed by the next lookup.
Tie X: whole histories are executed on the real goom API by an in-package probe (harness/c12) and by the model
driver; mocker identities and the behaviour class of all 11 targets after every step must agree.
Oracle: a separate last-writer-wins reference (below, in Python) is applied to what the implementation did.
"""
import os
import threading

from vlib import common as C

META = {
    'property_id': 'C12',
    'technique': 'Lean 4 refinement proof (induction over all op histories) of a transcribed model of builder/cache/mocker against a last-writer-wins reference + differential run of random histories on the real goom API',
    'level': 'proof',
    'level_text': 'Full proof on the model: for every history of Func / Struct.Method / Interface.Method / ExportFunc / ExportStruct.Method / Var lookups combined with Apply, Return, When, When..Return, Returns, Cancel, Reset and Pkg, the behaviour of every target after every step equals the last-writer-wins reference; a repeated lookup returns the live mocker unless cancelled; after Reset everything is original and configuration starts afresh; a Pkg override is consumed by the next lookup. The model is tied to the source by executing random and systematic histories on the real API and on the model and comparing mocker identities and behaviour classes after every step.',
    'level_note': 'Trusted: Lean kernel (axioms propext, Classical.choice, Quot.sound at most), the hand transcription Model/ApiC12.lean (validated on every run against the real code on the generated histories), the probe and its canonicalisation. Universe: one builder, 2 functions, 2 methods, 1 single-method interface variable, 2x2 unexported functions and a same-named unexported struct method in two packages, int arguments/results; each target is reached through one kind of handle (the same function reached through Func and ExportFunc gets two independent mockers - outside the universe). The When algebra is shared between model and reference (it is the subject of C04/C05). reflect.MakeFunc, the patch layer and the GC are exercised, not modelled (GC is switched off in the probe: F9 belongs to C07).',
}

TARGETS = ['fA', 'fB', 'm1', 'm2', 'im', 'x0', 'y0', 'x1', 'y1', 'u0', 'u1']
HANDLES = [('fn', 'fA'), ('fn', 'fB'), ('st', 'M1'), ('st', 'M2'), ('if', 'M'), ('xf', 'X'), ('xf', 'Y'), ('xs', 'um')]
PKG_KINDS = ('xf', 'xs')        # lookups that resolve a name in the builder's package
KEY_F7 = 'stub-after-apply-not-reinstalled'
KEY_F14 = 'pkg-override-survives-var-lookup'


# ------------------------------------------------------------------ the reference: last writer wins (independent of the Lean model)

class RefWhen:
    """goom's When reduced to int args/results: matcher objects [cond, results, cursor]."""

    def __init__(self):
        self.heap, self.ms, self.dflt, self.cur = [], [], None, None

    def _new(self, cond, rs):
        self.heap.append([cond, list(rs), 0])
        return len(self.heap) - 1

    def when(self, a):
        self.cur = self._new(a, [])

    def ret(self, v):
        if self.cur is not None:
            self.heap[self.cur][1].append(v)
            self.ms.append(self.cur)
        elif self.dflt is None:
            self.dflt = self._new(None, [v])
        else:
            self.heap[self.dflt][1].append(v)

    def andret(self, v):
        if self.cur is None:
            self.ret(v)
        else:
            self.heap[self.cur][1].append(v)

    def rets(self, vs):
        for i, v in enumerate(vs):
            (self.ret if i == 0 else self.andret)(v)

    def stub(self, ins):
        k = ins[0]
        if k == 'ret':
            self.ret(int(ins[1]))
        elif k == 'when':
            self.when(int(ins[1]))
        elif k == 'whenret':
            self.when(int(ins[1]))
            self.ret(int(ins[2]))
        elif k == 'rets':
            self.rets([int(x) for x in ins[1:]])

    @staticmethod
    def fresh(ins):
        w = RefWhen()
        if ins[0] == 'ret':                       # CreateWhen(default) makes the default matcher the current one
            w.dflt = w.cur = w._new(None, [int(ins[1])])
        else:
            w.stub(ins)
        return w

    def _result(self, i):
        m = self.heap[i]
        if len(m[1]) <= 1:
            return 'v%d' % m[1][m[2]]
        if m[2] >= len(m[1]):
            return 'v%d' % m[1][-1]
        m[2] += 1
        return 'v%d' % m[1][m[2] - 1]

    def invoke(self, a):
        for i in self.ms:
            if self.heap[i][0] is None or self.heap[i][0] == a:
                return self._result(i)
        if self.dflt is None:
            return 'p'
        return self._result(self.dflt)


def tgt_name(kind, name, pkg):
    if kind == 'fn':
        return name
    if kind == 'st':
        return {'M1': 'm1', 'M2': 'm2'}.get(name)
    if kind == 'if':
        return 'im' if name == 'M' else None
    if kind == 'xf':
        return {'X': 'x', 'Y': 'y'}[name] + pkg[1] if name in ('X', 'Y') else None
    if kind == 'xs':
        return 'u' + pkg[1] if name == 'um' else None
    return None


def norm(t):
    """`if M.aN ...` addresses the same interface method as `if M ...` (N only selects the literal given to As())."""
    if t[0] == 'if' and t[1].startswith('M.a') and t[1][3:] in ('0', '1', '2'):
        t = [t[0], 'M'] + t[2:]
    return t


def reference(ops):
    """Expected behaviour rows: per target the LAST instruction decides.  Returns list of strings like the probe's."""
    beh = {t: 'o' for t in TARGETS}       # 'o' | 'k<i>' | RefWhen
    pkg = 'p0'
    rows = []
    for op in ops:
        t = norm(op.split())
        if t[0] == 'pkg':
            pkg = t[1]
        elif t[0] == 'reset':
            beh = {x: 'o' for x in TARGETS}
        elif t[0] == 'var':
            pkg = 'p0'                     # a lookup: consumes the override
        else:
            tg = tgt_name(t[0], t[1], pkg)
            pkg = 'p0'
            ins = t[2:]
            if tg is not None:
                if ins[0] == 'apply':
                    beh[tg] = ins[1]
                elif ins[0] == 'cancel':
                    beh[tg] = 'o'
                elif ins[0] != 'look':
                    if isinstance(beh[tg], RefWhen):
                        beh[tg].stub(ins)
                    else:
                        beh[tg] = RefWhen.fresh(ins)
        row = []
        for x in TARGETS:
            b = beh[x]
            row.append('.'.join((b.invoke(a) if isinstance(b, RefWhen) else b) for a in (1, 2)))
        rows.append(','.join(row))
    return rows


def ref_ids(ops):
    """Expected mocker ordinals: a repeated lookup yields the same object unless it was cancelled (or Reset) since."""
    live, n, pkg, res = {}, 0, 'p0', []
    for op in ops:
        t = norm(op.split())
        if t[0] == 'pkg':
            pkg = t[1]
            res.append('-')
        elif t[0] == 'reset':
            live = {}
            res.append('-')
        elif t[0] == 'var':
            pkg = 'p0'
            res.append('-')
        else:
            key = (t[0], t[1], pkg if t[0] in PKG_KINDS else '')
            pkg = 'p0'
            if t[0] == 'st' and t[1] not in ('M1', 'M2'):
                res.append(None)           # panics: no mocker
                continue
            if key not in live:
                live[key] = n
                n += 1
            res.append('m%d' % live[key])
            if t[2] == 'cancel':
                del live[key]
    return res


def oracle(hist, obs):
    """The property on the implementation's observation of one history. Returns (why, key) or None."""
    ops = [o.strip() for o in hist.split(';')]
    if obs is None:
        return ('no observation (probe crashed?)', None)
    if obs.startswith('crash') or obs.startswith('dirty'):
        return ('probe: ' + obs, None)
    steps = obs.split(' ; ')
    if len(steps) != len(ops):
        return ('observation has %d steps for %d ops' % (len(steps), len(ops)), None)
    want = reference(ops)
    ids = ref_ids(ops)
    for i, (st, w) in enumerate(zip(steps, want)):
        head, _, row = st.rpartition(' ')
        if row != w:
            return ('after op %d `%s` targets behave %s, the last instructions say %s' % (i, ops[i], row, w), classify(ops[:i + 1], row, w))
        if ids[i] is not None and not head.startswith('panic:') and head != ids[i]:
            return ('op %d `%s` returned mocker %s, expected %s (a repeated lookup continues the live mocker; a cancelled one is replaced)'
                    % (i, ops[i], head, ids[i]), classify_pkg(ops[:i + 1]))
    return None


def classify(ops, got, want):
    """Name the known defect class of a deviation (narrowly), else None."""
    g, w = got.split(','), want.split(',')
    bad = [i for i in range(len(g)) if g[i] != w[i]]
    t = ops[-1].split()
    # F7: the failing op is a stub instruction, only its own target deviates, and that target still runs a callback
    if len(bad) == 1 and len(t) > 2 and t[2] in ('ret', 'when', 'whenret', 'rets') and g[bad[0]].startswith('k') \
            and any(norm(o.split())[:2] == norm(t)[:2] and o.split()[2] == 'apply' for o in ops[:-1] if len(o.split()) > 2):
        return KEY_F7
    if len(bad) <= 2:
        return classify_pkg(ops)
    return None


def classify_pkg(ops):
    """F14: an ExportFunc op that resolved its name in p1 although the last Pkg(p1) was followed by a var lookup."""
    t = ops[-1].split()
    if t[0] not in PKG_KINDS:
        return None
    seen_var = False
    for o in reversed(ops[:-1]):
        k = o.split()[0]
        if k == 'var':
            seen_var = True
        elif k == 'pkg':
            return KEY_F14 if (seen_var and o.split()[1] == 'p1') else None
        elif k != 'reset':
            return None
    return None


# ------------------------------------------------------------------ generators

def gen_instr(rng, w_apply=4, w_stub=6, w_cancel=2, w_look=2):
    x = rng.below(w_apply + w_stub + w_cancel + w_look)
    if x < w_apply:
        return 'apply k%d' % rng.below(4)
    x -= w_apply
    if x < w_stub:
        k = rng.below(10)
        if k < 4:
            return 'ret %d' % rng.below(10)
        if k < 7:
            return 'whenret %d %d' % (1 + rng.below(2), rng.below(10))
        if k < 8:
            return 'when %d' % (1 + rng.below(3))
        return 'rets ' + ' '.join(str(rng.below(10)) for _ in range(1 + rng.below(3)))
    x -= w_stub
    if x < w_cancel:
        return 'cancel'
    return 'look'


def gen_history(rng, maxlen, bad=False):
    """A mostly valid history concentrated on 1-3 handles (so that instructions for one target alternate)."""
    n = 2 + rng.below(maxlen - 1)
    hs = [rng.choice(HANDLES) for _ in range(1 + rng.below(3))]
    if rng.chance(1, 3):
        hs.append(rng.choice([('xf', 'X'), ('xf', 'Y'), ('xs', 'um')]))
    ops = []
    for _ in range(n):
        x = rng.below(20)
        if x == 0:
            ops.append('reset')
        elif x == 1:
            ops.append('pkg ' + rng.choice(['p0', 'p1', 'p1']))
        elif x == 2:
            ops.append('var set %d' % rng.below(10))
        elif bad and x == 3:
            ops.append(rng.choice(['st Mz look', 'xf nosuch apply k1', 'xf nosuch ret 1', 'xf nosuch look', 'xf nosuch cancel']))
        else:
            if hs[0][0] not in PKG_KINDS and rng.chance(1, 6):
                k, nm = rng.choice(HANDLES)
            else:
                k, nm = rng.choice(hs)
            if k in PKG_KINDS and rng.chance(1, 2):
                ops.append('pkg p1')
            if k == 'if' and rng.chance(2, 3):
                nm = 'M.a%d' % rng.below(3)          # a different function literal handed to As()
            ops.append('%s %s %s' % (k, nm, gen_instr(rng)))
    return ' ; '.join(ops)


def systematic(depth):
    """All instruction sequences of length `depth` over a small alphabet on each handle kind (the F7 shapes are among them)."""
    alpha = ['apply k1', 'apply k2', 'ret 3', 'ret 4', 'whenret 1 5', 'rets 6 7', 'cancel', 'look']
    out = []

    def rec(prefix):
        if len(prefix) == depth:
            out.append(list(prefix))
            return
        for a in alpha:
            rec(prefix + [a])
    rec([])
    hist = []
    for k, nm in [('fn', 'fA'), ('st', 'M1'), ('if', 'M'), ('xf', 'X'), ('xs', 'um')]:
        for seq in out:
            hist.append(' ; '.join('%s %s %s' % (k, nm, a) for a in seq))
    # the interface method again, every statement of the chain with its own As() literal
    for seq in out:
        hist.append(' ; '.join('if M.a%d %s' % (i % 3, a) for i, a in enumerate(seq)))
    return hist


def pkg_lane(triples):
    """Pkg followed by every pair (triple) of lookups of every kind - first-time lookups and cache hits (the same lookup
    was already made under the same package before) - then probes that show where the package-sensitive names resolve
    (the clause `applies to the next lookup only`)."""
    looks = ['fn fA look', 'st M1 look', 'if M look', 'xf X look', 'xf Y ret 5', 'xs um look', 'xs um apply k1', 'var set 3',
             'st Mz look', 'xf nosuch look']
    probes = ['xf X apply k2 ; xs um apply k3 ; xf X ret 7 ; xs um ret 8']
    hist = []
    seqs = [[a, b] for a in looks for b in looks]
    if triples:
        seqs += [[a, b, c] for a in looks for b in looks for c in looks]
    for p in ('p0', 'p1'):
        for seq in seqs:
            # cold: every lookup is the first of its kind; warm: each was made before under Pkg(p) (cache hit now),
            # and Pkg(p) is repeated before each so that only the *hit* branches decide whether it is consumed
            hist.append(' ; '.join(['pkg ' + p] + seq + probes))
            hist.append(' ; '.join(['pkg ' + p, seq[0], 'pkg ' + p, seq[0]] + seq[1:] + probes))
        for a in looks:
            warm = ' ; '.join('pkg %s ; %s' % (p, x) for x in looks)
            hist.append(' ; '.join([warm, 'pkg ' + p, a] + probes))
    return hist


CORPUS = [
    'fn fA ret 1 ; fn fA apply k2 ; fn fA ret 3',                      # F7 (DESIGN section 8)
    'st M1 ret 1 ; st M1 apply k2 ; st M1 whenret 1 3',
    'if M ret 1 ; if M apply k2 ; if M ret 3',
    'xf X ret 1 ; xf X apply k2 ; xf X ret 3',
    'fn fA apply k1 ; fn fA ret 3 ; fn fA apply k2 ; fn fA ret 4 ; fn fA apply k3 ; fn fA whenret 1 5',
    'pkg p1 ; var set 3 ; xf Y apply k1',                               # F14
    'pkg p1 ; xf X apply k1 ; xf X apply k2 ; pkg p1 ; xf X look ; xf X cancel',
    'pkg p1 ; xs um look ; pkg p1 ; xs um look ; xs um apply k1',        # seed c06-3: ExportStruct cache hit keeps the override
    'pkg p1 ; xs um ret 1 ; pkg p1 ; xs um apply k2 ; pkg p1 ; xs um ret 3 ; xs um whenret 1 4 ; reset ; xs um look',
    'fn fA ret 1 ; fn fA cancel ; fn fA look ; fn fA whenret 1 2 ; reset ; fn fA look ; fn fA apply k0',
    'if M apply k1 ; if M cancel ; if M ret 2 ; reset ; if M look ; if M rets 1 2 3',
    'if M.a1 rets 1 2 ; if M.a2 rets 3 4',                              # seed c05-4: a second statement with its own As() literal
    'if M.a0 whenret 1 5 ; if M.a1 whenret 2 6 ; if M.a2 ret 7 ; if M.a0 rets 8 9',
    'st M1 apply k1 ; st M2 ret 5 ; st M1 cancel ; st M1 ret 2 ; reset ; st M2 look',
]


def gen_all(tier, rng):
    hist = list(CORPUS)
    hist += systematic(3)
    hist += pkg_lane(triples=True)
    n_valid, n_bad, maxlen = (1500, 300, 20) if tier == 'quick' else (60000, 8000, 30)
    if tier == 'thorough':
        hist += systematic(4)
    for _ in range(n_valid):
        hist.append(gen_history(rng, maxlen))
    for _ in range(n_bad):
        hist.append(gen_history(rng, maxlen, bad=True))
    return list(dict.fromkeys(hist))


# ------------------------------------------------------------------ running

_BIN = {}


def build_probe():
    if 'b' in _BIN:
        return _BIN['b']
    extra = C.helper_pkgs()
    extra['internal/zzverif/c12p'] = {'p1.go': os.path.join(C.HARNESS, 'c12', 'p1', 'p1.go')}
    b, err = C.overlay_build('c12', '', {'zz_verif_c12_test.go': os.path.join(C.HARNESS, 'c12', 'probe_test.go')}, extra)
    if b is None:
        raise C.Infra('probe c12 does not build against the current tree:\n' + err[-3000:])
    _BIN['b'] = b
    return b


def run_impl(lines, tag):
    """Run the probe on `lines` in parallel chunks (own process each: a crash loses one history, which is re-run alone)."""
    b = build_probe()
    res = [None] * len(lines)
    nchunk = max(1, min(C.NCPU, len(lines) // 50 + 1))
    size = (len(lines) + nchunk - 1) // nchunk

    def work(ci):
        lo, hi = ci * size, min(len(lines), (ci + 1) * size)
        start = lo
        while start < hi:
            opsp = os.path.join(C.BUILD, f'{tag}.{ci}.ops')
            outp = os.path.join(C.BUILD, f'{tag}.{ci}.impl')
            open(opsp, 'w').write('\n'.join(lines[start:hi]) + '\n')
            rc, log = C.run_probe(b, 'TestVerifC12', opsp, outp, timeout=900)
            got = C.read_indexed(outp, hi - start)
            for j, v in enumerate(got):
                if v is not None:
                    res[start + j] = v
            if rc == 0:
                break
            done = max([j for j, v in enumerate(got) if v is not None], default=-1)
            res[start + done + 1] = 'crash rc=%d' % rc
            start = start + done + 2

    ths = [threading.Thread(target=work, args=(i,)) for i in range(nchunk)]
    for t in ths:
        t.start()
    for t in ths:
        t.join()
    return res


def run_model(lines, tag, cmd='c12.hist'):
    exe, err = C.build_driver()
    if exe is None:
        return None, err
    opsp = os.path.join(C.BUILD, f'{tag}.model.ops')
    open(opsp, 'w').write('\n'.join(l.replace('c12.hist', cmd, 1) for l in lines) + '\n')
    return C.run_driver(exe, opsp, os.path.join(C.BUILD, f'{tag}.model')), ''


def shrink(hist):
    """Delta-debug one failing history on the implementation: drop ops while the oracle still fails with the same key."""
    ops = [o.strip() for o in hist.split(';')]
    first = oracle(hist, run_impl(['c12.hist ' + hist], 'c12-shrink')[0])
    if first is None:
        return hist
    key = first[1]
    changed = True
    while changed and len(ops) > 1:
        changed = False
        cands = [ops[:i] + ops[i + 1:] for i in range(len(ops))]
        obs = run_impl(['c12.hist ' + ' ; '.join(c) for c in cands], 'c12-shrink')
        for c, o in zip(cands, obs):
            r = oracle(' ; '.join(c), o)
            if r is not None and r[1] == key and not (o or '').startswith('crash'):
                ops, changed = c, True
                break
    return ' ; '.join(ops)


def run(tier):
    out = C.Outcome('C12', tier)
    rng = C.Rng(C.seed()).fork('C12')
    proof = C.prove('C12', extra_targets=('GoomVerif.Findings.C12F7',), leanchecker=(tier == 'thorough'))
    hists = gen_all(tier, rng)
    lines = ['c12.hist ' + h for h in hists]
    impl = run_impl(lines, 'c12')
    model, derr = run_model(lines, 'c12')
    lww, _ = run_model(lines, 'c12', 'c12.lww') if model is not None else (None, '')
    if model is None:
        proof['failed'].append(('goomdrv', 'driver does not build: ' + derr[-500:]))
        proof['ok'] = False
    # 1. the property on the implementation
    fails = {}
    for h, o in zip(hists, impl):
        r = oracle(h, o)
        if r:
            fails.setdefault(r[1], []).append((h, o, r[0]))
    for key, fl in fails.items():
        fl.sort(key=lambda x: len(x[0]))
        h, o, why = fl[0]
        hs = shrink(h)
        o2 = run_impl(['c12.hist ' + hs], 'c12-shrink')[0]
        r2 = oracle(hs, o2) or (why, key)
        out.violation(f'`{hs}`: {r2[0]}', {'kind': 'impl-oracle', 'ops': ['c12.hist ' + hs], 'observed': o2, 'expected': ' ; '.join(reference([x.strip() for x in hs.split(';')])),
                                          'class': key, 'n_failing_histories': len(fl), 'unshrunk': h,
                                          'how': 'GOOM_REPO=<tree> python3 check.py C12 --replay <this file>'}, key=key)
    # 2. correspondence (model of the repaired code vs implementation) and reference vs model (what the theorem says, re-observed)
    diffs = C.diff_streams(lines, impl, model) if model is not None else []
    refdiff = 0
    if model is not None and lww is not None:
        for m, l in zip(model, lww):
            if [s.rpartition(' ')[2] for s in m.split(' ; ')] != l.split(' ; '):
                refdiff += 1
    if not fails:
        if diffs:
            i, op, a, b = diffs[0]
            out.violation(f'model and implementation disagree on `{op}`', {'kind': 'correspondence', 'ops': [op], 'impl': a, 'model': b,
                          'broken': 'correspondence Model/ApiC12.lean vs builder.go/cache.go/mocker.go/iface.go/when.go',
                          'n_disagreements_shown': len(diffs)}, no_failing_input=True)
        elif not proof['ok']:
            out.violation('proof obligations of Props/C12.lean no longer check and no failing input was found in the search',
                          {'kind': 'proof', 'broken': proof['failed'], 'searched': len(lines), 'output': proof.get('output', '')[-3000:]},
                          no_failing_input=True)
        elif refdiff:
            out.violation('driver: model and reference disagree although refines_lww is proved', {'kind': 'driver', 'n': refdiff}, no_failing_input=True)
    # evidence
    nops = sum(h.count(';') + 1 for h in hists)
    kinds = {}
    classes = set()
    for h, o in zip(hists, impl):
        for op in h.split(';'):
            t = op.split()
            k = t[0] + ':' + (t[2] if len(t) > 2 and t[0] in ('fn', 'st', 'if', 'xf') else '')
            kinds[k] = kinds.get(k, 0) + 1
        if o:
            for st in o.split(' ; '):
                for c in st.rpartition(' ')[2].split(','):
                    classes.add(c[0])
    nontrivial = len({o for o in impl if o and any(ch in o for ch in 'kv')})
    out.coverage = {
        'obligations': proof['obligations'], 'discharged': proof['discharged'],
        'checker_cmd': ' ; '.join(proof['cmds']),
        'trusted_base': ['Lean 4.33 kernel', 'axioms: ' + ', '.join(sorted({a for v in proof['axioms'].values() for a in v}) or ['none']),
                         'hand transcription Model/ApiC12.lean of builder.go/cache.go/mocker.go/iface.go/when.go (validated: every history below ran on the real API and on the model, mocker identities and behaviour of 11 targets compared after every step)',
                         'probe harness/c12 and its canonicalisation; Python last-writer-wins reference in checks/C12.py (third, independent statement of the property)',
                         'not modelled: reflect.MakeFunc, patch layer, GC (off in the probe), aliasing of one function through two kinds of handle'],
        'theorems': proof['axioms'], 'proof_failures': proof['failed'],
        'evaluations': len(hists), 'steps': nops, 'distinct_nontrivial': nontrivial,
        'traces_validated_against_impl': len(hists) - len(diffs),
        'rule': 'one evaluation = one history (fresh builder) of 1..30 ops; after every op all 11 targets are called with 1 and 2; '
                'lanes: regress corpus, all instruction triples (thorough: quadruples) over 8 instructions x 5 handle kinds, Pkg x every pair and triple of 10 lookup forms (cold and as cache hits), random valid, random with error ops; '
                'non-trivial = distinct observation in which some target is mocked',
        'distribution': {'histories': len(hists), 'ops': nops, 'op_kinds': dict(sorted(kinds.items())), 'result_classes_seen': sorted(classes),
                         'impl_vs_model_disagreements': len(diffs), 'model_vs_reference_disagreements': refdiff,
                         'oracle_failures_by_class': {str(k): len(v) for k, v in fails.items()}},
        'samples': [{'op': lines[i], 'impl': impl[i], 'model': model[i] if model else None} for i in (0, len(lines) // 3, len(lines) // 2, len(lines) - 1)],
    }
    out.assumptions = ['one builder, calls from one goroutine; GC disabled in the probe; the same function is not addressed through two kinds of handle']
    return out.finish()


def replay(body):
    lines = body.get('ops', [])
    impl = run_impl(lines, 'c12-replay')
    model, _ = run_model(lines, 'c12-replay')
    asf, _ = run_model(lines, 'c12-replay', 'c12.asfound')
    rc = 0
    for i, l in enumerate(lines):
        h = l.split(' ', 1)[1]
        r = oracle(h, impl[i])
        print(l)
        ops = [o.strip() for o in h.split(';')]
        want = reference(ops)
        im = (impl[i] or 'None').split(' ; ')
        mo = (model[i] if model else 'None').split(' ; ')
        af = (asf[i] if asf else 'None').split(' ; ')
        for j, op in enumerate(ops):
            g = lambda xs: xs[j] if j < len(xs) else '?'
            print(f'  {op:24s} impl {g(im)}\n  {"":24s} model(repaired) {g(mo)}\n  {"":24s} model(as found) {g(af)}\n  {"":24s} last-writer-wins {g(want)}')
        print('  oracle:', r[0] if r else 'ok')
        if r or (model and impl[i] != model[i]):
            rc = 1
    return rc
