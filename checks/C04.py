"""C04 — conditional stubs select results by the first matching condition, else the default, else panic.

Proof: Props/C04.lean states, over the hand-written transcription Model/When.lean of when.go / matcher.go /
arg/expr.go / arg/value.go / mocker.go:callback, that for every signature shape, every well-formed configuration and
every history of further registrations and calls (through reflect or compiled call sites, any receiver, any argument
tuple) each call returns the result of the first condition registered *before it* that holds (declarative `Sat`),
else the default, else panics `nosuitable` (NumOut > 0) / returns nothing (NumOut = 0); receiver ignored; variadic
tail matched element-wise, nil or empty.  Tie X: an in-package probe of the root package installs generated
configurations on a corpus of 43 real functions/methods (fixed arity 0..4, variadic behind 0..3 fixed parameters,
pointer and value receivers, unexported methods through As(), interface variables, 0..3 results), interleaves
registrations with calls of the *patched* functions (reflect, compiled call sites, concurrent goroutines) and
When.Eval, and the model driver answers the same lines.  The oracle below is a separate reference interpreter of the
documented rule that works from the text of the line alone and is applied to the implementation's output.
"""
import os

from vlib import common as C

META = {
    'property_id': 'C04',
    'technique': 'Lean 4 theorems (induction over configurations, histories of registrations and calls, expression trees and argument tuples) about a transcription of When/Matcher/Expr + differential run of generated histories on 43 really patched corpus functions (reflect, compiled and concurrent calls) and When.Eval',
    'level': 'proof',
    'level_text': 'Full proof on the model: for every signature (fixed arity, variadic behind k >= 0 fixed parameters, methods), every well-formed configuration (optional default, then any number of When/In/Matches clauses over values, Any, nested In) and every later history of further registrations and calls, each call returns the result of the first condition registered before it whose expressions all hold, else the default, else panics "no suitable condition" when the function has results (returns normally when it has none); the receiver is ignored and the variadic tail is matched element by element, whether the caller passes it as an empty or a nil slice.',
    'level_note': 'Trusted: Lean kernel (propext, Classical.choice, Quot.sound), the hand transcription Model/When.lean (tied by the differential run on every check run; distribution in the evidence), the probe and its value domains. Abstracted: argument equality is a parameter (C18), result sequences/cursor only for single-result matchers (C05), types of values (only arities), reflect.MakeFunc/Call ABI (C01); concurrent calls are observed on the implementation (the model is sequential; single-result conditions have no call-time state, theorem invoke_inv2). The theorems describe the repaired code (fix diffs F6/F6c applied; F27-c04-first-when-variadic and F28-c04-in-bare-nonslice drafted in fixes/): on a tree without them the oracle reports the violations. Two configuration shapes are excluded or recorded: known finding C04-K1 (a configuration starting with When() without arguments; invoke_spec_full is refuted in Findings/C04K1.lean) and C04-K2 (an unexported method mocked through ExportMethod().As(): goom treats the receiver as an ordinary first parameter, so conditions written for the method are refused).',
}

# name -> (parameter kinds without receiver, variadic, method (2 = unexported method through As), results)
T = {
    'f0': ([], 0, 0, 1), 'f1': (['int'], 0, 0, 1), 'f2': (['int', 'string'], 0, 0, 1), 'f3': (['int', 'string', 'bool'], 0, 0, 2),
    'f1s': (['string'], 0, 0, 3), 'f1i': (['iface'], 0, 0, 1), 'f2p': (['ptr', 'int'], 0, 0, 1), 'f1t': (['struct'], 0, 0, 1),
    'f1sl': (['slice'], 0, 0, 1), 'f1n': (['int'], 0, 0, 0), 'f2n': (['int', 'int'], 0, 0, 0), 'f4': (['int'] * 4, 0, 0, 1),
    'f2b': (['bool', 'bool'], 0, 0, 2), 'f2f': (['float', 'uint8'], 0, 0, 1),
    'v0': (['int'], 1, 0, 1), 'v0s': (['string'], 1, 0, 2), 'v1': (['int', 'int'], 1, 0, 1), 'v1s': (['string', 'int'], 1, 0, 1),
    'v2': (['int', 'string', 'int'], 1, 0, 1), 'v2b': (['bool', 'int', 'string'], 1, 0, 3), 'v0i': (['iface'], 1, 0, 1),
    'v1n': (['int', 'int'], 1, 0, 0), 'v1sl': (['slice', 'int'], 1, 0, 1), 'v3': (['int'] * 4, 1, 0, 1), 'v1i': (['iface', 'iface'], 1, 0, 1),
    'v1f': (['uint8', 'float'], 1, 0, 1),
    'M0': ([], 0, 1, 1), 'M1': (['int'], 0, 1, 1), 'M2': (['int', 'string'], 0, 1, 2), 'M3': (['int', 'iface', 'bool'], 0, 1, 1),
    'MN': (['int'], 0, 1, 0), 'MV': (['int'], 1, 1, 1), 'MV1': (['int', 'int'], 1, 1, 1), 'MV2': (['string', 'int', 'string'], 1, 1, 2),
    'V1': (['int'], 0, 1, 1), 'VV': (['int', 'int'], 1, 1, 1),
    'U1': (['int'], 0, 2, 1), 'UV': (['int', 'int'], 1, 2, 1),
    'I0': ([], 0, 1, 1), 'I1': (['int'], 0, 1, 1), 'I2': (['int', 'string'], 0, 1, 2), 'IV': (['int', 'int'], 1, 1, 1), 'IN': (['int'], 0, 1, 0),
}
NO_RECV = {'I0', 'I1', 'I2', 'IV', 'IN'}          # interface variable: there is no receiver value to choose
DOM = {'int': '0123', 'string': '0123', 'bool': '01', 'iface': '0123n', 'ptr': '01n', 'struct': '0123', 'slice': '0123n',
       'float': '0123', 'uint8': '0123'}
NAMES = sorted(T)
PROBE_FILES = {'zz_verif_c04_corpus_test.go': 'c04/corpus_test.go', 'zz_verif_c04_probe_test.go': 'c04/probe_test.go'}


def sig_of(name):
    k, v, m, o = T[name]
    return f'n={len(k)},v={v},m={m},o={o}'


def kind_at(name, j):
    k, v, _, _ = T[name]
    if not k:
        return 'int'
    return k[min(j, len(k) - 1)]


def arity_ok(name, n):
    k, v, _, _ = T[name]
    return n >= len(k) - 1 if v else n == len(k)


# ------------------------------------------------------------------ spec terms: ('*',) | ('v', idx) | ('i', [(is_tuple, [spec..])..])

def show_spec(s):
    if s[0] == '*':
        return '*'
    if s[0] == 'v':
        return s[1]
    return '{' + '|'.join(('[' + ','.join(show_spec(e) for e in a) + ']') if tup else show_spec(a[0]) for tup, a in s[1]) + '}'


def sat(s, x):
    """the documented meaning: plain values by equality, Any always, In by membership"""
    if s[0] == '*':
        return True
    if s[0] == 'v':
        return s[1] == x
    return any(len(a) == 1 and sat(a[0], x) for _, a in s[1])


def nested_ok(s, kind=None):
    """an arg.In used at one position: every alternative stands for one value (a bare []interface{} value — index 3 of the
    interface domain — would be read as a tuple by goom's API, so it has to be written [3])"""
    return s[0] != 'i' or all(len(a) == 1 and nested_ok(a[0], kind) and (tup or not bare_tuple(a[0], kind)) for tup, a in s[1])


def bare_tuple(s, kind):
    return kind == 'iface' and s == ('v', '3')


def sat_tuple(specs, xs):
    return len(specs) == len(xs) and all(sat(s, x) for s, x in zip(specs, xs))


def cond_holds(cond, xs):
    if cond[0] == 'when':
        return sat_tuple(cond[1], xs)
    return any(sat_tuple(a, xs) for a in cond[1])    # 'in': alternatives already as tuples of specs


# ------------------------------------------------------------------ reading a line (the oracle and the shrinker work from the text alone)

def pspec(s, pos):
    ch = s[pos]
    if ch == '*':
        return ('*',), pos + 1
    if ch == '{':
        alts, pos = [], pos + 1
        while True:
            if s[pos] == '[':
                xs, pos = plist(s, pos + 1, ']')
                alts.append((True, xs))
            else:
                x, pos = pspec(s, pos)
                alts.append((False, [x]))
            if s[pos] == '|':
                pos += 1
                continue
            break
        return ('i', alts), pos + 1
    return ('v', ch), pos + 1


def plist(s, pos, end):
    xs = []
    if s[pos] == end:
        return xs, pos + 1
    while True:
        x, pos = pspec(s, pos)
        xs.append(x)
        if pos < len(s) and s[pos] == ',':
            pos += 1
            continue
        break
    return xs, pos + 1


def split_line(op):
    """header tokens and the list of steps (token lists); sections are separated by ' | ', steps by ' ; '"""
    parts = [x.strip() for x in op.split(' | ')]
    head = parts[0].split()
    steps = []
    for sec in parts[1:]:
        steps += [c.split() for c in sec.split(' ; ') if c.strip()]
    return head, steps


def join_line(head, steps):
    return ' '.join(head) + ' | ' + ' ; '.join(' '.join(s) for s in steps)


def parse_args(a):
    return [] if a == '-' else a.split(',')


def walk(op):
    """Interpret a line by the documented rule.  Returns (events, wf, k1, name, mode) where events has one entry per
    step: ('reg',) for a clause, ('call', want, cls, ties) for a call, ('conc', [want..]) — or wf=False when the line
    uses anything outside the well-formed language (then the oracle keeps silent and only the correspondence counts)."""
    head, steps = split_line(op)
    mode, name = head[1], head[2]
    k, v, m, o = T[name]
    conds, dflt, pending, first, wf, k1 = [], None, None, True, True, False
    events = []

    def expect(xs):
        holding = [r for c, r in conds if cond_holds(c, xs)]
        if holding:
            want = f'ret:{holding[0]}'
            cls = 'matched-first' if conds[0][1] == holding[0] else 'matched-later'
        elif dflt is not None:
            want, cls = f'ret:{dflt}', 'default'
        elif o > 0:
            want, cls = 'panic:nosuitable', 'panic-no-suitable'
        else:
            want, cls = 'ret:-', 'no-results-no-default'
        if o == 0 and want.startswith('ret:'):
            want = 'ret:-'
        return want, cls, len(holding) >= 2

    for st in steps:
        kind = st[0]
        if kind == 'call':
            xs = parse_args(st[2])
            if not arity_ok(name, len(xs)):
                wf = False
            events.append(('call',) + expect(xs))
            continue
        if kind == 'conc':
            wants = []
            for t in st[2:]:
                xs = parse_args(t.split(':', 1)[1])
                if not arity_ok(name, len(xs)):
                    wf = False
                wants.append(expect(xs)[0])
            events.append(('conc', wants))
            continue
        events.append(('reg',))
        if kind == 'ret':
            rid = int(st[1])
            if pending is not None:
                conds.append((pending, rid))
                pending = None
            elif first:
                if o > 0:
                    dflt = rid
                else:
                    dflt = None     # Return() on a function without results configures nothing that could be observed
            else:
                wf = False
        elif kind == 'when':
            sp = [] if st[1] == '-' else plist(st[1] + ']', 0, ']')[0]
            if pending is not None or not arity_ok(name, len(sp)) or not all(nested_ok(s, kind_at(name, j)) for j, s in enumerate(sp)):
                wf = False
            if first and not sp:
                k1 = True           # K1: the first clause is When() without arguments
            pending = ('when', sp)
        elif kind == 'in':
            if pending is not None:
                wf = False
            alts = []
            for idx, a in enumerate(st[1:]):
                if a.startswith('<'):
                    vs = [x for x in a[1:-1].split(',') if x]
                    alts.append([('v', x) for x in vs])
                    # a typed slice stands for whole argument lists only from alternative index n-1 on, and only if
                    # its element type is also the type of every fixed parameter
                    if not (v and idx >= len(k) - 1 and all(kk == k[-1] for kk in k)):
                        wf = False
                elif a.startswith('['):
                    alts.append(plist(a, 1, ']')[0])
                else:
                    alts.append([pspec(a, 0)[0]])
                    if bare_tuple(alts[-1][0], kind_at(name, 0)):
                        wf = False
                if not arity_ok(name, len(alts[-1])) or not all(nested_ok(s, kind_at(name, j)) for j, s in enumerate(alts[-1])):
                    wf = False
            pending = ('in', alts)
        elif kind == 'matches' and not first and o >= 1:
            if pending is not None:
                wf = False
            for pr in st[1:]:
                a, _, kk = pr.rpartition('=')
                sp = plist(a, 1, ']')[0] if a.startswith('[') else [pspec(a, 0)[0]]
                if not a.startswith('[') and bare_tuple(sp[0], kind_at(name, 0)):
                    wf = False
                if not arity_ok(name, len(sp)) or not all(nested_ok(s, kind_at(name, j)) for j, s in enumerate(sp)):
                    wf = False
                conds.append((('when', sp), int(kk)))
        else:
            wf = False              # retx, andret, returns, matches as first clause / on a result-less function
        first = False
    return events, wf, k1, name, mode


# ------------------------------------------------------------------ generator

class Gen:
    def __init__(self, rng):
        self.r = rng
        self.dist = {}

    def count(self, k, n=1):
        self.dist[k] = self.dist.get(k, 0) + n

    def val(self, kind, narrow):
        d = DOM[kind]
        if kind == 'iface' and self.r.chance(1, 5):
            return '3'      # the interface value that is itself a []interface{} (members: values 0 and 1)
        if narrow and len(d) > 2:
            d = d[:2] + (d[-1] if d[-1] == 'n' and self.r.chance(1, 4) else '')
        return self.r.choice(d)

    def spec(self, kind, depth=0, maxdepth=2, maxalts=3):
        p = self.r.below(100)
        if p < 55 or depth >= maxdepth and p < 80:
            self.count('spec.value')
            return ('v', self.val(kind, self.r.chance(3, 4)))
        if p < 75 or depth >= maxdepth:
            self.count('spec.any')
            return ('*',)
        self.count('spec.in' if depth == 0 else 'spec.in.nested')
        alts = []
        for _ in range(1 + self.r.below(maxalts)):
            inner = self.spec(kind, depth + 1, maxdepth, maxalts)
            # a bare []interface{} alternative IS a tuple for goom's API; as one value it has to be written [v]
            alts.append((self.r.chance(1, 3) or (kind == 'iface' and inner == ('v', '3')), [inner]))
        return ('i', alts)

    def arity(self, name, maxtail=3):
        k, v, m, _ = T[name]
        if not v:
            return len(k)
        if m == 2:
            # As()-method (K2): goom counts the receiver as a parameter.  Only arities it refuses up front are generated;
            # a longer condition would be resolved against the receiver type (an int cast to a pointer).
            return len(k) - 1
        return len(k) - 1 + self.r.below(maxtail + 1)

    def specs(self, name, n, **kw):
        return [self.spec(kind_at(name, j), **kw) for j in range(n)]

    def cond_steps(self, name, malformed, big, allow_in=True, prefer_in=False):
        """one condition: [clause] (its `ret` is added by the caller); returns (step tokens, condition or None)"""
        k, v, m, o = T[name]
        kw = {'maxdepth': 4, 'maxalts': 8} if big else {}
        maxtail = 8 if big else 3
        if not allow_in or len(k) == 0 or self.r.chance(3 if prefer_in else 6, 10):
            n = self.arity(name, maxtail)
            if malformed and m != 2 and self.r.chance(1, 4):
                n = max(0, n + self.r.choice([-1, 1, 2]))
            sp = self.specs(name, n, **kw)
            self.count('clause.when')
            return ['when', ','.join(show_spec(s) for s in sp) if sp else '-'], ('when', sp)
        alts, toks = [], []
        if self.r.chance(1, 20):
            self.count('clause.in.empty')
            self.count('clause.in')
            return ['in'], ('in', [])       # In() without alternatives: a condition that never holds
        for ai in range(1 + self.r.below(8 if big else 3)):
            n = self.arity(name, maxtail)
            form = self.r.below(10)
            if malformed and m != 2 and self.r.chance(1, 4):
                n = max(0, n + self.r.choice([-1, 1]))
            homog = v and m != 2 and all(kk == k[-1] for kk in k)
            if homog and ai >= len(k) - 1 and form < 4:
                vs = [x for x in (self.val(k[-1], True) for _ in range(n)) if x != 'n']
                if k[-1] == 'iface' or len(vs) < len(k) - 1:
                    vs = vs + [DOM[k[-1]][0]] * (len(k) - 1 - len(vs))
                toks.append('<' + ','.join(vs) + '>')
                alts.append([('v', x) for x in vs])
                self.count('in.alt.typed-slice')
            elif (arity_ok(name, 1) and form < 6) or (malformed and form == 9):
                s = self.spec(kind_at(name, 0), **kw)
                if v and kind_at(name, 0) == 'slice' and s[0] == 'v':
                    s = ('*',)      # a bare []int value IS a typed slice for goom: written as <..> above instead
                if kind_at(name, 0) == 'iface' and s == ('v', '3'):
                    s = ('*',)      # a bare []interface{} IS a tuple for goom
                toks.append(show_spec(s))
                alts.append([s])
                self.count('in.alt.bare')
            else:
                sp = self.specs(name, n, **kw)
                toks.append('[' + ','.join(show_spec(s) for s in sp) + ']')
                alts.append(sp)
                self.count('in.alt.tuple')
        self.count('clause.in')
        return ['in'] + toks, ('in', alts)

    def instance(self, name, cond):
        """an argument tuple that satisfies (or nearly satisfies) a condition"""
        if cond[0] == 'in' and not cond[1]:
            return None         # In() without alternatives: nothing satisfies it
        specs = cond[1] if cond[0] == 'when' else self.r.choice(cond[1])
        xs = []
        for j, s in enumerate(specs):
            kind = kind_at(name, j)
            while s[0] == 'i':
                s = self.r.choice(s[1])[1][0]
            xs.append(s[1] if s[0] == 'v' and not self.r.chance(1, 8) else self.val(kind, True))
        return xs

    def call_args(self, name, conds, direct):
        k, v, m, o = T[name]
        xs = None
        if conds and self.r.chance(6, 10):
            xs = self.instance(name, self.r.choice(conds))
            if xs is not None and not arity_ok(name, len(xs)):
                xs = None
        if xs is None:
            n = len(k) - 1 + self.r.below(4) if v else len(k)
            if v and self.r.chance(1, 4):
                n = len(k) - 1          # no variadic argument at all: the nil tail of a compiled call
            xs = [self.val(kind_at(name, j), self.r.chance(2, 3)) for j in range(n)]
        if direct:
            xs = [x if x != 'n' else '0' for x in xs]    # the compiled call sites take concrete values only
        recv = '-' if (not m or name in NO_RECV) else str(self.r.below(2))
        return recv, xs

    def call_step(self, name, conds, direct):
        r, xs = self.call_args(name, conds, direct)
        return ['call', r, ','.join(xs) if xs else '-']

    def line(self, name=None, malformed=False, big=False):
        name = name or self.r.choice(NAMES)
        k, v, m, o = T[name]
        p = self.r.below(100)
        mode = 'call' if p < 40 else 'callm' if p < 50 else 'calld' if p < 75 else 'eval'
        direct = mode == 'calld'
        opts = ('s' if self.r.chance(1, 4) else '') + ('d' if self.r.chance(1, 12) else '')
        head = ['c04', mode, name, sig_of(name)] + ([opts] if opts else [])
        steps, conds, rid = [], [], 1
        have_default = self.r.chance(7, 10)
        if have_default:
            steps.append(['ret', '0'])
        ncond = self.r.choice([0, 1, 1, 2, 2, 3, 3, 4, 5, 6]) if not big else 17 + self.r.below(24)
        if not have_default and ncond == 0:
            ncond = 1
        if m == 2 and self.r.chance(1, 2):
            ncond = 0 if have_default else ncond     # As-path: keep half of the lines free of the known finding
        ncalls = 0
        for ci in range(ncond):
            if steps and ncalls < 6 and self.r.chance(1, 3):           # calls between registrations: the When is live
                for _ in range(1 + self.r.below(2)):
                    steps.append(self.call_step(name, conds, direct))
                    ncalls += 1
                self.count('call.between-registrations')
            # the mockers offer no In before a When/Return: a configuration that starts with In exists only on a When made
            # by CreateWhen directly (eval mode), where it is preferred so the case keeps its share
            firstc = not steps
            st, cond = self.cond_steps(name, malformed, big, allow_in=(not firstc or mode == 'eval'), prefer_in=firstc)
            if firstc and st[0] == 'in':
                self.count('first clause is In (eval mode)')
            steps.append(st)
            if steps and len(steps) > 1 and self.r.chance(1, 12):      # ... even between When(..) and its Return(..)
                steps.append(self.call_step(name, conds, direct))
                ncalls += 1
                self.count('call.between-when-and-return')
            steps.append(['ret', str(rid)])
            conds.append(cond)
            rid += 1
            if o >= 1 and self.r.chance(1, 8):      # Matches(Pair{args, k}, ...) = one When(args).Return(k) per pair
                prs = []
                for _ in range(1 + self.r.below(2)):
                    n = self.arity(name)
                    sp = self.specs(name, n)
                    if n == 1 and self.r.chance(1, 2) and not (kind_at(name, 0) == 'iface' and sp[0] == ('v', '3')):
                        prs.append(f'{show_spec(sp[0])}={rid}')          # Pair.Args not wrapped in []interface{}
                        self.count('matches.bare-args')
                    else:
                        prs.append(f'[{",".join(show_spec(s) for s in sp)}]={rid}')
                    conds.append(('when', sp))
                    rid += 1
                steps.append(['matches'] + prs)
                self.count('clause.matches')
            if malformed and self.r.chance(1, 5):
                extra = self.r.below(5)
                if extra == 0:
                    steps.append(['andret', str(rid)])
                elif extra == 1:
                    steps.append(['ret', str(rid)])
                elif extra == 2 and o >= 1:
                    steps.append(['returns', str(rid), str(rid + 1)])
                elif extra == 3 and o >= 1:
                    bs = self.spec(kind_at(name, 0))
                    if kind_at(name, 0) == 'iface' and bs == ('v', '3'):
                        bs = ('*',)     # a bare []interface{} as Pair.Args IS a tuple for goom
                    steps.append(['matches', f'{show_spec(bs)}={rid}'])
                else:
                    steps.append(['retx', str(rid), str(self.r.below(4))])
                rid += 2
                self.count('clause.malformed-extra')
        for _ in range(max(2, 8 - ncalls)):
            steps.append(self.call_step(name, conds, direct))
        if not malformed and self.r.chance(1, 6):
            jobs = []
            for _ in range(3 + self.r.below(3)):
                r, xs = self.call_args(name, conds, direct)
                jobs.append(f'{r}:{",".join(xs) if xs else "-"}')
            steps.append(['conc', '150'] + jobs)
            self.count('step.concurrent')
        return join_line(head, steps)


def exhaustive_lane():
    """every single-condition When over {0,1,*} per position x every call over {0,1}, tails up to 2, with and without
    default, through reflect and through compiled call sites"""
    import itertools
    lines = []
    for name in ('f1', 'f2', 'f2b', 'v0', 'v1', 'v2', 'M1', 'M2', 'MV', 'MV1', 'VV', 'I1', 'IV'):
        k, v, m, o = T[name]
        arities = [len(k) - 1 + t for t in range(3)] if v else [len(k)]
        recv = '-' if (not m or name in NO_RECV) else '0'
        calls = []
        for n in arities:
            for xs in itertools.product('01', repeat=n):
                calls.append(f'call {recv} {",".join(xs) if xs else "-"}')
        for n in arities:
            for sp in itertools.product('01*', repeat=n):
                for dflt in (0, None):
                    if not sp and dflt is None:
                        continue        # known finding K1 has its own lines
                    clauses = (['ret 0'] if dflt is not None else []) + ['when ' + (','.join(sp) or '-'), 'ret 1']
                    mode = 'calld' if (len(lines) % 2 and v) else 'call'
                    lines.append(f'c04 {mode} {name} {sig_of(name)} | ' + ' ; '.join(clauses + calls))
    return lines


REGRESS = [  # past failures / the documented defect inputs / review and seed witnesses, run first
    'c04 call v2 n=3,v=1,m=0,o=1 | ret 0 ; when 1,1,2,3 ; ret 1 | call - 1,1,2,3 ; call - 1,1 ; call - 1,1,2',             # F6
    'c04 call v1s n=2,v=1,m=0,o=1 | ret 0 ; when 1,2 ; ret 1 | call - 1,2 ; call - 3',
    'c04 call v1 n=2,v=1,m=0,o=1 | ret 0 ; in [1,2] [2] ; ret 1 | call - 1,2 ; call - 2 ; call - 1',                        # F6b
    'c04 call v0 n=1,v=1,m=0,o=1 | ret 0 ; in [1,2] [3] ; ret 1 | call - 3 ; call - 1,2',
    'c04 eval M1 n=1,v=0,m=1,o=1 | ret 0 ; when 1 ; ret 1 | call 0 1 ; call 1 0',                                          # F6c
    'c04 eval v0 n=1,v=1,m=0,o=1 | ret 0 ; when 1,2 ; ret 1 | call - 1,2 ; call - -',
    'c04 call f1 n=1,v=0,m=0,o=1 | ret 0 ; call - 1 ; when 1 ; ret 5 ; call - 1 ; call - 0',                               # live When (review D1)
    'c04 calld v1 n=2,v=1,m=0,o=1 | ret 0 ; when 1 ; ret 5 ; call - 1 ; call - 1,1',                                       # nil tail (review D2)
    'c04 calld MV n=1,v=1,m=1,o=1 | ret 0 ; when - ; ret 5 ; in [] ; ret 6 ; call 0 - ; call 1 1',
    'c04 call v1 n=2,v=1,m=0,o=1 | when 1 ; ret 5 ; call - 1 ; call - 1,1',                                                # F27 first When on a variadic
    'c04 call v1 n=2,v=1,m=0,o=1 | ret 0 ; in 1 2 ; ret 5 ; call - 2 ; call - 1 ; call - 1,2',                             # F28 bare alternatives
    'c04 call v0i n=1,v=1,m=0,o=1 | ret 0 ; in 2 ; ret 5 ; call - 2 ; call - 0,1',                                         # F28 In("a") on ...interface{}
    'c04 call v1 n=2,v=1,m=0,o=1 | ret 0 ; in [*,{0|1}] [{0|1},*,*] ; ret 2 ; conc 300 -:1,0 -:0,1 -:1,1,1 -:3,3 -:0,3,3',  # seed c04-1
    'c04 call MV1 n=2,v=1,m=1,o=1 | ret 0 ; in [0,1] [1,0] [1,1,1] ; ret 2 ; conc 300 0:0,1 1:1,0 0:1,1,1 1:0,0 1:1',
    'c04 call f1sl n=1,v=0,m=0,o=1 | ret 0 ; when 1 ; ret 1 ; when 0 ; ret 2 ; call - 2 ; call - 1 ; call - 0 ; call - 3',  # seed c04-3 (slice windows)
    'c04 call v1sl n=2,v=1,m=0,o=1 | ret 0 ; when 1,1 ; ret 1 ; when 2,* ; ret 2 ; call - 2,1 ; call - 1,1 ; call - 0,1',
    'c04 call v1i n=2,v=1,m=0,o=1 | ret 0 ; when 2,3 ; ret 1 ; when 2,0,1 ; ret 2 ; call - 2,3 ; call - 2,0,1 ; call - 2,3,3',  # seed out5/c04-1: a []interface{} as ONE element
    'c04 call v0i n=1,v=1,m=0,o=1 | when 3 ; ret 1 ; call - 3 ; call - 0,1',
    'c04 call f1 n=1,v=0,m=0,o=1 | ret 0 ; when 1 ; ret 1 ; in ; ret 2 ; call - 1 ; call - 1 ; call - 0 ; call - 0',               # seed out5/c05-2: In() without alternatives
    'c04 eval f1 n=1,v=0,m=0,o=1 | in ; ret 2 ; call - 1 ; when 1 ; ret 3 ; call - 1',
    'c04 call f1 n=1,v=0,m=0,o=1 d | when 1 ; ret 1 ; call - 0 ; call - 1',                                                       # seed out5/c04-3: debug mode keeps the panic
    'c04 call U1 n=1,v=0,m=2,o=1 | ret 0 ; call 0 1 ; call 1 1',                                                           # As(): default only
    'c04 call I1 n=1,v=0,m=1,o=1 | ret 0 ; when 1 ; ret 5 ; call - 1 ; call - 0 ; when 0 ; ret 6 ; call - 0',
]


def finding_label(name, mode, what):
    """label for replay files (not a known-finding key)"""
    k, v, m, o = T[name]
    if mode == 'eval' and (v or m):
        return 'eval-shape'
    if v:
        return 'variadic'
    return None


def oracle(op, obs, stats=None):
    """The property on the implementation's observation. Returns None or (what, known-finding key or None, step index)."""
    events, wf, k1, name, mode = walk(op)
    if not wf:
        return None
    if obs is None:
        return None                 # not run (the probe was stopped after too many deaths): run() accounts for these
    if obs == 'crash':
        return ('no observation: the probe process died or hung on this line, twice (alone the second time)', None, None)
    if obs.startswith('bad-') or 'probe-panic' in obs:
        return None                 # not a statement about goom (run() turns these into a machinery error)
    toks = obs.split()
    k, v, m, o = T[name]
    first_cond = next((i for i, e in enumerate(events) if e[0] == 'reg'), None)
    for i, ev in enumerate(events):
        got = toks[i] if i < len(toks) else None
        if ev[0] == 'reg':
            if got == 'ok':
                continue
            key = None
            head, steps = split_line(op)
            if m == 2 and got == 'panic:reject' and steps[i][0] in ('when', 'in', 'matches'):
                # K2, narrow: exactly "the receiver counts as a parameter": the first When/In written for the method is refused
                if not any(s[0] in ('when', 'in', 'matches') and s != ['in'] for s in steps[:i]):   # an In() without alternatives checks no arity
                    key = 'K2-as-method-receiver-is-parameter'
            return (f'well-formed configuration is not accepted: step {i} `{" ".join(steps[i])}` gave {got}', key, i)
        if ev[0] == 'call':
            _, want, cls, tie = ev
            if stats is not None:
                stats[cls] = stats.get(cls, 0) + 1
                if tie:
                    stats['ties(>=2 conditions hold)'] = stats.get('ties(>=2 conditions hold)', 0) + 1
            if got != want:
                key = None
                if k1:
                    key = 'K1-first-when-without-args' if got == k1_prediction(op, i) else None
                return (f'step {i}: call gave {got}, the first matching condition/default rule demands {want}', key, i)
        else:
            wants = ev[1]
            if stats is not None:
                stats['concurrent calls (goroutines)'] = stats.get('concurrent calls (goroutines)', 0) + len(wants)
            if got != 'conc:' + '/'.join(wants):
                key = None
                if k1 and got is not None and got.startswith('conc:'):
                    pred = k1_prediction(op, i)
                    key = 'K1-first-when-without-args' if got == pred else None
                return (f'step {i}: concurrent calls gave {got}, the rule demands conc:{"/".join(wants)}', key, i)
    return None


def k1_prediction(op, idx):
    """what K1 ("the Return after a leading When() became the default") predicts for step idx: the first condition is
    demoted to the default"""
    head, steps = split_line(op)
    # rewrite: drop the leading `when -`, so its `ret k` is read as the default
    j = next(i for i, s in enumerate(steps) if s[0] not in ('call', 'conc'))
    steps2 = steps[:j] + steps[j + 1:]
    events, wf, _, _, _ = walk(join_line(head, steps2))
    i2 = idx - 1 if idx > j else idx
    if i2 >= len(events):
        return None
    ev = events[i2]
    if ev[0] == 'call':
        return ev[1]
    if ev[0] == 'conc':
        return 'conc:' + '/'.join(ev[1])
    return None


def build_probe():
    fm = {k: os.path.join(C.HARNESS, v) for k, v in PROBE_FILES.items()}
    b, err = C.overlay_build('c04', '', fm, C.helper_pkgs())
    if b is None:
        raise C.Infra('C04 probe does not build against the current tree:\n' + err[-3000:])
    return b


ALONE_BUDGET = int(os.environ.get('VERIF_C04_ALONE_BUDGET', '120'))     # seconds for the single-line retry
PROBE_ENV = {'GOOM_DEBUG': '', 'GODEBUG': '', 'GOGC': '', 'GOMAXPROCS': '', 'GOTRACEBACK': 'single'}


def run_impl(binary, ops_path, out_path, n, budget=None):
    """Run the probe.  If the process dies or hangs (a crash in patched code, a kill, a deadlock) the run resumes at the
    line it stopped on; that line is retried ONCE on its own (2 minutes) and only a second death/hang is recorded as
    `crash`, which the oracle reports with the line as replay.  Every run has a deadline, so a hang ends in a verdict."""
    import subprocess
    impl = [None] * n
    start, deaths, retried = 0, 0, set()
    budget = budget or int(os.environ.get('VERIF_C04_BUDGET', '0')) or max(120, n // 200)        # >= 10x the usual wall time (about 1 ms per line), at least 2 minutes
    log = ''
    while start < n:
        alone = start in retried
        env = dict(PROBE_ENV, VERIF_START=str(start), VERIF_END=str(start + 1) if alone else '0')
        try:
            rc, log = C.run_probe(binary, 'TestVerifC04', ops_path, out_path, env=env, timeout=ALONE_BUDGET if alone else budget)
        except subprocess.TimeoutExpired:
            rc, log = -9, 'probe exceeded its deadline'
        if alone and rc == 0:
            got = C.read_indexed(out_path, n)
            impl[start] = got[start]
            start += 1
            continue
        got = C.read_indexed(out_path, n)
        last = -1
        for i, v in enumerate(got):
            if v is not None:
                impl[i] = v
                last = max(last, i)
        if rc == 0:
            break
        deaths += 1
        nxt = max(last, start - 1) + 1
        C.log(f'C04 probe died/hung (rc={rc}) after line {nxt - 1}; {"reproduced on" if nxt in retried else "retrying"} line {nxt} alone')
        if nxt >= n:
            break
        if nxt in retried:
            impl[nxt] = 'crash'
            break           # one reproduced death/hang is a verdict (reported with this line as replay); do not pay for more
        else:
            retried.add(nxt)
            start = nxt
        if deaths > 60:
            break           # enough evidence: the lines recorded as `crash` are reported; the rest stays unobserved
    return impl, deaths


def execute(ops, tag='c04'):
    ops_path = os.path.join(C.BUILD, f'{tag}.ops')
    open(ops_path, 'w').write('\n'.join(ops) + '\n')
    b = build_probe()
    impl, deaths = run_impl(b, ops_path, os.path.join(C.BUILD, f'{tag}.impl'), len(ops))
    exe, err = C.build_driver()
    if exe is None:
        return impl, None, err, deaths
    model = C.run_driver(exe, ops_path, os.path.join(C.BUILD, f'{tag}.model'))
    return impl, model, '', deaths


def variants(op):
    """smaller lines: one call/conc step removed; one condition (clause + its ret) removed; a conc step with one tuple less"""
    head, steps = split_line(op)
    if len(head) < 4:
        return []
    out = []
    ncalls = sum(1 for s in steps if s[0] in ('call', 'conc'))
    for i, s in enumerate(steps):
        if s[0] in ('call', 'conc') and ncalls > 1:
            out.append(join_line(head, steps[:i] + steps[i + 1:]))
        if s[0] == 'conc' and len(s) > 4:
            for j in range(2, len(s)):
                out.append(join_line(head, steps[:i] + [s[:j] + s[j + 1:]] + steps[i + 1:]))
        if s[0] in ('when', 'in') and i + 1 < len(steps) and steps[i + 1][0] == 'ret':
            rest = steps[:i] + steps[i + 2:]
            if any(x[0] not in ('call', 'conc') for x in rest):
                out.append(join_line(head, rest))
        if s[0] == 'matches':
            out.append(join_line(head, steps[:i] + steps[i + 1:]))
    return [c for c in out if split_line(c)[1] and split_line(c)[1][0][0] not in ('call', 'conc')]


def shrink(op, key, binary):
    """greedy delta debugging on the implementation only (the oracle decides), at most 40 rounds"""
    what = None
    for _ in range(40):
        cands = variants(op)
        if not cands:
            break
        path = os.path.join(C.BUILD, 'c04-shrink.ops')
        open(path, 'w').write('\n'.join(cands) + '\n')
        impl, _ = run_impl(binary, path, os.path.join(C.BUILD, 'c04-shrink.impl'), len(cands))
        nxt = None
        for c, obs in zip(cands, impl):
            try:
                why = oracle(c, obs)
            except Exception:
                why = None
            if why and why[1] == key:
                nxt, what = c, why[0]
                break
        if nxt is None:
            break
        op = nxt
    return op, what


def run(tier):
    out = C.Outcome('C04', tier)
    rng = C.Rng(C.seed()).fork('C04')
    proof = C.prove('C04', leanchecker=(tier == 'thorough'))
    g = Gen(rng)
    exh = exhaustive_lane()
    lines = list(REGRESS) + exh
    per_target = 30 if tier == 'quick' else 2000
    for name in NAMES:                      # every corpus target gets its share, then a random mix
        for _ in range(per_target):
            lines.append(g.line(name))
    for _ in range(500 if tier == 'quick' else 50000):
        lines.append(g.line())
    nbig = 40 if tier == 'quick' else 2500
    for _ in range(nbig):                   # many conditions / alternatives / deep nesting / long tails
        lines.append(g.line(big=True))
    nwf = len(lines)
    for _ in range(400 if tier == 'quick' else 30000):
        lines.append(g.line(malformed=True))
    ops = lines
    impl, model, derr, deaths = execute(ops)

    for i, x in enumerate(impl):
        if x and (x.startswith('bad-') or 'probe-panic' in x):
            raise C.Infra(f'C04 probe cannot run line {i}: {ops[i]} -> {x}')
    stats, bad = {}, []
    for i, op in enumerate(ops):
        try:
            why = oracle(op, impl[i], stats)
        except Exception as e:          # a reader bug must not hide behind a pass
            raise C.Infra(f'C04 oracle cannot read line {i}: {op}: {e!r}')
        if why:
            bad.append((i, why))
    if not bad and any(x is None for x in impl):
        raise C.Infra(f'C04 probe produced no observation for {sum(1 for x in impl if x is None)} lines and none of them reproduces a crash')
    # floors: a lane that silently ran nothing is a machinery error, not a pass
    floors = {'matched-first': 200, 'matched-later': 100, 'default': 100, 'panic-no-suitable': 50,
              'ties(>=2 conditions hold)': 100, 'concurrent calls (goroutines)': 50}
    if not bad:
        for k, fl in floors.items():
            if stats.get(k, 0) < fl:
                raise C.Infra(f'C04 lane floor not reached: {k} = {stats.get(k, 0)} < {fl} (generator or probe ran too little)')
        if sum(1 for x in impl if x and 'ret:' in x) < len(ops) // 3:
            raise C.Infra('C04: fewer than a third of the lines produced any result: the probe did not run properly')
    seen = set()
    for i, (what, key, si) in bad:
        # one report per known-finding key, or per kind of failure (which step kind failed, and how)
        head, steps = split_line(ops[i])
        toks = (impl[i] or '').split()
        sig = key or (steps[si][0] if si is not None and si < len(steps) else '?',
                      toks[si].split('(')[0].rstrip('0123456789') if si is not None and si < len(toks) else 'none')
        if sig in seen:
            continue
        seen.add(sig)
        small = ops[i]
        try:
            if impl[i] != 'crash':
                small, what2 = shrink(ops[i], key, build_probe())
                what = what2 or what
        except Exception:       # the shrinker is a convenience; a failure to shrink must never hide the violation
            small = ops[i]
        _, _, _, name, mode = walk(ops[i])
        out.violation(f'{small}: {what}', {'kind': 'impl-oracle', 'ops': [small], 'original_op': ops[i], 'observed': impl[i], 'why': what,
                                           'finding': key or finding_label(name, mode, what),
                                           'n_lines_failing': len(bad), 'how': 'python3 check.py C04 --replay <this file>'}, key=key)
        if len(seen) >= 5:
            break
    diffs = C.diff_streams(ops, impl, model) if model is not None else []
    if model is None:
        proof['failed'].append(('goomdrv', 'driver does not build: ' + derr[-500:]))
    if not out.violations:      # known findings do not hide a broken correspondence or proof
        if diffs:
            i, op, a, b = diffs[0]
            out.violation(f'model and implementation disagree on `{op}`', {'kind': 'correspondence', 'ops': [op], 'impl': a, 'model': b,
                          'broken': 'correspondence Model/When.lean vs when.go/matcher.go/arg', 'n_disagreements_shown': len(diffs)},
                          no_failing_input=True)
        elif not proof['ok']:
            out.violation('proof obligations of Props/C04.lean no longer check and no failing input was found in the search',
                          {'kind': 'proof', 'broken': proof['failed'], 'searched': len(ops), 'output': proof.get('output', '')[-3000:]},
                          no_failing_input=True)
    shapes, modes, ncalls, nwfl = {}, {}, 0, 0
    for op in ops:
        head, steps = split_line(op)
        k, v, m, o = T[head[2]]
        s = {0: '', 1: 'method ', 2: 'As()-method '}[m] + (f'variadic+{len(k) - 1}fixed' if v else f'fixed{len(k)}') + f' out{o}'
        shapes[s] = shapes.get(s, 0) + 1
        md = head[1] + ('+shared-exprs' if len(head) > 4 and 's' in head[4] else '') + ('+debug' if len(head) > 4 and 'd' in head[4] else '')
        modes[md] = modes.get(md, 0) + 1
        ncalls += sum(1 if st[0] == 'call' else len(st) - 2 if st[0] == 'conc' else 0 for st in steps)
    nontrivial = len({(op, impl[i]) for i, op in enumerate(ops) if impl[i] and 'ret:' in impl[i]})
    out.coverage = {
        'obligations': proof['obligations'], 'discharged': proof['discharged'],
        'checker_cmd': ' ; '.join(proof['cmds']),
        'trusted_base': ['Lean 4.33 kernel', 'axioms: ' + ', '.join(sorted({a for v in proof['axioms'].values() for a in v}) or ['none']),
                         'hand transcription Model/When.lean (differentially run against the real code on every line below)',
                         'probe harness/c04 and its value domains (pairwise different under goom equality; slices are windows of one backing array)',
                         'not modelled: value types/sizes (arg.toValue), the equality algebra (C18), multi-result cursors under concurrency (C05), reflect.MakeFunc ABI (C01); '
                         'concurrent calls are compared with the sequential answer per goroutine'],
        'theorems': proof['axioms'], 'proof_failures': proof['failed'],
        'evaluations': ncalls, 'distinct_nontrivial': nontrivial,
        'traces_validated_against_impl': len(ops) - len(diffs),
        'rule': 'one evaluation = one call (reflect call of the patched function, compiled call site, When.Eval, or one goroutine of a concurrent step) under the '
                'configuration registered so far; one line = a history of registrations interleaved with calls; '
                'non-trivial = distinct line on which at least one call returned a configured result',
        'distribution': {'lines': len(ops), 'regress corpus': len(REGRESS), 'exhaustive small lane': len(exh), 'well-formed lanes': nwf,
                         'big lane (17-40 conditions, <=8 alternatives, nesting <=4, tails <=8)': nbig,
                         'malformed lane': len(ops) - nwf, 'corpus targets': len(NAMES),
                         'modes': modes, 'signature shapes': shapes, 'generated': g.dist,
                         'outcomes on oracle-checked calls': stats, 'probe process deaths': deaths},
        'samples': [{'op': ops[i], 'impl': impl[i], 'model': model[i] if model else None} for i in (0, len(ops) // 3, len(ops) // 2, len(ops) - 1)],
    }
    out.assumptions = ['argument equality of the probe domains coincides with index equality (checked implicitly by the oracle on every call)',
                       'reflect.Value.Call enters the same patched entry point as a direct call (compiled call sites are exercised for 17 targets)']
    return out.finish()


def replay(body):
    ops = body.get('ops', [])
    impl, model, _, _ = execute(ops, tag='c04-replay')
    rc = 0
    for i, op in enumerate(ops):
        why = oracle(op, impl[i])
        print(f'{op}\n  impl : {impl[i]}\n  model: {model[i] if model else None}\n  oracle: {why[0] if why else "ok"}')
        if (why and why[1] is None) or (model and impl[i] != model[i]):
            rc = 1
    return rc
