"""C04 — conditional stubs select results by the first matching condition, else the default, else panic.

Proof: Props/C04.lean states, over the hand-written transcription Model/When.lean of when.go / matcher.go /
arg/expr.go / arg/value.go / mocker.go:callback, that for every signature shape, every well-formed configuration and
every argument tuple `invoke` returns the result of the first registered condition that holds (declarative `Sat`),
else the default, else panics `nosuitable` (NumOut > 0) / returns nothing (NumOut = 0); receiver ignored; variadic
tail matched element-wise.  Tie X: an in-package probe of the root package installs generated configurations on a
corpus of 34 real functions/methods (fixed arity 0..4, variadic behind 0..3 fixed parameters, pointer and value
receivers, 0..3 results), calls the *patched* functions and When.Eval, and the model driver answers the same lines.
The oracle below is a separate reference interpreter of the documented rule applied to the implementation's output.
"""
import os

from vlib import common as C

META = {
    'property_id': 'C04',
    'technique': 'Lean 4 theorems (induction over configurations, expression trees and argument tuples) about a transcription of When/Matcher/Expr + differential run of generated configurations on 34 really patched corpus functions and When.Eval',
    'level': 'proof',
    'level_text': 'Full proof on the model: for every signature (fixed arity, variadic behind k >= 0 fixed parameters, methods), every well-formed configuration (optional default, then any number of When/In clauses over values, Any, nested In) and every argument tuple, invoke returns the result of the first registered condition whose expressions all hold, else the default, else panics "no suitable condition" when the function has results (returns normally when it has none); the receiver is ignored and the variadic tail is matched element by element.',
    'level_note': 'Trusted: Lean kernel (propext, Classical.choice, Quot.sound), the hand transcription Model/When.lean (tied by the differential run on every check run; distribution in the evidence), the probe and its value domains. Abstracted: argument equality is a parameter (C18), result sequences/cursor only for single-result matchers (C05), types of values (only arities), reflect.MakeFunc/Call ABI (C01). The theorems describe the repaired matching code (fixes/F6.diff incl. F6b, fixes/F6c.diff); on the unrepaired code the oracle reports the violations. One configuration shape is excluded by an explicit hypothesis (known finding C04-K1: a configuration starting with When() without arguments; full statement invoke_spec_full is refuted in Findings/C04K1.lean).',
}

# name -> (parameter kinds without receiver, variadic, method, results)
T = {
    'f0': ([], 0, 0, 1), 'f1': (['int'], 0, 0, 1), 'f2': (['int', 'string'], 0, 0, 1), 'f3': (['int', 'string', 'bool'], 0, 0, 2),
    'f1s': (['string'], 0, 0, 3), 'f1i': (['iface'], 0, 0, 1), 'f2p': (['ptr', 'int'], 0, 0, 1), 'f1t': (['struct'], 0, 0, 1),
    'f1sl': (['slice'], 0, 0, 1), 'f1n': (['int'], 0, 0, 0), 'f2n': (['int', 'int'], 0, 0, 0), 'f4': (['int'] * 4, 0, 0, 1),
    'f2b': (['bool', 'bool'], 0, 0, 2),
    'v0': (['int'], 1, 0, 1), 'v0s': (['string'], 1, 0, 2), 'v1': (['int', 'int'], 1, 0, 1), 'v1s': (['string', 'int'], 1, 0, 1),
    'v2': (['int', 'string', 'int'], 1, 0, 1), 'v2b': (['bool', 'int', 'string'], 1, 0, 3), 'v0i': (['iface'], 1, 0, 1),
    'v1n': (['int', 'int'], 1, 0, 0), 'v1sl': (['slice', 'int'], 1, 0, 1), 'v3': (['int'] * 4, 1, 0, 1), 'v1i': (['iface', 'iface'], 1, 0, 1),
    'M0': ([], 0, 1, 1), 'M1': (['int'], 0, 1, 1), 'M2': (['int', 'string'], 0, 1, 2), 'M3': (['int', 'iface', 'bool'], 0, 1, 1),
    'MN': (['int'], 0, 1, 0), 'MV': (['int'], 1, 1, 1), 'MV1': (['int', 'int'], 1, 1, 1), 'MV2': (['string', 'int', 'string'], 1, 1, 2),
    'V1': (['int'], 0, 1, 1), 'VV': (['int', 'int'], 1, 1, 1),
}
DOM = {'int': '0123', 'string': '0123', 'bool': '01', 'iface': '0123n', 'ptr': '01n', 'struct': '0123', 'slice': '0123n'}
NAMES = sorted(T)
PROBE_FILES = {'zz_verif_c04_corpus_test.go': 'c04/corpus_test.go', 'zz_verif_c04_probe_test.go': 'c04/probe_test.go'}


def sig_of(name):
    k, v, m, o = T[name]
    return f'n={len(k)},v={v},m={m},o={o}'


def kind_at(name, j):
    k, v, _, _ = T[name]
    if not k:
        return 'int'
    return k[min(j, len(k) - 1)]


# ------------------------------------------------------------------ spec terms: ('*',) | ('v', idx) | ('i', [(is_tuple, [spec..])..])

def show_spec(s):
    if s[0] == '*':
        return '*'
    if s[0] == 'v':
        return s[1]
    return '{' + '|'.join(('[' + ','.join(show_spec(e) for e in a) + ']') if tup else show_spec(a[0]) for tup, a in s[1]) + '}'


def sat(s, x):
    """the documented meaning: plain values by equality, Any always, In by membership"""
    if s[0] == '*':
        return True
    if s[0] == 'v':
        return s[1] == x
    return any(len(a) == 1 and sat(a[0], x) for _, a in s[1])


def sat_tuple(specs, xs):
    return len(specs) == len(xs) and all(sat(s, x) for s, x in zip(specs, xs))


def cond_holds(cond, xs):
    if cond[0] == 'when':
        return sat_tuple(cond[1], xs)
    return any(sat_tuple(a, xs) for a in cond[1])    # 'in': alternatives already as tuples of specs


class Gen:
    def __init__(self, rng):
        self.r = rng
        self.dist = {}

    def count(self, k, n=1):
        self.dist[k] = self.dist.get(k, 0) + n

    def val(self, kind, narrow):
        d = DOM[kind]
        if narrow and len(d) > 2:
            d = d[:2] + (d[-1] if d[-1] == 'n' and self.r.chance(1, 4) else '')
        return self.r.choice(d)

    def spec(self, kind, depth=0):
        p = self.r.below(100)
        if p < 55 or depth >= 2 and p < 80:
            self.count('spec.value')
            return ('v', self.val(kind, self.r.chance(3, 4)))
        if p < 75 or depth >= 2:
            self.count('spec.any')
            return ('*',)
        self.count('spec.in' if depth == 0 else 'spec.in.nested')
        alts = []
        for _ in range(1 + self.r.below(3)):
            alts.append((self.r.chance(1, 3), [self.spec(kind, depth + 1)]))
        return ('i', alts)

    def arity(self, name, first_when=False):
        k, v, _, _ = T[name]
        if not v:
            return len(k)
        t = self.r.below(4)
        if first_when and t == 0 and not self.r.chance(1, 10):
            t = 1
        return len(k) - 1 + t

    def specs(self, name, n):
        return [self.spec(kind_at(name, j)) for j in range(n)]

    def config(self, name, malformed):
        """returns (clauses as strings, structured view or None when not in the well-formed language)"""
        k, v, m, o = T[name]
        clauses, conds, dflt, wf = [], [], None, True
        rid = 1
        if self.r.chance(7, 10):
            dflt = 0
            clauses.append('ret 0')
        ncond = self.r.choice([0, 1, 1, 2, 2, 3, 3, 4, 5, 6])
        if dflt is None and ncond == 0:
            ncond = 1
        for ci in range(ncond):
            first = not clauses
            if self.r.chance(6, 10) or (first and len(k) == 0):
                n = self.arity(name, first_when=first)
                if malformed and self.r.chance(1, 4):
                    n = max(0, n + self.r.choice([-1, 1, 2]))
                    wf = False
                sp = self.specs(name, n)
                if n == 0:
                    clauses.append('when -')
                else:
                    clauses.append('when ' + ','.join(show_spec(s) for s in sp))
                cond = ('when', sp)
                self.count('clause.when')
            else:
                alts, toks = [], []
                for ai in range(1 + self.r.below(3)):
                    n = self.arity(name)
                    form = self.r.below(10)
                    if malformed and self.r.chance(1, 4):
                        wf = False
                        if self.r.chance(1, 2):
                            n = max(0, n + self.r.choice([-1, 1]))
                        else:
                            form = 9   # bare where goom wants something else
                    if v and len(k) == 1 and form < 4:
                        vs = [self.val(k[0], True) for _ in range(n)]
                        vs = [x for x in vs if x != 'n']
                        toks.append('<' + ','.join(vs) + '>')
                        alts.append([('v', x) for x in vs])
                        self.count('in.alt.typed-slice')
                    elif (not v and len(k) == 1 and form < 5) or form == 9:
                        s = self.spec(kind_at(name, 0))
                        if v and kind_at(name, 0) in ('string', 'slice', 'iface'):
                            s = ('*',)   # a bare string/slice would be expanded by reflection into bytes/elements: types are not modelled
                        toks.append(show_spec(s))
                        alts.append([s])
                        self.count('in.alt.bare')
                        if v or len(k) != 1:
                            wf = False
                    else:
                        sp = self.specs(name, n)
                        toks.append('[' + ','.join(show_spec(s) for s in sp) + ']')
                        alts.append(sp)
                        self.count('in.alt.tuple')
                clauses.append('in ' + ' '.join(toks))
                cond = ('in', alts)
                self.count('clause.in')
            clauses.append(f'ret {rid}')
            conds.append((cond, rid))
            rid += 1
            if o >= 1 and self.r.chance(1, 8):      # Matches(Pair{args, k}, ...) = one When(args).Return(k) per pair
                prs = []
                for _ in range(1 + self.r.below(2)):
                    n = self.arity(name)
                    sp = self.specs(name, n)
                    prs.append(f'[{",".join(show_spec(s) for s in sp)}]={rid}')
                    conds.append((('when', sp), rid))
                    rid += 1
                clauses.append('matches ' + ' '.join(prs))
                self.count('clause.matches')
            if malformed and self.r.chance(1, 5):
                wf = False
                extra = self.r.below(5)
                if extra == 0:
                    clauses.append(f'andret {rid}')
                elif extra == 1:
                    clauses.append(f'ret {rid}')
                elif extra == 2 and o >= 1:
                    clauses.append(f'returns {rid} {rid + 1}')
                elif extra == 3 and o >= 1:
                    n = self.arity(name)
                    sp = self.specs(name, n)
                    clauses.append(f'matches [{",".join(show_spec(s) for s in sp)}]={rid}')
                else:
                    clauses.append(f'retx {rid} {self.r.below(4)}')
                rid += 2
                self.count('clause.malformed-extra')
        return clauses, ({'dflt': dflt, 'conds': conds} if wf else None)

    def instance(self, name, cond):
        """an argument tuple that satisfies (or nearly satisfies) a condition"""
        specs = cond[1] if cond[0] == 'when' else self.r.choice(cond[1])
        xs = []
        for j, s in enumerate(specs):
            kind = kind_at(name, j)
            while s[0] == 'i':
                s = self.r.choice(s[1])[1][0]
            xs.append(s[1] if s[0] == 'v' and not self.r.chance(1, 8) else self.val(kind, True))
        return xs

    def call(self, name, view, conds_hint):
        k, v, m, o = T[name]
        if conds_hint and self.r.chance(6, 10):
            xs = self.instance(name, self.r.choice(conds_hint)[0])
            nmin = len(k) - 1 if v else len(k)
            if len(xs) < nmin or (not v and len(xs) != len(k)):
                xs = None
        else:
            xs = None
        if xs is None:
            n = len(k) - 1 + self.r.below(4) if v else len(k)
            xs = [self.val(kind_at(name, j), self.r.chance(2, 3)) for j in range(n)]
        # nil is not a legal element of a typed variadic tail of ints/strings; domains allow it only where Go does
        recv = str(self.r.below(2)) if m else '-'
        return recv, xs

    def line(self, name=None, malformed=False):
        name = name or self.r.choice(NAMES)
        clauses, view = self.config(name, malformed)
        p = self.r.below(100)
        mode = 'call' if p < 60 else 'callm' if p < 75 else 'eval'
        hint = view['conds'] if view else None
        calls = [self.call(name, view, hint) for _ in range(8)]
        text = f'c04 {mode} {name} {sig_of(name)} | ' + ' ; '.join(clauses) + ' | ' + \
               ' ; '.join(f'call {r} {",".join(xs) if xs else "-"}' for r, xs in calls)
        return text, {'name': name, 'mode': mode, 'view': view, 'calls': calls, 'nclauses': len(clauses)}


REGRESS = [  # past failures / the documented defect inputs, run first
    ('c04 call v2 n=3,v=1,m=0,o=1 | ret 0 ; when 1,1,2,3 ; ret 1 | call - 1,1,2,3 ; call - 1,1 ; call - 1,1,2',
     {'name': 'v2', 'mode': 'call', 'nclauses': 3, 'view': {'dflt': 0, 'conds': [(('when', [('v', '1'), ('v', '1'), ('v', '2'), ('v', '3')]), 1)]},
      'calls': [('-', ['1', '1', '2', '3']), ('-', ['1', '1']), ('-', ['1', '1', '2'])]}),
    ('c04 call v1s n=2,v=1,m=0,o=1 | ret 0 ; when 1,2 ; ret 1 | call - 1,2 ; call - 3',
     {'name': 'v1s', 'mode': 'call', 'nclauses': 3, 'view': {'dflt': 0, 'conds': [(('when', [('v', '1'), ('v', '2')]), 1)]},
      'calls': [('-', ['1', '2']), ('-', ['3'])]}),
    ('c04 call v1 n=2,v=1,m=0,o=1 | ret 0 ; in [1,2] [2] ; ret 1 | call - 1,2 ; call - 2 ; call - 1',
     {'name': 'v1', 'mode': 'call', 'nclauses': 3, 'view': {'dflt': 0, 'conds': [(('in', [[('v', '1'), ('v', '2')], [('v', '2')]]), 1)]},
      'calls': [('-', ['1', '2']), ('-', ['2']), ('-', ['1'])]}),
    ('c04 call v0 n=1,v=1,m=0,o=1 | ret 0 ; in [1,2] [3] ; ret 1 | call - 3 ; call - 1,2',
     {'name': 'v0', 'mode': 'call', 'nclauses': 3, 'view': {'dflt': 0, 'conds': [(('in', [[('v', '1'), ('v', '2')], [('v', '3')]]), 1)]},
      'calls': [('-', ['3']), ('-', ['1', '2'])]}),
    ('c04 eval M1 n=1,v=0,m=1,o=1 | ret 0 ; when 1 ; ret 1 | call 0 1 ; call 1 0',
     {'name': 'M1', 'mode': 'eval', 'nclauses': 3, 'view': {'dflt': 0, 'conds': [(('when', [('v', '1')]), 1)]},
      'calls': [('0', ['1']), ('1', ['0'])]}),
    ('c04 eval v0 n=1,v=1,m=0,o=1 | ret 0 ; when 1,2 ; ret 1 | call - 1,2 ; call - -',
     {'name': 'v0', 'mode': 'eval', 'nclauses': 3, 'view': {'dflt': 0, 'conds': [(('when', [('v', '1'), ('v', '2')]), 1)]},
      'calls': [('-', ['1', '2']), ('-', [])]}),
]


def exhaustive_lane():
    """every single-condition When over {0,1,*} per position x every call over {0,1}, tails up to 2, with and without default"""
    import itertools
    lines = []
    for name in ('f1', 'f2', 'f2b', 'v0', 'v1', 'v2', 'M1', 'M2', 'MV', 'MV1', 'VV'):
        k, v, m, o = T[name]
        arities = [len(k) - 1 + t for t in range(3)] if v else [len(k)]
        calls = []
        for n in arities:
            for xs in itertools.product('01', repeat=n):
                calls.append(('0' if m else '-', list(xs)))
        for n in arities:
            if n == 0:
                continue
            for sp in itertools.product('01*', repeat=n):
                specs = [('*',) if c == '*' else ('v', c) for c in sp]
                for dflt in (0, None):
                    if dflt is None and v and n < len(k):
                        continue        # a first When must cover every parameter (checkParams)
                    clauses = (['ret 0'] if dflt is not None else []) + ['when ' + ','.join(sp), 'ret 1']
                    text = f'c04 call {name} {sig_of(name)} | ' + ' ; '.join(clauses) + ' | ' + \
                           ' ; '.join(f'call {r} {",".join(xs) if xs else "-"}' for r, xs in calls)
                    lines.append((text, {'name': name, 'mode': 'call', 'view': {'dflt': dflt, 'conds': [(('when', specs), 1)]},
                                         'calls': calls, 'nclauses': len(clauses)}))
    return lines


def finding_key(info, what):
    k, v, m, o = T[info['name']]
    view = info.get('view')
    if view and view['dflt'] is None and view['conds'] and view['conds'][0][0] == ('when', []):
        return 'K1-first-when-without-args'
    if info['mode'] == 'eval' and (v or m):
        return 'F6c-eval-shape'
    if v and len(k) >= 2:
        return 'F6-variadic-fixed-params'
    if v:
        return 'F6b-in-alternative-length'
    return None


def oracle(info, obs, stats=None):
    """The property on the implementation's observation. Returns None or (what, key)."""
    if obs is None:
        return ('no observation (probe crashed on this line)', None)
    toks = obs.split()
    view = info['view']
    if view is None:
        return None
    nc = info['nclauses']
    reg = toks[:nc]
    if 'stop' in toks or any(t != 'ok' for t in reg):
        bad = next((t for t in toks if t.startswith('panic:')), '?')
        if bad in ('panic:arglen', 'panic:retlen', 'panic:whenerr', 'panic:inerr', 'panic:reterr'):
            if stats is not None:
                stats['rejected-at-registration'] = stats.get('rejected-at-registration', 0) + 1
            return None    # an explicit rejection of the configuration, not a wrong answer
        return (f'well-formed configuration is not accepted: {bad} while registering', finding_key(info, bad))
    outs = toks[nc:]
    k, v, m, o = T[info['name']]
    if len(outs) != len(info['calls']):
        return (f'{len(outs)} observations for {len(info["calls"])} calls: {obs}', None)
    for (recv, xs), got in zip(info['calls'], outs):
        holding = [r for c, r in view['conds'] if cond_holds(c, xs)]
        if holding:
            want = f'ret:{holding[0]}'
            cls = 'matched-first' if view['conds'][0][1] == holding[0] else 'matched-later'
        elif view['dflt'] is not None:
            want, cls = f'ret:{view["dflt"]}', 'default'
        elif o > 0:
            want, cls = 'panic:nosuitable', 'panic-no-suitable'
        else:
            want, cls = 'ret:-', 'no-results-no-default'
        if o == 0 and want.startswith('ret:'):
            want = 'ret:-'
        if stats is not None:
            stats[cls] = stats.get(cls, 0) + 1
            if len(holding) >= 2:
                stats['ties(>=2 conditions hold)'] = stats.get('ties(>=2 conditions hold)', 0) + 1
        if got != want:
            key = finding_key(info, got)
            if key == 'K1-first-when-without-args':
                # narrow match: exactly what "the first Return became the default" predicts, nothing else
                later = [r for c, r in view['conds'][1:] if cond_holds(c, xs)]
                k1 = f'ret:{later[0]}' if later else f'ret:{view["conds"][0][1]}'
                if o == 0:
                    k1 = 'ret:-'
                if got != k1:
                    key = None
            return (f'call({",".join(xs) or "-"}) gave {got}, the first matching condition/default rule demands {want}', key)
    return None


def build_probe():
    fm = {k: os.path.join(C.HARNESS, v) for k, v in PROBE_FILES.items()}
    b, err = C.overlay_build('c04', '', fm, C.helper_pkgs())
    if b is None:
        raise C.Infra('C04 probe does not build against the current tree:\n' + err[-3000:])
    return b


def run_impl(binary, ops_path, out_path, n):
    """Run the probe; a crash (patched code) loses only the crashing line, the run resumes behind it."""
    impl = [None] * n
    start, crashes = 0, 0
    while start < n:
        rc, log = C.run_probe(binary, 'TestVerifC04', ops_path, out_path, env={'VERIF_START': str(start)}, timeout=1500)
        got = C.read_indexed(out_path, n)
        last = -1
        for i, v in enumerate(got):
            if v is not None:
                impl[i] = v
                last = max(last, i)
        if rc == 0:
            break
        crashes += 1
        nxt = max(last, start - 1) + 1
        impl[nxt] = 'crash'
        start = nxt + 1
        if crashes > 50:
            raise C.Infra('C04 probe keeps crashing:\n' + log[-2000:])
    return impl, crashes


def execute(ops, tag='c04'):
    ops_path = os.path.join(C.BUILD, f'{tag}.ops')
    open(ops_path, 'w').write('\n'.join(ops) + '\n')
    b = build_probe()
    impl, crashes = run_impl(b, ops_path, os.path.join(C.BUILD, f'{tag}.impl'), len(ops))
    exe, err = C.build_driver()
    if exe is None:
        return impl, None, err, crashes
    model = C.run_driver(exe, ops_path, os.path.join(C.BUILD, f'{tag}.model'))
    return impl, model, '', crashes


def variants(op):
    """smaller lines: a single call; one condition (clause + its ret) removed"""
    parts = [x.strip() for x in op.split(' | ')]     # sections are separated by ' | '; a bare '|' belongs to an In expression
    if len(parts) != 3:
        return []      # a value containing '|' (or a malformed line): do not shrink
    head, cl, ca = parts
    clauses = [c.strip() for c in cl.split(';') if c.strip()]
    calls = [c.strip() for c in ca.split(';') if c.strip()]
    out = []
    if len(calls) > 1:
        for c in calls:
            out.append(f'{head} | {" ; ".join(clauses)} | {c}')
    for i in range(len(clauses) - 1):
        if clauses[i].split()[0] in ('when', 'in') and clauses[i + 1].startswith('ret ') and len(clauses) > 2:
            rest = clauses[:i] + clauses[i + 2:]
            out.append(f'{head} | {" ; ".join(rest)} | {" ; ".join(calls)}')
    return out


def shrink(op, key, binary):
    """greedy delta debugging on the implementation only (the oracle decides), at most 12 rounds"""
    what = None
    for _ in range(12):
        cands = variants(op)
        if not cands:
            break
        path = os.path.join(C.BUILD, 'c04-shrink.ops')
        open(path, 'w').write('\n'.join(cands) + '\n')
        impl, _ = run_impl(binary, path, os.path.join(C.BUILD, 'c04-shrink.impl'), len(cands))
        nxt = None
        for c, obs in zip(cands, impl):
            try:
                why = oracle(parse_line(c), obs)
            except Exception:
                why = None
            if why and why[1] == key:
                nxt, what = c, why[0]
                break
        if nxt is None:
            break
        op = nxt
    return op, what


def run(tier):
    out = C.Outcome('C04', tier)
    rng = C.Rng(C.seed()).fork('C04')
    proof = C.prove('C04', leanchecker=(tier == 'thorough'))
    g = Gen(rng)
    lines = list(REGRESS) + exhaustive_lane()
    nexh = len(lines) - len(REGRESS)
    per_target = 40 if tier == 'quick' else 3000
    for name in NAMES:                      # every corpus target gets its share, then a random mix
        for _ in range(per_target):
            lines.append(g.line(name))
    for _ in range(600 if tier == 'quick' else 60000):
        lines.append(g.line())
    nwf = len(lines)
    for _ in range(400 if tier == 'quick' else 30000):
        lines.append(g.line(malformed=True))
    ops = [l for l, _ in lines]
    infos = [i for _, i in lines]
    impl, model, derr, crashes = execute(ops)

    stats, bad = {}, []
    for i, info in enumerate(infos):
        why = oracle(info, impl[i], stats)
        if why:
            bad.append((i, why))
    seen = set()
    for i, (what, key) in bad:
        if key in seen:
            continue
        seen.add(key)
        try:
            small, what2 = shrink(ops[i], key, build_probe()) if impl[i] != 'crash' else (ops[i], None)
            what = what2 or what
        except Exception:       # the shrinker is a convenience; a failure to shrink must never hide the violation
            small = ops[i]
        out.violation(f'{small}: {what}', {'kind': 'impl-oracle', 'ops': [small], 'original_op': ops[i], 'observed': impl[i], 'why': what, 'finding': key,
                                           'n_lines_failing': len(bad), 'how': 'python3 check.py C04 --replay <this file>'}, key=key)
        if len(seen) >= 4:
            break
    diffs = C.diff_streams(ops, impl, model) if model is not None else []
    if model is None:
        proof['failed'].append(('goomdrv', 'driver does not build: ' + derr[-500:]))
    if not out.violations:      # known findings do not hide a broken correspondence or proof
        if diffs:
            i, op, a, b = diffs[0]
            out.violation(f'model and implementation disagree on `{op}`', {'kind': 'correspondence', 'ops': [op], 'impl': a, 'model': b,
                          'broken': 'correspondence Model/When.lean vs when.go/matcher.go/arg', 'n_disagreements_shown': len(diffs)},
                          no_failing_input=True)
        elif not proof['ok']:
            out.violation('proof obligations of Props/C04.lean no longer check and no failing input was found in the search',
                          {'kind': 'proof', 'broken': proof['failed'], 'searched': len(ops), 'output': proof.get('output', '')[-3000:]},
                          no_failing_input=True)
    shapes = {}
    for info in infos:
        k, v, m, o = T[info['name']]
        s = ('method ' if m else '') + (f'variadic+{len(k) - 1}fixed' if v else f'fixed{len(k)}') + f' out{o}'
        shapes[s] = shapes.get(s, 0) + 1
    modes = {}
    for info in infos:
        modes[info['mode']] = modes.get(info['mode'], 0) + 1
    ncalls = sum(len(i['calls']) for i in infos)
    nontrivial = len({(op, impl[i]) for i, op in enumerate(ops) if impl[i] and 'ret:' in impl[i]})
    out.coverage = {
        'obligations': proof['obligations'], 'discharged': proof['discharged'],
        'checker_cmd': ' ; '.join(proof['cmds']),
        'trusted_base': ['Lean 4.33 kernel', 'axioms: ' + ', '.join(sorted({a for v in proof['axioms'].values() for a in v}) or ['none']),
                         'hand transcription Model/When.lean (differentially run against the real code on every line below)',
                         'probe harness/c04 and its value domains (pairwise different under goom equality)',
                         'not modelled: value types/sizes (arg.toValue), the equality algebra (C18), multi-result cursors under concurrency (C05), reflect.MakeFunc ABI (C01)'],
        'theorems': proof['axioms'], 'proof_failures': proof['failed'],
        'evaluations': ncalls, 'distinct_nontrivial': nontrivial,
        'traces_validated_against_impl': len(ops) - len(diffs),
        'rule': 'one evaluation = one call (through the patched function or When.Eval) under one generated configuration; one line = configuration + 8 calls; '
                'non-trivial = distinct line on which at least one call returned a configured result',
        'distribution': {'lines': len(ops), 'regress corpus': len(REGRESS), 'exhaustive small lane': nexh, 'well-formed lane': nwf, 'malformed lane': len(ops) - nwf, 'corpus targets': len(NAMES),
                         'modes': modes, 'signature shapes': shapes, 'generated': g.dist,
                         'outcomes on oracle-checked calls': stats, 'probe crashes': crashes},
        'samples': [{'op': ops[i], 'impl': impl[i], 'model': model[i] if model else None} for i in (0, len(ops) // 3, len(ops) // 2, len(ops) - 1)],
    }
    out.assumptions = ['argument equality of the probe domains coincides with index equality (checked implicitly by the oracle on every call)',
                       'reflect.Value.Call enters the same patched entry point as a direct call']
    return out.finish()


def parse_line(op):
    """rebuild the oracle's view from an op line (replay)"""
    secs = [s.strip() for s in op.split(' | ')]
    head = secs[0].split()
    name, mode = head[2], head[1]
    clauses = [c.strip() for c in secs[1].split(';') if c.strip()]

    def pspec(s, pos):
        ch = s[pos]
        if ch == '*':
            return ('*',), pos + 1
        if ch == '{':
            alts, pos = [], pos + 1
            while True:
                if s[pos] == '[':
                    xs, pos = plist(s, pos + 1, ']')
                    alts.append((True, xs))
                else:
                    x, pos = pspec(s, pos)
                    alts.append((False, [x]))
                if s[pos] == '|':
                    pos += 1
                    continue
                break
            return ('i', alts), pos + 1
        return ('v', ch), pos + 1

    def plist(s, pos, end):
        xs = []
        if s[pos] == end:
            return xs, pos + 1
        while True:
            x, pos = pspec(s, pos)
            xs.append(x)
            if pos < len(s) and s[pos] == ',':
                pos += 1
                continue
            break
        return xs, pos + 1

    view = {'dflt': None, 'conds': []}
    i, wf = 0, True
    if clauses and clauses[0].startswith('ret '):
        view['dflt'] = int(clauses[0].split()[1])
        i = 1
    while i < len(clauses) and wf:
        c = clauses[i].split()
        if c[0] == 'matches' and i > 0 and T[name][3] >= 1:      # one When(args).Return(k) per pair
            for pr in c[1:]:
                a, _, kk = pr.rpartition('=')
                if not a.startswith('['):
                    wf = False
                    break
                view['conds'].append((('when', plist(a, 1, ']')[0]), int(kk)))
            i += 1
            continue
        if i + 1 >= len(clauses) or not clauses[i + 1].startswith('ret '):
            wf = False
            break
        rid = int(clauses[i + 1].split()[1])
        if c[0] == 'when':
            if c[1] == '-':
                sp = []
            else:
                sp, _ = plist(c[1] + ']', 0, ']')
            view['conds'].append((('when', sp), rid))
        elif c[0] == 'in':
            alts = []
            for a in c[1:]:
                if a.startswith('<'):
                    alts.append([('v', x) for x in a[1:-1].split(',') if x])
                elif a.startswith('['):
                    alts.append(plist(a, 1, ']')[0])
                else:
                    alts.append([pspec(a, 0)[0]])
                    k, v, m, o = T[name]
                    if v or len(k) != 1:
                        wf = False
            view['conds'].append((('in', alts), rid))
        else:
            wf = False
        i += 2
    calls = []
    for c in [c.strip() for c in secs[2].split(';') if c.strip()]:
        t = c.split()
        calls.append((t[1], [] if t[2] == '-' else t[2].split(',')))
    return {'name': name, 'mode': mode, 'view': view if wf else None, 'calls': calls, 'nclauses': len(clauses)}


def replay(body):
    ops = body.get('ops', [])
    impl, model, _, _ = execute(ops, tag='c04-replay')
    rc = 0
    for i, op in enumerate(ops):
        why = oracle(parse_line(op), impl[i])
        print(f'{op}\n  impl : {impl[i]}\n  model: {model[i] if model else None}\n  oracle: {why[0] if why else "ok"}')
        if why or (model and impl[i] != model[i]):
            rc = 1
    return rc
