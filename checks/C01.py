"""C01 — a mocked function runs the replacement with exact arguments and results (across GC and stack growth).

Proof part (Props/C01.lean, on Model/C01Dispatch.lean + the regenerated emitter Gen/JmpAmd64.lean): which code a call of a
patched function reaches and with which closure context; the retention invariant of the `patches` map over all histories
of patch/unpatch/collect operations; Return/When install `baseMocker.callback` through reflect.MakeFunc.
Tie: translator for the emitted bytes; correspondence for the patch table (in-package probe of internal/patch replaying
patch-layer histories against the real text segment and `patches` map) and for the mocker layer (external probe).

Observation part — THE BULK OF THIS PROPERTY'S EVIDENCE, NOT A PROOF: a generated corpus of ~200 signatures covering the
Go ABI classification space is mocked through goom's public API and called in every call form with random values; the
callback records its arguments bit-exactly and returns random results; repeated after runtime.GC() x3 with heap churn
(builders dropped, closures poisoned on reuse, finalizers observe collection) and with forced stack growth.
The model cannot exhibit register assignment, reflect.makeFuncStub or stack copying; they are observed only.
"""
import importlib.util
import json
import os
import subprocess

from vlib import common as C

META = {
    'property_id': 'C01',
    'technique': 'Lean 4 theorems about a transcribed model of the patch table / guards / func-value heap composed with the '
                 'regenerated entry-jump emitter and the mini ISA (dispatch, closure context, retention across all histories and '
                 'collections), tied by translator + differential replay of patch-layer and mocker-layer histories on the real '
                 'code; the ABI/GC/stack-growth clauses are observed on a generated signature corpus (bulk of the evidence)',
    'level': 'proof',
    'level_text': 'Partial. Proved (kernel-checked, all histories, all addresses): a call through the 13 emitted entry bytes is a Go '
                  'closure call of the func value whose address bytecode.GetPtr yields (RIP=[to], RDX=to, nothing else changed); in '
                  'every state reachable by replaceFunc/Guard.Apply/Unpatch/unpatchValue/UnpatchAll and worst-case collections, a '
                  'non-pristine entry is exactly the jump to the replacement held by the global patches map, which is therefore '
                  'live (never a wild jump); the mock keeps dispatching to the same closure until an operation on that function; '
                  'Return/When install baseMocker.callback via reflect.MakeFunc (afresh after an Apply on the same mocker), exact-value rules are judged on the arguments of the call at hand, first match wins. NOT proved, only observed on the corpus: that the '
                  'Go ABI delivers every argument/result class unchanged through the jump and through reflect.makeFuncStub, and '
                  'that stack copying and the real collector preserve this.',
    'level_note': 'Trusted: Lean kernel (propext, Classical.choice, Quot.sound), tools/gen translator, mini ISA X86Mini (both '
                  'cross-checked by C15), the hand model of patch.go/guard.go/monkey.go/mocker.go (cross-checked by replaying '
                  'histories on the real code each run), the allocator-freshness assumption of the heap model. Outside the model '
                  'and covered only by measurement: Go register ABI, reflect.MakeFunc stub, runtime.morestack/stack copy, the real '
                  'GC, instruction fetch of rewritten code, concurrency of callers (one history at a time). Recorded defects (KNOWN_FINDINGS C01-K1 generic '
                  'dictionary shift — repair drafted as fixes/F27; C01-K2 reset of a superseded builder unpatches the superseding mock — refuted full '
                  'statement in Findings/C01F.lean; C01-K3 method-value callback receives the receiver): the check prints KNOWN-FINDING for exactly those inputs.',
}

GEN = ['JmpAmd64']
GENDIR = os.path.join(C.BUILD, 'c01gen')


def _gen_mod():
    spec = importlib.util.spec_from_file_location('c01gen', os.path.join(C.HARNESS, 'c01', 'gen.py'))
    m = importlib.util.module_from_spec(spec)
    spec.loader.exec_module(m)
    return m


def corpus(corpus_seed, nrandom):
    g = _gen_mod()
    rng = C.Rng(corpus_seed).fork('C01-corpus')
    u, sigs = g.build_corpus(rng, nrandom)
    libsrc, probesrc = g.emit(u, sigs)
    os.makedirs(GENDIR, exist_ok=True)
    for name, src in (('lib.go', libsrc), ('probe_test.go', probesrc)):
        p = os.path.join(GENDIR, name)
        if not os.path.exists(p) or open(p).read() != src:
            open(p, 'w').write(src)
    return g, u, sigs


def build_probes():
    helpers = C.helper_pkgs()
    hc = os.path.join(C.HARNESS, 'c01')
    ext = dict(helpers)
    ext['internal/zzverif/c01lib'] = {'lib.go': os.path.join(GENDIR, 'lib.go')}
    ext['internal/zzverif/c01'] = {'engine_test.go': os.path.join(hc, 'engine_test.go'),
                                   'probe_test.go': os.path.join(GENDIR, 'probe_test.go')}
    bins = {}
    for tag, pkg, files, extra in (
            ('c01-ext', 'internal/zzverif/c01', {}, ext),
            ('c01-patch', 'internal/patch', {'zz_verif_c01_test.go': os.path.join(hc, 'patch_probe_test.go'),
                                             'zz_verif_c01_decl.go': os.path.join(hc, 'patch_nop_decl.go'),
                                             'zz_verif_c01_amd64.s': os.path.join(hc, 'patch_nop_amd64.s')}, helpers),
            ('c01-bytecode', 'internal/bytecode', {'zz_verif_c01_test.go': os.path.join(hc, 'getptr_probe_test.go')}, helpers)):
        b, err = C.overlay_build(tag, pkg, files, extra)
        if b is None:
            raise C.Infra(f'probe {tag} does not build against the current tree:\n{err[-3000:]}')
        bins[tag] = b
    return bins


# ------------------------------------------------------------------ history generation + the property's own expectation

class Hist:
    """One mocker-level history for one signature; `expect[i]` is what the PROPERTY demands of step i (not what the model
    says): after the latest Apply/Return/When of a builder on the target, and until THAT builder is reset, every call
    runs that replacement with exactly the arguments of the call; after the reset the original.  `tags[i]` names the
    situation of a call step so that a recorded defect can be matched narrowly."""

    def __init__(self, g, u, sig, rng, forms_wanted=None, phases=None, focus_rules=False):
        self.g, self.u, self.sig, self.rng = g, u, sig, rng
        self.focus_rules = focus_rules
        self.steps, self.expect, self.tags = [], [], []
        self.forms = list(g.FORMS_METHOD if sig.recv is not None else g.FORMS_FUNC)
        self.want = list(forms_wanted or [])
        self.k = 0
        self.active = None            # None | ('cb', k, owner) | ('stub', default res, owner, [(cond, res)...])
        self.mocked = set()           # builder slots that applied since their last reset and are still held by the test
        self.has_when = {}            # slot -> the slot's mocker currently owns a When (a 2nd Return would be C05's sequence)
        self.handle = {}              # slot -> the test holds a handle from an earlier fetch
        self.foreign_reset = False    # a superseded builder was reset while the superseding mock is still applied
        self.last_args = None
        self.ncalls = 0
        for _ in range(phases or (1 + rng.below(3))):
            self.phase()

    def toks(self, tys):
        out = []
        for t in tys:
            out += self.g.gen_value(t, self.rng)
        return ','.join(out) or '-'

    def expected_now(self, a, r):
        if self.active is None:
            return ('orig',)
        if self.active[0] == 'cb':
            return ('cb', self.active[1], a, r)
        for cond, res in self.active[3]:
            if cond == a:
                return ('stub', res)
        return ('stub', self.active[1])

    def call(self, args=None, reuse=False):
        rng = self.rng
        form = self.want.pop() if self.want else rng.choice(self.forms)
        if form in ('grow', 'cbgrow'):
            form += f':{1 + rng.below(300)}'
        self.recv_toks = None
        if args is None:
            if self.sig.recv is not None:
                rt = self.g.gen_value(self.sig.all_in(self.u)[0], rng)
                self.recv_toks = rt
                a = ','.join(rt + sum((self.g.gen_value(t, rng) for t in self.sig.params), [])) or '-'
            else:
                a = self.toks(self.sig.params)
        else:
            a = args
            if self.sig.recv is not None:
                rt = self.g.gen_value(self.sig.all_in(self.u)[0], rng)
                self.recv_toks = rt
                a = ','.join(rt + ([] if args == '-' else args.split(',')))
        r = self.toks(self.sig.results)
        self.steps.append(f'{"Cr" if reuse else "C"} {form} {a} {r}')
        self.expect.append(self.expected_now(a, r))
        tag = []
        if self.foreign_reset and self.active is not None:
            tag.append('foreign-reset')
        if reuse:
            tag.append('reuse')
        self.tags.append(tag)
        self.ncalls += 1

    def calls(self, lo=1, hi=3):
        for _ in range(lo + self.rng.below(hi - lo + 1)):
            self.call()

    def simple(self, s):
        self.steps.append(s)
        self.expect.append(('ok',))
        self.tags.append([])

    def mock(self, b):
        rng = self.rng
        kept = 'h' if self.handle.get(b) and rng.below(3) == 0 else ''
        # a Return on a mocker that still owns a When is result-sequence semantics (C05): not generated here
        can_r = self.sig.returnable() and not self.has_when.get(b, False)
        if can_r and rng.below(5) < 2:
            res = self.toks(self.sig.results)
            self.simple(f'R{kept} {b} {res}')
            self.has_when[b] = True
            self.active = ('stub', res, b, [])
        else:
            self.simple(f'A{kept} {b} {self.k}')
            self.has_when[b] = False          # Apply discards the When
            self.active = ('cb', self.k, b)
            self.k += 1
        self.handle[b] = True
        self.mocked.add(b)
        self.foreign_reset = False

    def ptoks(self):
        return [self.g.gen_value(t, self.rng) for t in self.sig.params]

    def vary(self, base, prefer_ptr=True):
        """a copy of the per-parameter token groups with some parameters regenerated — one parameter at a time is varied
        while the others keep their values (pointer parameters preferably: same slot, different pointee)"""
        rng = self.rng
        idx = [j for j, t in enumerate(self.sig.params) if t.kind == 'ptr'] if prefer_ptr else []
        if not idx or rng.below(4) == 0:
            idx = [rng.below(len(self.sig.params))]
        out = list(base)
        for j in idx:
            for _ in range(8):
                out[j] = self.g.gen_value(self.sig.params[j], rng)
                if out[j] != base[j] and out[j] != ['nil']:
                    break
        return out

    def rules(self, b):
        """conditional rules on the active stub, then calls that match / do not match / re-use the argument objects"""
        rng = self.rng
        join = lambda groups: ','.join(sum(groups, [])) or '-'
        base = self.ptoks()
        cands = [base] + [self.vary(base) for _ in range(1 + rng.below(2))]
        conds = list(self.active[3])         # rules the mocker's When already owns stay in front (first match wins)
        for c in cands:
            cond, res = join(c), self.toks(self.sig.results)
            if cond in [x for x, _ in conds]:
                continue
            kept = 'h' if rng.below(3) == 0 else ''
            self.simple(f'W{kept} {b} {cond} {res}')
            conds.append((cond, res))
            self.active = ('stub', self.active[1], b, list(conds))
        seq = [conds[0][0], join(self.vary(base)), conds[-1][0], conds[0][0], join(self.vary(base)), self.toks(self.sig.params)]
        for i, c in enumerate(seq):
            self.call(args=c, reuse=(i > 0 and rng.below(4) != 0))

    def drop(self, b):
        self.simple(f'D {b}')
        self.mocked.discard(b)
        self.has_when.pop(b, None)
        self.handle.pop(b, None)

    def phase(self):
        rng = self.rng
        b = rng.below(2)
        if self.focus_rules and not self.has_when.get(b):
            res = self.toks(self.sig.results)
            self.simple(f'R {b} {res}')
            self.has_when[b], self.handle[b] = True, True
            self.active = ('stub', res, b, [])
            self.mocked.add(b)
            self.foreign_reset = False
            self.rules(b)
        else:
            self.mock(b)
        self.calls()
        for _ in range(0 if self.focus_rules else 2):                      # re-mock through the same builder/mocker without a reset in between
            if rng.below(3) == 0:
                self.mock(b)
                self.calls(1, 2)
        if self.active[0] == 'stub' and self.sig.whenable() and rng.below(3) != 0:
            self.rules(b)
        if rng.below(2):
            self.simple('G')
            self.calls(1, 2)
        if rng.below(3) == 0:
            self.drop(b)
            self.simple('G')
            self.calls(1, 2)
        if rng.below(3) == 0:
            b2 = 1 - b
            self.mock(b2)
            self.calls(1, 2)
            if rng.below(2):
                self.simple('G')
                self.calls(1, 1)
        order = sorted(self.mocked)
        if rng.below(2):
            order.reverse()
        for n, bb in enumerate(order):
            self.simple(f'X {bb}')
            self.has_when[bb] = False
            if self.active is not None and self.active[2] == bb:
                self.active = None
                self.foreign_reset = False
            elif self.active is not None:
                self.foreign_reset = True          # bb was superseded; the superseding builder has not been reset
            if n + 1 < len(order) and rng.below(2):
                self.call()
        self.mocked.clear()
        self.calls(1, 2)
        b3 = rng.below(2)
        if self.handle.get(b3) and self.active is None and rng.below(3) == 0:
            # a handle kept across Reset is used again, then reset again
            self.steps_kept(b3)

    def steps_kept(self, b):
        rng = self.rng
        if self.sig.returnable() and rng.below(2):
            res = self.toks(self.sig.results)
            self.simple(f'Rh {b} {res}')
            self.has_when[b] = True
            self.active = ('stub', res, b, [])
        else:
            self.simple(f'Ah {b} {self.k}')
            self.active = ('cb', self.k, b)
            self.k += 1
        self.calls(1, 2)
        self.simple(f'X {b}')
        self.has_when[b] = False
        self.active = None
        self.calls(1, 1)

    def line(self):
        return f'c01.hist s{self.sig.idx} ; ' + ' ; '.join(self.steps)


def expected_obs(e):
    if e[0] == 'ok':
        return 'ok'
    if e[0] == 'orig':
        return 'orig'
    if e[0] == 'cb':
        return f'cb{e[1]} a={e[2]} r={e[3]} id=ok'
    return f'stub r={e[1]}'


def split_obs(obs):
    """-> (list of compared parts, list of side info)"""
    main, side = [], []
    for part in obs.split(' | '):
        if ' ## ' in part:
            a, b = part.split(' ## ', 1)
        else:
            a, b = part, ''
        main.append(a)
        side.append(b)
    return main, side


def gen_patch_lines(rng, n):
    """patch-layer histories over 4 functions: a well-used lane (with calls and collections) and a stale-guard lane
    (Apply of superseded guards; text/registration observed, never called afterwards).  `Guard.Restore` has no caller in
    goom and is not exercised on the implementation (it stays in the Lean model only)."""
    lines, lanes = [], []
    for i in range(n):
        stale = (i % 4 == 3)
        reg, guards, steps, dirty = {}, [], [], False
        for _ in range(3 + rng.below(12)):
            m = rng.below(10)
            if m < 3 or not guards:
                f, r = rng.below(3), rng.below(6)
                if rng.below(8) == 0:
                    steps.append(f'rep 3 {r}')      # NOP-led function: rejected ("already patched"), stays registered without guard
                    continue
                steps.append(f'rep {f} {r}')
                reg[f] = len(guards)
                guards.append(f)
            elif m < 5:
                cands = [g for g in range(len(guards)) if stale or reg.get(guards[g]) == g]
                if cands:
                    g = rng.choice(cands)
                    if reg.get(guards[g]) != g:
                        dirty = True
                    steps.append(f'app {g}')
            elif m == 5:
                steps.append(f'unp {rng.below(len(guards))}')
            elif m == 6:
                f = rng.below(4)
                steps.append(f'unf {f}')
                reg.pop(f, None)
            elif m == 7 and rng.below(3) == 0:
                steps.append('all')
                reg.clear()
            elif m == 8 and not dirty:
                steps.append('gc')
            elif not dirty:
                steps.append(f'call {rng.below(3)}')
        lines.append('c01.patch ' + ' ; '.join(steps))
        lanes.append('stale' if stale else 'wellused')
    return lines, lanes


# ------------------------------------------------------------------ running

SKIP = 'c01.skip'
GOOM_ENV_KNOBS = ('GOOM_DEBUG', 'GOOM_TRACE', 'GOOM_LOG', 'GODEBUG', 'GOGC', 'GOMAXPROCS', 'GOTRACEBACK', 'GOMEMLIMIT')


def probe_env(extra):
    """environment of the probes: goom's and the runtime's behaviour-changing knobs are removed"""
    e = C.goenv(extra)
    for k in list(e):
        if k in GOOM_ENV_KNOBS or k.startswith('GOOM_'):
            del e[k]
    return e


def _run_once(binary, test, ops_path, out_path, skip, timeout):
    env = probe_env({'VERIF_OPS': ops_path, 'VERIF_OUT': out_path, 'VERIF_SEED': str(C.seed()), 'VERIF_SKIP': str(skip)})
    cmd = [binary, '-test.run', f'^{test}$', '-test.count=1', '-test.timeout', f'{timeout}s']
    try:
        p = subprocess.run(cmd, env=env, cwd=C.BUILD, capture_output=True, text=True, timeout=timeout + 30)
        return p.returncode, p.stdout + p.stderr, False
    except subprocess.TimeoutExpired:
        return -9, 'timeout (the probe did not finish)', True


def run_ext(binary, lines, tag, timeout, test='TestVerifC01'):
    """Run the external probe over `lines` (non-probe lines are ignored by it).  A crash kills the process: the line after
    the last observation is marked and the run continues behind it.  Nothing is reported from one occurrence: a line that
    crashed or timed out is replayed ONCE alone in a fresh process; only if it fails again it stays `crash`.
    Returns (observations, [(idx, log)] of confirmed crashes, error text)."""
    n = len(lines)
    ops_path = os.path.join(C.BUILD, f'{tag}.ops')
    out_path = os.path.join(C.BUILD, f'{tag}.impl')
    open(ops_path, 'w').write('\n'.join(lines) + '\n')
    if os.path.exists(out_path):
        os.remove(out_path)
    skip, suspects, err = -1, [], ''
    for _ in range(8):
        rc, log, timed_out = _run_once(binary, test, ops_path, out_path, skip, timeout)
        obs = C.read_indexed(out_path, n)
        if rc == 0:
            break
        done = [i for i, o in enumerate(obs) if o is not None]
        nxt = (max(done) + 1) if done else max(skip + 1, 0)
        while nxt < n and not lines[nxt].startswith(('c01.hist', 'c01.fm')):
            nxt += 1
        if nxt <= skip or nxt >= n:
            err = log[-3000:]
            break
        suspects.append((nxt, log[-1500:]))
        with open(out_path, 'a') as f:
            f.write(f'{nxt}\tcrash\n')
        skip = nxt
        if len(suspects) >= 4:
            break
    obs = C.read_indexed(out_path, n)
    confirmed = []
    for idx, log in suspects[:4]:
        solo = [SKIP] * n
        solo[idx] = lines[idx]
        sp = os.path.join(C.BUILD, f'{tag}.solo.ops')
        so = os.path.join(C.BUILD, f'{tag}.solo.impl')
        open(sp, 'w').write('\n'.join(solo) + '\n')
        if os.path.exists(so):
            os.remove(so)
        rc, log2, _ = _run_once(binary, test, sp, so, -1, timeout)
        o = C.read_indexed(so, n)[idx]
        if rc == 0 and o is not None:
            obs[idx] = o                      # did not reproduce: a loaded machine, not a property violation
        else:
            obs[idx] = 'crash'
            confirmed.append((idx, (log2 or log)[-1500:]))
    return obs, confirmed, err


def has_generic_shift(meta, obs):
    for i, (kind, sig, h) in enumerate(meta):
        if kind == 'hist' and h is not None and sig.lane == 'generic' and obs[i]:
            main, _ = split_obs(obs[i])
            for m, e in zip(main, h.expect):
                if e[0] == 'cb' and m.startswith(f'cb{e[1]} ') and m != expected_obs(e):
                    return True
    return False


def execute(lines, meta, bins, tag='c01', timeout=600):
    n = len(lines)
    ops_path = os.path.join(C.BUILD, f'{tag}.ops')
    # lines whose arguments would be wild pointers if goom shifts them (generic-ptr lane) run in a second pass
    deferred = {i for i, m in enumerate(meta) if m[0] == 'hist' and m[1].lane == 'generic-ptr'}
    first = [SKIP if i in deferred else l for i, l in enumerate(lines)]
    impl, crashed, elog = run_ext(bins['c01-ext'], first, tag + '.ext', timeout)
    if deferred:
        if has_generic_shift(meta, impl):
            for i in deferred:
                impl[i] = 'deferred:generic-dict-shift'
        else:
            second = [l if i in deferred else SKIP for i, l in enumerate(lines)]
            impl2, crashed2, elog2 = run_ext(bins['c01-ext'], second, tag + '.ext2', timeout)
            for i in deferred:
                impl[i] = impl2[i]
            crashed += crashed2
            elog = elog or elog2
    fm, crashed3, elog3 = run_ext(bins['c01-ext'], lines, tag + '.fm', timeout, test='TestVerifC01FM')
    crashed += crashed3
    for i, v in enumerate(fm):
        if v is not None and lines[i].startswith('c01.fm'):
            impl[i] = v
    open(ops_path, 'w').write('\n'.join(lines) + '\n')
    for ptag, test in (('c01-patch', 'TestVerifC01'), ('c01-bytecode', 'TestVerifC01GetPtr')):
        outp = os.path.join(C.BUILD, f'{tag}.{ptag}.impl')
        for attempt in range(2):              # a failure is retried once before anything is concluded from it
            if os.path.exists(outp):
                os.remove(outp)
            rc, log, _ = _run_once(bins[ptag], test, ops_path, outp, -1, timeout)
            if rc == 0:
                break
        if rc != 0:
            crashed.append((ptag, log[-1500:]))
        for i, v in enumerate(C.read_indexed(outp, n)):
            if v is not None:
                impl[i] = v
    exe, err = C.build_driver()
    model = C.run_driver(exe, ops_path, os.path.join(C.BUILD, f'{tag}.model')) if exe else None
    return impl, model, crashed, (err if exe is None else elog)


def sizes(tier):
    if tier == 'thorough':
        return dict(nrandom=260, lines_per_sig=12, patch_lines=4000)
    return dict(nrandom=58, lines_per_sig=2, patch_lines=400)


def make_ops(g, u, sigs, rng, tier, only_sig=None):
    sz = sizes(tier)
    lines, meta = [], []
    for s in sigs:
        if only_sig is not None and s.idx != only_sig:
            continue
        forms = list(g.FORMS_METHOD if s.recv is not None else g.FORMS_FUNC)
        r = rng.fork(f'sig{s.idx}')
        want = list(forms)          # every form at least once per signature
        for j in range(sz['lines_per_sig']):
            h = Hist(g, u, s, r, forms_wanted=want if j == 0 else None, phases=(3 if j == 0 else None))
            want = h.want
            lines.append(h.line())
            meta.append(('hist', s, h))
        if s.whenable():
            for j in range(max(1, sz['lines_per_sig'] // 2)):
                h = Hist(g, u, s, r, phases=1, focus_rules=True)
                lines.append(h.line())
                meta.append(('hist', s, h))
    pl, lanes = gen_patch_lines(rng.fork('patch'), sz['patch_lines'])
    for l, lane in zip(pl, lanes):
        lines.append(l)
        meta.append(('patch', lane, None))
    for kind in ('plain', 'closure', 'methodvalue', 'makefunc'):
        for n in range(3):
            lines.append(f'c01.getptr {kind} {n}')
            meta.append(('getptr', kind, None))
    rf = rng.fork('fm')
    for form in ('direct', 'mv', 'other', 'go'):
        for _ in range(3):
            lines.append(f'c01.fm {form} {rf.below(1 << 40)} {rf.below(1000)} {rf.below(1 << 30)}')
            meta.append(('fm', form, None))
    return lines, meta


KNOWN_KEYS = {
    'generic-dict-shift': 'callback on a generic function/method receives the hidden dictionary as an argument: the caller\'s arguments arrive shifted by one word',
    'foreign-reset': 'Reset of a builder whose mock of f had been superseded by another builder restores the original bytes: the other builder\'s still-applied mock stops running',
    'method-value-receiver-shift': 'Func(obj.M).Apply(cb of the method value\'s type): the callback receives the receiver as its first argument',
}


def judge(lines, meta, impl, model, out, replay_extra, crashed=()):
    """Property oracle on the implementation, then correspondence. Returns statistics."""
    st = {'calls': 0, 'by_form': {}, 'by_expect': {}, 'distinct': set(), 'crash': 0, 'fin_seen': 0, 'gc_steps': 0,
          'collected_superseded': 0, 'patch_wellused': 0, 'patch_stale': 0, 'patch_rejected': 0, 'known': {}, 'steps': {},
          'reuse_calls': 0, 'rule_calls': 0, 'deferred': 0, 'fm': 0}
    nviol = 0
    known_lines = set()

    def known(key, what, body, i):
        """a mismatch of a recorded class: reported through Outcome (KNOWN-FINDING if listed, VIOLATION otherwise)"""
        known_lines.add(i)
        if key not in st['known']:
            out.violation(f'{KNOWN_KEYS[key]}: {what}', body, key=key)
        st['known'][key] = st['known'].get(key, 0) + 1

    for i, (kind, a, h) in enumerate(meta):
        obs = impl[i]
        if kind == 'hist':
            sig = a
            body = {'kind': 'impl-oracle', 'ops': [lines[i]], 'sig': sig.idx, 'signature': sig.describe(h.u), 'observed': obs, **replay_extra}
            if obs == 'deferred:generic-dict-shift':
                st['deferred'] += 1
                known_lines.add(i)
                continue
            if obs is None or obs == 'crash':
                st['crash'] += 1
                if nviol < 3:
                    clog = dict((k, v) for k, v in crashed if isinstance(k, int)).get(i, '')
                    what = 'process crashed or hung (reproduced when replayed alone) on' if obs == 'crash' else 'no observation (the probe died earlier and was not restarted) for'
                    out.violation(f'{what} a history of sig {sig.idx} {sig.describe(h.u)}', {**body, 'expected': [expected_obs(e) for e in h.expect], 'crash_log_tail': clog[-1200:]})
                nviol += 1
                continue
            main, side = split_obs(obs)
            exp = [expected_obs(e) for e in h.expect]
            bad = None
            if len(main) != len(exp):
                bad = f'{len(main)} observations for {len(exp)} steps: {main[len(exp):][:2]}'
            for j, (m, e) in enumerate(zip(main, exp)):
                if bad:
                    break
                ex = h.expect[j]
                op = h.steps[j].split()[0]
                st['steps'][op] = st['steps'].get(op, 0) + 1
                if m != e:
                    why = f'step {j} `{h.steps[j][:60]}`: expected `{e[:200]}`, observed `{m[:200]}`'
                    if sig.gen is not None and ex[0] == 'cb' and m.startswith(f'cb{ex[1]} '):
                        known('generic-dict-shift', why, {**body, 'expected': exp, 'why': why}, i)
                    elif 'foreign-reset' in h.tags[j] and m == 'orig':
                        known('foreign-reset', why, {**body, 'expected': exp, 'why': why}, i)
                    else:
                        bad = why
                if op in ('C', 'Cr'):
                    form = h.steps[j].split()[1].split(':')[0]
                    st['calls'] += 1
                    st['reuse_calls'] += op == 'Cr'
                    st['by_form'][form] = st['by_form'].get(form, 0) + 1
                    st['by_expect'][ex[0]] = st['by_expect'].get(ex[0], 0) + 1
                    if ex[0] != 'orig':
                        st['distinct'].add((sig.idx, form, m))
                    fin = [x for x in side[j].replace('fin=', '').split(',') if x]
                    if fin:
                        st['fin_seen'] += 1
                    if ex[0] == 'cb' and str(ex[1]) in fin and not bad:
                        bad = f'step {j}: callback {ex[1]} is the active replacement but its closure was finalized (collected)'
                elif op == 'G':
                    st['gc_steps'] += 1
            if side and side[-1]:
                st['collected_superseded'] += len([x for x in side[-1].replace('fin=', '').split(',') if x])
            if bad:
                if nviol < 3:
                    out.violation(f'sig {sig.idx} {sig.describe(h.u)}: {bad}', {**body, 'expected': exp, 'why': bad})
                nviol += 1
        elif kind == 'fm':
            st['fm'] += 1
            _, form, fa, fb, fr = lines[i].split()
            want = f'cb a={fa},{fb} r={fr} | orig'
            body = {'kind': 'impl-oracle', 'ops': [lines[i]], 'observed': obs, 'expected': want, **replay_extra}
            if obs != want:
                parts = (obs or '').split(' | ')
                if len(parts) == 2 and parts[1] == 'orig' and parts[0].startswith('cb a=') and parts[0].endswith(f',{fa} r={fr}'):
                    known('method-value-receiver-shift', f'`{lines[i]}`: expected `{want}`, observed `{obs}`', body, i)
                else:
                    if nviol < 3:
                        out.violation(f'method value mock `{lines[i]}`: expected `{want}`, observed `{obs}`', body)
                    nviol += 1
        elif kind == 'patch':
            st['patch_' + a] += 1
            st['patch_rejected'] += (obs or '').count('rej:patched')
            if obs is None or 'LEFTOVER' in obs or 'panic' in obs:
                if nviol < 3:
                    out.violation(f'patch-layer history misbehaved: {obs}', {'kind': 'impl-oracle', 'ops': [lines[i]], 'observed': obs, **replay_extra})
                nviol += 1
            elif a == 'wellused':
                # the retention property itself, on the real table: a non-pristine entry is the jump of the registered replacement
                for part in obs.split(' | '):
                    cells = part.split(' ')[-1].split(',') if '/' in part else []
                    for c in cells:
                        t, r = c.split('/')
                        if t != 'pristine' and (not t.startswith('jmp:') or t[4:] != r.split(':')[0]):
                            if nviol < 3:
                                out.violation(f'entry bytes `{t}` while patches holds `{r}`', {'kind': 'impl-oracle', 'ops': [lines[i]], 'observed': obs, **replay_extra})
                            nviol += 1
                    if part == 'wild':
                        nviol += 1
        elif kind == 'getptr':
            if obs != 'data-word=funcval first-word=code':
                if nviol < 3:
                    out.violation(f'bytecode.GetPtr does not yield the func value address for {a}: {obs}', {'kind': 'impl-oracle', 'ops': [lines[i]], 'observed': obs, **replay_extra})
                nviol += 1
    st['oracle_failures'] = nviol
    # correspondence (compared part only); lines of a recorded defect class are outside the model by definition
    diffs = []
    if model is not None:
        for i, l in enumerate(lines):
            if i in known_lines:
                continue
            a = ' | '.join(split_obs(impl[i])[0]) if impl[i] else impl[i]
            if a != model[i]:
                diffs.append((i, l, a, model[i]))
    st['diffs'] = diffs
    return st


def floors(meta, st, tier):
    """a lane that silently ran nothing is a machinery error, not a pass"""
    nh = sum(1 for m in meta if m[0] == 'hist')
    need = {'calls': 4 * nh // 2, 'gc_steps': nh // 4, 'patch_wellused': 1, 'patch_stale': 1, 'patch_rejected': 1, 'fm': 1}
    low = [f'{k}={st[k]}<{v}' for k, v in need.items() if st[k] < v]
    for op in ('A', 'R', 'X', 'D', 'Ah', 'Rh', 'W', 'Cr'):
        if st['steps'].get(op, 0) == 0 and nh >= 100:
            low.append(f'no `{op}` step was replayed')
    if low:
        raise C.Infra('a generator lane ran (almost) nothing: ' + ', '.join(low))


def run(tier):
    out = C.Outcome('C01', tier)
    rng = C.Rng(C.seed()).fork('C01')
    ok, msg, changed = C.regen(GEN)
    proof = C.prove('C01', leanchecker=(tier == 'thorough')) if ok else {'ok': False, 'failed': [('translator', msg)], 'obligations': 0,
                                                                            'discharged': 0, 'cmds': [], 'axioms': {}}
    sz = sizes(tier)
    g, u, sigs = corpus(C.seed(), sz['nrandom'])
    bins = build_probes()
    lines, meta = make_ops(g, u, sigs, rng, tier)
    impl, model, crashed, elog = execute(lines, meta, bins, timeout=(3600 if tier == 'thorough' else 600))
    extra = {'corpus_seed': C.seed(), 'nrandom': sz['nrandom'], 'how': 'python3 check.py C01 --replay <this file>'}
    st = judge(lines, meta, impl, model, out, extra, crashed)
    if model is None:
        proof['failed'].append(('goomdrv', 'driver does not build: ' + elog[-500:]))
    if not st['oracle_failures']:
        floors(meta, st, tier)
        if st['diffs']:
            i, op, a, b = st['diffs'][0]
            out.violation('model and implementation disagree on a replayed history', {'kind': 'correspondence', 'ops': [op], 'impl': a, 'model': b,
                          'broken': 'correspondence Model/C01Dispatch.lean vs goom (patch.go/guard.go/monkey.go/mocker.go)',
                          'n_disagreements': len(st['diffs']), **extra}, no_failing_input=True)
        elif not proof['ok']:
            out.violation('proof obligations of Props/C01.lean no longer check and no failing input was found in the search',
                          {'kind': 'proof', 'broken': proof['failed'], 'searched': len(lines), 'output': proof.get('output', '')[-3000:]},
                          no_failing_input=True)
    # measured distribution
    abi = {}
    for s in sigs:
        c = g.abi_class(u, s)
        key = ('in:' + ('regs' if not c['in_stack'] else 'regs+stack' if c['in_int'] + c['in_fp'] else 'stack') +
               (' int>=9' if c['in_int'] >= 9 else '') + (' fp>=15' if c['in_fp'] >= 15 else '') +
               ' out:' + ('none' if not s.results else 'regs' if not c['out_stack'] else 'stack'))
        abi[key] = abi.get(key, 0) + 1
    lanes = {}
    for s in sigs:
        lanes[s.lane] = lanes.get(s.lane, 0) + 1
    hist_lines = sum(1 for m in meta if m[0] == 'hist')
    out.coverage = {
        'obligations': proof['obligations'], 'discharged': proof['discharged'],
        'checker_cmd': ' ; '.join(proof['cmds']),
        'trusted_base': ['Lean 4.33 kernel', 'axioms: ' + ', '.join(sorted({a for v in proof['axioms'].values() for a in v}) or ['none']),
                         'tools/gen translator for jmpToFunctionValue/checkAlreadyPatch (regenerated this run) and mini ISA X86Mini (cross-checked by C15)',
                         'hand model Model/C01Dispatch.lean of patch.go/guard.go/monkey.go/jumpdata.go/mocker.go (replayed against the real code this run)',
                         'heap model: allocator never returns a live address; collector frees at most what is unreachable from patches + external roots',
                         'OBSERVED ONLY (not proved): Go register ABI, reflect.makeFuncStub, stack copying, the real GC — the corpus below is the only evidence'],
        'theorems': proof['axioms'], 'proof_failures': proof['failed'],
        'evaluations': len(lines), 'distinct_nontrivial': len(st['distinct']),
        'traces_validated_against_impl': len(lines) - len(st['diffs']),
        'rule': 'one evaluation = one replayed history line (mocker-level history of one signature with several calls, patch-layer history, '
                'method-value line or GetPtr probe); non-trivial = a call that ran a replacement, distinct by (signature, call form, observation '
                'incl. the exact values). For mocker-level lines the model contributes WHICH code runs (orig / callback k / stub and its rule); '
                'the argument/result values in the expected line are the inputs echoed, so value exactness is evidence from the implementation only.',
        'distribution': {'signatures': len(sigs), 'signature_lanes': lanes, 'abi_classes': abi, 'mocker_histories': hist_lines,
                         'steps_by_kind': st['steps'],
                         'calls': st['calls'], 'calls_by_form': st['by_form'], 'calls_by_expected_behaviour': st['by_expect'],
                         'calls_reusing_argument_objects': st['reuse_calls'],
                         'gc_steps': st['gc_steps'], 'calls_with_some_closure_already_collected': st['fin_seen'],
                         'closures_observed_collected_by_end_of_line': st['collected_superseded'],
                         'patch_layer_histories': {'wellused': st['patch_wellused'], 'stale_guard': st['patch_stale'],
                                                   'replaceFunc_rejected_already_patched': st['patch_rejected']},
                         'method_value_lines': st['fm'], 'known_finding_hits': st['known'],
                         'generic_pointer_lines_deferred_because_arguments_are_shifted': st['deferred'],
                         'process_crashes_confirmed': len(crashed), 'gen_modules_changed_this_run': changed},
        'samples': [{'op': lines[i][:400], 'impl': (impl[i] or '')[:400], 'model': (model[i][:400] if model else None)}
                    for i in (0, len(lines) // 3, hist_lines + 1 if hist_lines + 1 < len(lines) else 0, len(lines) - 1)],
    }
    out.assumptions = ['Go ABI / reflect.MakeFunc / morestack / GC are outside the model: covered by the corpus only',
                       'single caller at a time; concurrent callers are C11', '-gcflags=all=-l (goom requires inlining off)']
    return out.finish()


def replay(body):
    tier = 'quick'
    C.regen(GEN)          # the model must be the one of the current source, as in run()
    g, u, sigs = corpus(body.get('corpus_seed', C.seed()), body.get('nrandom', sizes(tier)['nrandom']))
    bins = build_probes()
    ops = body.get('ops', [])
    meta = []
    for l in ops:
        t = l.split()
        sig = next((x for x in sigs if l.startswith(f'c01.hist s{x.idx} ')), None)
        meta.append(('hist', sig, None) if sig is not None else ('other', None, None))
    impl, model, crashed, _ = execute(ops, meta, bins, tag='c01-replay')
    rc = 0
    for i, op in enumerate(ops):
        a = ' | '.join(split_obs(impl[i])[0]) if impl[i] else impl[i]
        print(f'{op}\n  impl : {impl[i]}\n  model: {model[i] if model else None}')
        exp = body.get('expected')
        if exp and a is not None and a.split(' | ')[:len(exp)] != exp:
            print(f'  expected by the property: {" | ".join(exp)}')
            rc = 1
        if a is None or a == 'crash' or (model and a != model[i]) or 'LEFTOVER' in (a or ''):
            rc = 1
    return rc
