"""C02 — Reset/Cancel restore behaviour and the exact original code bytes; only entry jumps of mocked functions differ.

Proof: Props/C02.lean proves, by induction over arbitrary operation lists of the public builder/mocker API (any number of
builders, targets, callbacks, placeholders, any measured environment), the invariant "saved origin bytes are always the
pristine entry bytes; text differs from pristine only by whole entry jumps of registered+applied patches; nothing past the
jump changes", that Reset/Cancel restore bytes and behaviour of everything the builder mocked (for every order in which Go's
map iteration may cancel), idempotence of Reset, re-mock after Reset, and non-interference between targets.  The jump
emitter and the NOP-sentinel test inside the model are the definitions regenerated from the Go source on every run (tie T).

Tie X: a virtual user package (harness/c02) with 20 targets (functions, methods, unexported functions, two instantiations of a generic, func literals and a closure held in variables, a method family ending in the letters of the -fm suffix, a namesake type and a namesake function in a second package) runs generated histories through goom's public API; after EVERY
step the probe compares the whole executable image of its own process with a snapshot taken before the first step and calls
every target and three untouched neighbours; `goomdrv` predicts the same line from the model.  The oracle below states the
property on the implementation's observations without using the model.
"""
import collections
import os
import re
import subprocess
from concurrent.futures import ThreadPoolExecutor

from vlib import common as C

META = {
    'property_id': 'C02',
    'technique': 'Lean 4 theorems by induction over arbitrary public-API histories of a transcribed model of patch table / guards / mockers / '
                 'builders (jump emitter and sentinel test regenerated from the Go source) + differential run of generated histories '
                 'against the real goom with a full .text comparison after every step',
    'level': 'proof',
    'level_text': 'Full proof on the model: for every finite history of apply / re-apply / Return / When / Origin / Cancel / Reset / kept-handle operations over any '
                  'builders and targets, saved origin bytes are pristine, the image differs from pristine only by whole 13-byte entry jumps of '
                  'registered and applied patches (and placeholder bodies), Reset/Cancel restore exact bytes and original behaviour for every '
                  'map-iteration order, a second Reset changes nothing, re-mocking after Reset works (builder keys and method keys through fresh or kept struct '
                  'mockers), operations on f never change bytes or behaviour class of g != f, and the behaviour class is determined by the entry bytes in every '
                  'reachable state: pristine => orig, jump to callback k => cb k, jump to stub n => stub n served by the live When of a not cancelled mocker '
                  '(ownership invariant); the jump bytes dispatch to the named funcval by C15.amd64_entry. For a generic target the entry jump leads to an installed '
                  'dictionary-dropping adapter (patch.go adaptToShapeFunc) that forwards to the callback/stub: modelled (adapter table), proved '
                  '(MockedWith / Denotes), and observed by calling — callbacks report whether they received exactly the caller\'s argument, a GC runs before every call of a patched generic.',
    'level_note': 'Trusted: Lean kernel (propext, Classical.choice, Quot.sound only); the hand transcription Model/Patch.lean, validated on every '
                  'run by executing it next to the real code on generated histories (whole-image diff + behaviour after each step); tools/gen for '
                  'the emitter. Measured, not modelled: function sizes, first bytes, funcval addresses and the outcome of the placeholder '
                  'relocation (C03) enter the model as parameters that the theorems quantify over. The too-small and already-patched exits of replaceFunc are not '
                  'reachable through Go-compiled targets: they are exercised on synthetic code by the oracle-only patch-level lane c02.plow (internal/patch driven '
                  'directly, also patch.Unpatch of an unpatched function). Out of scope: internal-only '
                  'Guard.Restore/UnpatchAll, concurrency (C11). Kept mocker handles (keep / Apply / Return / Cancel through the handle, every via incl. by-name and method values) '
                  'and the two-level Struct(x) -> Method(m)/ExportMethod(m) lookup with a kept struct mocker are modelled ops (plus the older oracle-only lane c02.stale, defect F16); the generators never look a function up afresh while its '
                  'kept handle is cancelled: that orphans the handle (the builder replaces its cache entry, Reset cannot reach the old mocker) — '
                  'known finding F27-c02-orphan, exercised in its own lane (the main lane keeps the restriction so that every other violation stays visible). '
                  'Same-gc-shape generic instantiations share one body: known finding F28-c02-gcshape (lane c02.shape). Faithful instances need builder ids < 100 and target ids < 1000.',
}

GEN = ['JmpAmd64']
NT, NP = 21, 4
T_METHODS = {7, 8, 9}               # methods of T: Struct(&T{}).Method / ExportMethod, ExportStruct("*T").Method, method expression, by name, method value
L_METHODS = {12, 13, 14, 15, 16}    # the family Add / Addf / Addm / Addfm / Addmf of L: method expression, by name, method value
S_METHODS = {17}                    # M7 of the namesake type T of a second package (same Type.String()): Struct(&sub.T{}).Method, expression, value
LITERALS = {10, 11}                 # func literal in a package variable, closure capturing a variable: Func(variable)
GENERICS = {5, 18}                  # one generic function instantiated at int and at int64 (different shapes, same name)
METHODS = T_METHODS | L_METHODS | S_METHODS
VIAS = {0: 'fe', 1: 'fe', 2: 'fe', 3: 'fe', 4: 'fe', 5: 'f', 6: 'fe', 7: 'fmeuvx', 8: 'fmeuvx', 9: 'feuvx', 10: 'f', 11: 'f',
        12: 'fevv', 13: 'fevv', 14: 'fevv', 15: 'fevv', 16: 'fevv', 17: 'fmmv', 18: 'f', 19: 'p', 20: 'fe'}

# goom reads these from the environment of the process it runs in (GOOM_DEBUG wraps every callback in a MakeFunc stub):
# the probes must not inherit them from whoever calls the check
for _k in [k for k in os.environ if k.startswith('GOOM_')]:
    os.environ.pop(_k)
RUN = str(os.getpid())                # scratch-file tag: concurrent runs of this check do not share ops/out files


def _cleanup():
    import glob
    if not os.environ.get('VERIF_KEEP'):
        for f in glob.glob(os.path.join(C.BUILD, f'c02.{RUN}.*')):
            try:
                os.remove(f)
            except OSError:
                pass


import atexit
atexit.register(_cleanup)

CORPUS = [  # hand-written scenarios that always run first (1 builder unless the first token says otherwise)
    '1 | a 0 f 0 1 ; x 0 ; x 0 ; a 0 f 0 2 ; x 0',
    '1 | a 0 f 0 0 ; a 0 f 0 1 ; r 0 f 0 5 ; c 0 f 0 ; r 0 f 0 6 ; x 0',
    '2 | a 0 f 3 0 ; a 1 f 3 1 ; x 0 ; x 1 ; a 0 f 3 2',
    '2 | a 0 f 1 0 ; a 1 e 1 1 ; a 0 e 1 2 ; x 1 ; x 0',
    '1 | a 0 f 3 0 0 ; a 0 f 3 1 1 ; x 0 ; a 0 f 3 2 0 ; x 0',
    '1 | a 0 f 0 0 0 ; a 0 f 0 1 ; a 0 f 0 2 0 ; x 0',
    '1 | a 0 f 2 0 ; r 0 f 2 3 2 ; x 0 ; w 0 f 2 4 ; w 0 f 2 5 ; x 0',
    '3 | a 0 m 7 0 ; a 1 m 8 1 ; a 2 u 9 2 ; a 0 f 7 3 ; x 2 ; x 1 ; x 0',
    '1 | a 0 m 7 0 ; a 0 m 8 1 3 ; a 0 u 9 2 ; c 0 m 7 ; x 0 ; x 0',
    '1 | a 0 f 5 0 ; a 0 f 6 1 ; a 0 f 6 2 2 ; r 0 f 5 1 ; x 0',
    '2 | r 0 e 4 1 ; a 1 e 4 0 1 ; c 0 e 4 ; a 0 f 4 3 ; x 1 ; x 0',
    '1 | a 0 f 0 0 ; a 0 f 1 1 ; a 0 f 2 2 ; a 0 f 3 3 ; c 0 f 1 ; x 0 ; a 0 f 1 0 ; x 0',
    '2 | r 0 f 2 44 ; a 0 f 2 2 ; r 0 f 2 4',           # Apply discards the When: the later Return installs a new stub
    '1 | r 0 m 8 1 ; a 0 m 8 2 ; w 0 m 8 3 ; a 0 e 4 1 ; r 0 e 4 2 ; a 0 u 9 0 ; r 0 u 9 5 ; x 0',
    '1 | r 0 f 0 1 0 ; a 0 f 0 1 ; r 0 f 0 2',          # failing Apply (sticky Origin) does not reach `m.when = nil`
    # kept handles (k = keep, A/R/C = through the handle): cancel, re-apply through the SAME handle, fresh lookup, Reset, second Reset
    '1 | k 0 e 0 ; A 0 e 0 1 ; C 0 e 0 ; A 0 e 0 2 ; c 0 e 0 ; x 0 ; x 0',
    '1 | k 0 e 4 ; A 0 e 4 1 ; x 0 ; A 0 e 4 2 ; k 0 e 4 ; x 0 ; x 0',
    '1 | k 0 u 9 ; A 0 u 9 1 ; C 0 u 9 ; A 0 u 9 2 ; c 0 u 9 ; x 0 ; x 0',
    '1 | k 0 v 8 ; A 0 v 8 1 ; C 0 v 8 ; R 0 v 8 2 ; c 0 v 8 ; x 0',
    '1 | k 0 f 3 ; R 0 f 3 1 ; C 0 f 3 ; R 0 f 3 2 ; a 0 f 3 0 ; x 0 ; x 0',
    '1 | k 0 m 7 ; A 0 m 7 1 ; x 0 ; R 0 m 7 2 ; r 0 m 7 3 ; x 0',
    '2 | k 0 e 1 ; k 1 f 1 ; A 0 e 1 0 ; A 1 f 1 1 ; C 0 e 1 ; A 0 e 1 2 ; a 0 e 1 3 ; x 1 ; x 0',
    # func literals held in variables (bodies call other corpus functions), a closure, and the -fm method family through method values
    '1 | a 0 f 10 1 ; a 0 f 11 2 ; r 0 f 10 3 ; x 0 ; a 0 f 11 0 1 ; x 0',
    '1 | a 0 v 13 1 ; a 0 v 14 2 ; a 0 v 15 3 ; a 0 v 16 0 ; x 0',
    '1 | a 0 v 12 0 ; a 0 v 13 1 ; c 0 v 12 ; r 0 v 15 4 ; x 0 ; x 0',
    '2 | a 0 v 13 1 ; a 1 f 13 2 ; a 0 e 12 3 ; k 1 v 16 ; A 1 v 16 0 ; C 1 v 16 ; x 0 ; x 1',
    # ExportStruct("*T").Method (its own child cache), the namesake type of the second package, a second generic instantiation,
    # a rejected callback over a live mock, a Var mocker in the builder, builders created by a helper in another package (odd ones)
    '1 | a 0 x 7 1 ; a 0 x 8 2 ; r 0 x 9 3 ; c 0 x 8 ; x 0 ; a 0 x 7 0 ; x 0',
    '2 | a 0 m 7 1 ; a 1 m 17 2 ; a 0 m 17 3 ; r 1 m 7 4 ; x 1 ; x 0',
    '2 | a 0 f 5 1 ; a 0 f 18 2 ; r 1 f 18 3 ; r 1 f 5 4 ; c 0 f 18 ; x 1 ; x 0',
    '2 | w 0 f 5 1 ; w 1 f 18 2 ; a 0 f 5 3 ; k 1 f 18 ; A 1 f 18 0 ; C 1 f 18 ; R 1 f 18 5 ; x 0 ; x 1',   # generic targets: adapter, exact arguments
    '1 | a 0 f 0 1 ; ab 0 f 0 ; ab 0 f 3 ; r 0 f 3 1 ; ab 0 f 3 ; x 0',
    '2 | Y 0 ; a 0 f 1 1 ; Y 1 ; a 1 e 4 2 ; a 1 e 0 3 ; x 0 ; x 1',
    '1 | a 0 f 20 1 ; x 0 ; a 0 f 20 2 0 ; x 0 ; a 0 e 20 3 1 ; r 0 f 20 4 2 ; x 0',   # refused re-mock (error return inside replaceFunc) after Reset
    '2 | a 0 e 4 1 ; a 0 p 19 2 ; a 1 p 19 3 ; a 1 e 4 0 ; c 0 p 19 ; x 1 ; x 0',     # same name, two packages: Pkg(path).ExportFunc
    '2 | a 1 e 4 1 ; a 1 x 7 2 ; a 1 u 9 3 ; k 1 e 2 ; A 1 e 2 0 ; x 1',
    # two-level struct lookup: K keeps sm := b.Struct(x); sa/sr/sw/sc/sk go through sm, a/r/w/c/k through a fresh b.Struct(x)
    '1 | K 0 ; a 0 m 7 1 ; sa 0 m 8 2 ; x 0 ; x 0',
    '1 | K 0 ; sa 0 m 7 1 ; a 0 m 8 2 ; sc 0 m 8 ; x 0',
    '1 | a 0 m 7 1 ; K 0 ; sa 0 u 9 2 ; c 0 m 7 ; K 0 ; sr 0 m 7 3 ; x 0 ; x 0',
    '2 | K 0 ; K 1 ; sa 0 m 7 0 ; sa 1 m 7 1 ; a 0 u 9 2 ; x 1 ; x 0',
    '1 | K 0 ; sk 0 m 8 ; A 0 m 8 1 ; C 0 m 8 ; A 0 m 8 2 ; c 0 m 8 ; x 0',
    '1 | K 0 ; K 0 ; sw 0 m 8 1 3 ; a 0 u 9 1 ; sc 0 u 9 ; sa 0 u 9 2 ; x 0',
]
MALFORMED = ['1 | a 0 q 0 1', '1 | a 0 m 0 1', '1 | a 3 f 0 1', '1 | z 0', '1 | a 0 f 0 9', '1 | a 0 f 0 1 3', '1 | a 0 f 0', '1 | w 0 u 9 1', '1 | w 0 f 7 1', '1 | A 0 f 0 1', '1 | k 0 f 0 ; C 0 e 0', '1 | k 0 v 0', '1 | k 0 f 0 1', '1 | sa 0 m 7 1', '1 | K 0 ; sa 0 f 0 1', '1 | K 0 1', '1 | K 0 ; sa 0 e 7 1', '1 | a 0 e 10 1', '1 | a 0 m 12 1', '1 | a 0 v 12 1 3', '1 | a 0 f 21 1', '1 | a 0 e 19 1', '1 | a 0 p 4 1', '1 | a 0 v 10 1', '1 | a 0 e 17 1', '1 | a 0 x 12 1', '1 | ab 0 e 0', '1 | Y 0 1', '1 | a 0 f 18 1 0', '1 | K 0 ; sa 0 m 17 1']


def gen_history(rng, maxlen=25, allow_orphan=False):
    """Random history.  In about a third of them the user also keeps mocker handles (`k`) and works through them (`A`/`R`/`C`).
    Generator scope: while a kept handle is cancelled, the same (builder, via, target) is not looked up afresh — that would
    orphan the handle (the builder replaces its cache entry) and Reset can no longer reach its mocks: known finding F27-c02-orphan.
    `allow_orphan=True` (the orphan lane) lifts that restriction."""
    nb = 1 + rng.below(3)
    n = 1 + rng.below(maxlen)
    pool = sorted({rng.below(NT) for _ in range(2 + rng.below(5))})
    steps = []
    use_handles = rng.chance(1, 3)
    struct_focus = rng.chance(1, 6)   # histories about the two-level Struct(x) -> Method(m) lookup with a kept struct mocker
    if struct_focus:
        use_handles = True
        pool = sorted(set(pool) | {7, 8, 9})
    kept_structs = set()  # builders whose struct mocker sm := b.Struct(x) is kept (op K)
    hstate = {}          # (b, via, t) -> 'live' | 'cancelled'
    for _ in range(n):
        r = rng.below(100)
        b = rng.below(nb)
        if r < 16:
            steps.append(f'x {b}')
            if rng.chance(1, 4):
                steps.append(f'x {b}')          # second Reset
            for k_ in hstate:
                if k_[0] == b:
                    hstate[k_] = 'cancelled'
            continue
        if rng.chance(1, 40):
            steps.append(f'Y {b}')
            continue
        if use_handles and rng.chance(1, 5 if struct_focus else 12):
            steps.append(f'K {b}')
            kept_structs.add(b)
            continue
        t = rng.choice(pool)
        via = rng.choice(VIAS[t])
        if struct_focus and rng.chance(3, 4):
            t = rng.choice([7, 8, 9])
            via = 'u' if t == 9 else rng.choice('mu')
        if use_handles and hstate and rng.chance(3, 5):
            b, via, t = rng.choice(sorted(hstate))     # come back to a kept handle
        key = (b, via, t)

        def sp():
            """go through the kept struct mocker instead of a fresh b.Struct(x)"""
            return via in 'mu' and t in T_METHODS and b in kept_structs and rng.chance(1, 2)
        if use_handles and (key in hstate or rng.chance(1, 3)):
            if key not in hstate or rng.chance(1, 8):
                steps.append(('sk' if sp() else 'k') + f' {b} {via} {t}')
                hstate[key] = 'live'
                continue
            if (hstate[key] == 'cancelled' and not (allow_orphan and rng.chance(1, 2))) or rng.chance(1, 2):
                q = rng.below(10)
                if q < 5:
                    steps.append(f'A {b} {via} {t} {rng.below(4)}')
                    hstate[key] = 'live'
                elif q < 8:
                    steps.append(f'R {b} {via} {t} {rng.below(50)}')
                    hstate[key] = 'live'
                else:
                    steps.append(f'C {b} {via} {t}')
                    hstate[key] = 'cancelled'
                continue
            # handle is live: a fresh lookup returns the same mocker (orphan lane: the handle may be cancelled — it is orphaned now)
            if hstate[key] == 'cancelled':
                hstate[key] = 'live'      # orphaned: from now on nothing is avoided for this key
            elif r < 30:
                hstate[key] = 'cancelled'
        pre = 's' if sp() else ''
        if via == 'f' and rng.chance(1, 25):
            steps.append(f'ab {b} f {t}')      # a callback with the wrong signature: rejected before anything is patched
            continue
        if r < 30:
            steps.append(f'{pre}c {b} {via} {t}')
            continue
        o = ''
        if rng.chance(1, 4):
            o = ' 3' if t in T_METHODS else ('' if (t in METHODS or t in (18, 19)) else f' {rng.below(3)}')
        if r < 75:
            steps.append(f'{pre}a {b} {via} {t} {rng.below(4)}{o}')
        elif r < 90:
            steps.append(f'{pre}r {b} {via} {t} {rng.below(50)}{o}')
        elif t in METHODS and via != 'm':
            steps.append(f'{pre}r {b} {via} {t} {rng.below(50)}{o}')   # When(arg) needs the Struct(..).Method mocker on methods; the generic body receives a dictionary first (argument fidelity is C01)
        else:
            steps.append(f'{pre}w {b} {via} {t} {rng.below(50)}{o}')
    return f'{nb} | ' + ' ; '.join(steps[:maxlen])


# ------------------------------------------------------------------ probe

_PROBE = {}


def build_probe():
    if 'bin' in _PROBE and os.path.exists(_PROBE['bin']):
        return _PROBE['bin']
    d = os.path.join(C.HARNESS, 'c02')
    extra = dict(C.helper_pkgs())
    extra['internal/zzverif/c02x/c02'] = {'sub.go': os.path.join(d, 'sub', 'sub.go')}
    extra['internal/zzverif/c02'] = {'targets_sub.go': os.path.join(d, 'targets_sub.go'), 'targets.go': os.path.join(d, 'targets.go'),
                                     'generic.go': os.path.join(d, 'generic.go'), 'zz_verif_c02_test.go': os.path.join(d, 'probe_test.go')}
    b, err = C.overlay_build('c02.' + RUN, 'internal/zzverif/c02', {}, extra)
    if b is None:
        raise C.Infra('C02 probe does not build against the current tree:\n' + err[-3000:])
    _PROBE['bin'] = b
    import atexit
    atexit.register(lambda: [os.remove(f) for f in (b, os.path.join(C.BUILD, f'c02.{RUN}.overlay.json')) if os.path.exists(f)])
    return b


def describe(binary):
    ops = os.path.join(C.BUILD, f'c02.{RUN}.describe.ops')
    outp = os.path.join(C.BUILD, f'c02.{RUN}.describe.out')
    open(ops, 'w').write('describe\n')
    rc, log = C.run_probe(binary, 'TestVerifC02Describe', ops, outp, timeout=120)
    res = C.read_indexed(outp, 2)
    if rc != 0 or not res[0]:
        raise C.Infra('C02 describe probe failed:\n' + log[-2000:])
    return res[0], res[1] or ''


def run_shard(binary, lines, tag, test='TestVerifC02', solo=False):
    """Run the probe on `lines`; a crash (SIGSEGV in patched code, fatal stack overflow) costs only the crashed history.
    A history during which the process died is run once more alone in a fresh process: only a death that reproduces is
    reported as a crash (a kill by an overloaded machine or a test timeout is not the history's fault)."""
    ops = os.path.join(C.BUILD, f'c02.{RUN}.{tag}.ops')
    outp = os.path.join(C.BUILD, f'c02.{RUN}.{tag}.impl')
    open(ops, 'w').write('\n'.join(lines) + '\n')
    res = [None] * len(lines)
    frm = 0
    crashes = 0
    while frm < len(lines):
        rc, log = C.run_probe(binary, test, ops, outp, env={'VERIF_FROM': str(frm)}, timeout=3600)
        got = C.read_indexed(outp, len(lines))
        nxt = len(lines)
        for i in range(frm, len(lines)):
            if got[i] is None:
                nxt = i
                break
            res[i] = got[i]
        if nxt >= len(lines):
            break
        if res[nxt - 1] is not None and nxt > frm and res[nxt - 1].endswith('dirty'):
            frm = nxt                      # the probe asked for a fresh process
            continue
        m = re.findall(r'c02 running (\d+)', log)
        cls = 'crash'
        if 'stack overflow' in log or 'goroutine stack exceeds' in log:
            cls = 'crash:stack-overflow'
        elif 'SIGSEGV' in log or 'unexpected signal' in log:
            cls = 'crash:signal'
        if not (m and int(m[-1]) == nxt):
            cls = 'crash:no-output'
        if solo:
            res[nxt] = cls
        else:
            again = run_shard(binary, [lines[nxt]], tag + '.solo', test=test, solo=True)[0]
            res[nxt] = again if again is not None else cls
        crashes += 1
        frm = nxt + 1
        if crashes > 50:
            raise C.Infra('C02 probe keeps dying:\n' + log[-1500:])
    for f in (ops, outp):
        if os.path.exists(f) and not os.environ.get('VERIF_KEEP'):
            os.remove(f)
    return res


def run_impl(binary, lines, tag='run'):
    nsh = max(1, min(C.NCPU // 2, (len(lines) + 39) // 40))
    shards = [lines[i::nsh] for i in range(nsh)]
    with ThreadPoolExecutor(nsh) as ex:
        outs = list(ex.map(lambda p: run_shard(binary, p[1], f'{tag}{p[0]}'), enumerate(shards)))
    res = [None] * len(lines)
    for k, o in enumerate(outs):
        res[k::nsh] = o
    return res


# ------------------------------------------------------------------ the property, stated on the implementation's observations

OBS = re.compile(r'^(\S+) d=(\S+) b=(\S+) n=(\S+)$')


def oracle(hist, obs, fixok, known=None):
    """None if the observation of one history satisfies C02, else a description of the first failure.
    `live` is kept from the history alone: (builder, via, target) triples that were mocked and not cancelled/reset since.
    Known finding F27-c02-orphan is recognised from the history alone as well: a kept handle that was cancelled, then replaced
    in the builder's cache by a fresh lookup of the same function, then used again.  Its mocks are allowed to survive Reset;
    when they do, a line is appended to `known` instead of failing (every other requirement stays in force)."""
    if obs is None:
        return 'no observation'
    if obs.startswith('crash'):
        return 'the process died: ' + obs
    if obs == 'env-mismatch':
        raise C.Infra('the probe binary sees other addresses / sizes than the describe run (PIE or a rebuilt binary?)')
    hstate = {}        # kept handle per (builder, via, target): live | cancelled | orphan
    orphan_live = set()
    nb, steps = hist.split(' | ')
    steps = [s.split() for s in steps.split(' ; ')]
    parts = obs.split(' ; ')
    live = set()
    live_ok = set()  # the subset whose mocking call returned normally: these must be restored by Cancel/Reset
    used_ph = set()
    has_when = set() # keys whose mocker already owns a When: Return/When on them only edit that object, they do not patch
    sticky = {}      # (builder, via, target) -> placeholder: Origin() stays configured on a mocker until it is cancelled
    for i, st in enumerate(steps):
        if i >= len(parts) - 1:
            return f'step {i}: no observation'
        if parts[i] == 'bad-op':
            return None
        m = OBS.match(parts[i])
        if not m:
            return f'step {i}: unparsable observation {parts[i]!r}'
        res, d, b, n = m.groups()
        beh = b.split(',')
        restored = set()
        if len(st[0]) == 2 and st[0][0] == 's':
            st = [st[0][1:]] + st[1:]            # through the kept struct mocker: the same child mocker as a fresh b.Struct(x) gives
        # --- kept handles, from the history alone
        if st[0] == 'x':
            for kk in hstate:
                if kk[0] == st[1] and hstate[kk] == 'live':
                    hstate[kk] = 'cancelled'
        elif len(st) >= 4 and st[0] not in ('Y', 'K'):
            hk = (st[1], st[2], int(st[3]))
            if st[0] == 'k':
                hstate[hk] = 'live'              # a fresh lookup: the handle is the builder's cache entry
            elif st[0] in 'ARC' and hk in hstate:
                if hstate[hk] == 'orphan':
                    if st[0] == 'C':
                        orphan_live.discard(hk)
                    elif res == 'ok':
                        orphan_live.add(hk)
                    st = ['nop']                 # nothing the builder can be held to
                else:
                    hstate[hk] = 'cancelled' if st[0] == 'C' else 'live'
            elif st[0] in ('a', 'r', 'w', 'c', 'ab') and hstate.get(hk) == 'cancelled':
                hstate[hk] = 'orphan'            # the builder replaces its cancelled cache entry: the kept handle is on its own now
            elif st[0] == 'c' and hstate.get(hk) == 'live':
                hstate[hk] = 'cancelled'
        if st[0] in ('k', 'K', 'Y'):
            st = ['nop']                         # a bare lookup mocks nothing
        elif st[0] in 'ARC':
            st = [st[0].lower()] + st[1:]        # through a kept handle: same mocker as the (builder, via, target) lookup
        if st[0] == 'x':
            restored = {t for (bb, v, t) in live_ok if bb == st[1]}
            live = {e for e in live if e[0] != st[1]}
            live_ok = {e for e in live_ok if e[0] != st[1]}
            sticky = {k: v for k, v in sticky.items() if k[0] != st[1]}
            has_when = {k for k in has_when if k[0] != st[1]}
        elif st[0] == 'c':
            restored = {int(st[3])} if (st[1], st[2], int(st[3])) in live_ok else set()
            live.discard((st[1], st[2], int(st[3])))
            live_ok.discard((st[1], st[2], int(st[3])))
            sticky.pop((st[1], st[2], int(st[3])), None)
            has_when.discard((st[1], st[2], int(st[3])))
        elif st[0] == 'nop':
            pass
        else:
            t = int(st[3])
            live.add((st[1], st[2], t))
            patches = st[0] == 'a' or (st[1], st[2], t) not in has_when
            if st[0] in 'rw':
                has_when.add((st[1], st[2], t))
            elif res == 'ok':
                has_when.discard((st[1], st[2], t))   # a successful Apply discards the mocker's When (mocker.go Apply: m.when = nil)
            if res == 'ok' and patches:
                live_ok.add((st[1], st[2], t))
            if len(st) > 5:
                used_ph.add(int(st[5]))
                sticky[(st[1], st[2], t)] = int(st[5])
        allowed = {t for (_, _, t) in live} | {t for (_, _, t) in orphan_live}
        restored -= {t for (_, _, t) in orphan_live}
        dset = {} if d == '-' else dict((e.split('=', 1) + [''])[:2] for e in d.split(','))
        for sym, val in dset.items():
            if sym.startswith('o') and sym[1:].isdigit() and not val:
                if int(sym[1:]) not in used_ph:
                    return f'step {i} `{" ".join(st)}`: placeholder {sym} changed without having been passed to Origin'
                continue
            mm = re.match(r'^f(\d+)$', sym)
            if not mm or not val.startswith('jmp('):
                return f'step {i} `{" ".join(st)}`: image differs outside entry jumps: {sym}{"=" + val if val else ""}'
            if int(mm.group(1)) not in allowed:
                return f'step {i} `{" ".join(st)}`: {sym} carries a jump but no live mock of it exists in the history'
        for t in restored:
            if f'f{t}' in dset:
                return f'step {i} `{" ".join(st)}`: f{t} was mocked by what has just been cancelled but its bytes are not restored ({dset[f"f{t}"]})'
            if beh[t] != 'o':
                return f'step {i} `{" ".join(st)}`: f{t} does not behave as the original after Reset/Cancel ({beh[t]})'
        for t in range(NT):
            if f'f{t}' not in dset and beh[t] != 'o':
                return f'step {i} `{" ".join(st)}`: f{t} has pristine bytes but behaves {beh[t]}'
            if t not in allowed and beh[t] != 'o':
                return f'step {i} `{" ".join(st)}`: f{t} is not mocked but behaves {beh[t]}'
        if any(x != 'o' for x in n.split(',')):
            return f'step {i} `{" ".join(st)}`: an untouched neighbour changed behaviour ({n})'
        if st[0] == 'a':
            t, k = int(st[3]), st[4]
            o = sticky.get((st[1], st[2], t))
            want_ok = o is None or fixok[t][o] == '1'
            # a generic target is entered through a heap adapter that drops the dictionary word and forwards the arguments
            wantjmp = 'jmp(heap)' if t in GENERICS else f'jmp(k{k})'
            if want_ok and (res != 'ok' or beh[t] != 'c' + k or dset.get(f'f{t}') != wantjmp):
                return f'step {i} `{" ".join(st)}`: (re-)mock did not take effect: {res} {dset.get(f"f{t}")} {beh[t]}'
    end = parts[len(steps)] if len(parts) > len(steps) else ''
    if not end.startswith('end d='):
        return 'no end-of-history observation'
    e = end[len('end d='):].split()
    if len(e) > 1:
        return 'image could not be brought back to the snapshot after the history'
    for sym in ([] if e[0] == '-' else e[0].split(',')):
        if not re.match(r'^o\d+$', sym):
            mm = re.match(r'^f(\d+)=jmp\(', sym)
            if mm and known is not None and int(mm.group(1)) in {t for (_, _, t) in orphan_live}:
                known.append(f'after Reset of every builder {sym} is still installed: it was applied through a kept handle that the '
                             f'builder had replaced in its cache while it was cancelled')
                continue
            return f'after Reset of every builder the image still differs at {sym}'
    return None


# ------------------------------------------------------------------ oracle-only lane: a handle used again after its Cancel / Reset

STALE = [f'c02.stale {via} {t} {first} {undo} {second}' for via, t in (('f', 3), ('f', 0), ('m', 8), ('f', 7))
         for first in 'ar' for undo in 'cx' for second in 'ar']


def stale_oracle(line, obs):
    """Re-mocking through the same handle after Cancel/Reset must work like the first time (or at least not kill the process)."""
    _, via, t, first, undo, second = line.split()
    cls = {'a': 'c', 'r': 's'}
    want = f'{cls[first]}1,o,{cls[second]}2,o'.replace('s1', 's').replace('s2', 's') + ' end d=-'
    if obs is None:
        return 'no observation'
    if obs.startswith('crash'):
        return 'the process died: ' + obs
    if obs != want:
        return f'observed {obs}, wanted {want}'
    return None


# ------------------------------------------------------------------ oracle-only lane: two instantiations of one generic function with the same gc shape

SHAPE = ['c02.shape']


def shape_oracle(obs):
    """Mocking Q[*ShA] must not alter Q[*ShB] (known finding F28-c02-gcshape: both run the one shape body goom patches)."""
    if obs is None:
        return 'no observation'
    if obs.startswith('crash'):
        return 'the process died: ' + obs
    if obs != 'a=c1 b=o after=o,o end d=-':
        return f'observed `{obs}`, wanted `a=c1 b=o after=o,o end d=-` (mock Q[*ShA]; call Q[*ShA], Q[*ShB]; Reset; call both)'
    return None


# ------------------------------------------------------------------ oracle-only lane: two instantiations that differ only in a type parameter absent from the signature

PHANTOM = ['c02.phantom']
PHANTOM_WANT = 'a=c1 b=c2 then=s,c2 after=o,o end d=-'


def phantom_oracle(obs):
    """Z[int8] and Z[string] (`func Z[T any](x int) int`) are two functions with one func type: in ONE builder each gets its own
    mocker, each runs its own replacement, a re-stub of one leaves the other alone, Reset restores both (seed C12-R6-2)."""
    if obs is None:
        return 'no observation'
    if obs.startswith('crash'):
        return 'the process died: ' + obs
    if obs != PHANTOM_WANT:
        return f'observed `{obs}`, wanted `{PHANTOM_WANT}` (one builder: Func(Z[int8]).Apply(k1); Func(Z[string]).Apply(k2); call both; Func(Z[int8]).Return(..); call both; Reset; call both)'
    return None


# ------------------------------------------------------------------ oracle-only lane: internal/patch driven directly

PLOW = ['c02.plow']
PLOW_WANT = ('A:tiny=refused/same,refused/same,refused/same nop=refused/same,refused/same '
             'nb=accepted/diff@0x108+13/same,accepted/diff@0x108+13/same '
             'B:n0=c1 unpatch(H10)=false n0=c1 reset=o end d=-')


def plow_oracle(obs):
    """The exits of replaceFunc that no Go-compiled target reaches (too short, NOP sentinel) refuse EVERY attempt and write nothing;
    an ordinary neighbour gets exactly 13 bytes and gets them back; Unpatch of an unpatched function changes nothing."""
    if obs is None:
        return 'no observation'
    if obs.startswith('crash'):
        return 'the process died: ' + obs
    if obs.startswith('A:no-exec-memory'):
        raise C.Infra('the sandbox gives no executable anonymous memory to the patch-level lane')
    if obs != PLOW_WANT:
        return f'observed `{obs}`, wanted `{PLOW_WANT}`'
    return None


# ------------------------------------------------------------------ run

def execute(hists, tag='run'):
    binary = build_probe()
    envline, layout = describe(binary)
    lines = [f'c02.hist {envline} | {h}' for h in hists]
    impl = run_impl(binary, lines, tag)
    ops_path = os.path.join(C.BUILD, f'c02.{RUN}.{tag}.all.ops')
    open(ops_path, 'w').write('\n'.join(lines) + '\n')
    exe, err = C.build_driver()
    model = C.run_driver(exe, ops_path, os.path.join(C.BUILD, f'c02.{RUN}.{tag}.model')) if exe else None
    fixok = envline.split(' X=')[1].split(',')
    return impl, model, err, envline, layout, fixok


def shrink(h, fails):
    """delta-debug the step list of one history while `fails(history)` stays true"""
    nb, steps = h.split(' | ')
    steps = steps.split(' ; ')
    i = 0
    while i < len(steps) and len(steps) > 1:
        cand = steps[:i] + steps[i + 1:]
        if fails(f'{nb} | ' + ' ; '.join(cand)):
            steps = cand
        else:
            i += 1
    return f'{nb} | ' + ' ; '.join(steps)


def stats(hists, impl):
    kinds = collections.Counter()
    vias = collections.Counter()
    res = collections.Counter()
    nbs = collections.Counter()
    lens = collections.Counter()
    feats = collections.Counter()
    maxpatched = 0
    for h, o in zip(hists, impl):
        nb, steps = h.split(' | ')
        steps = [s.split() for s in steps.split(' ; ')]
        if not o or 'bad-op' in o or o.startswith('crash') or o == 'env-mismatch':
            feats['malformed-or-crash'] += 1
            continue
        nbs[nb] += 1
        lens[min(len(steps) // 5 * 5, 25)] += 1
        parts = o.split(' ; ')
        applied = {}
        lastreset = {}
        for i, st in enumerate(steps):
            kinds[st[0] + ('+origin' if st[0] in 'arw' and len(st) > 5 else '')] += 1
            m = OBS.match(parts[i])
            if not m:
                continue
            res[m.group(1)] += 1
            np_ = m.group(2).count('=jmp(')
            maxpatched = max(maxpatched, np_)
            if np_ >= 2:
                feats['steps with >=2 targets patched'] += 1
            if st[0] == 'x':
                if lastreset.get(st[1]) == i - 1:
                    feats['second Reset in a row'] += 1
                lastreset[st[1]] = i
                for key in [k for k in applied if k[0] == st[1]]:
                    applied[key] = 'reset'
            elif st[0] == 'K' or (len(st[0]) == 2 and st[0][0] == 's'):
                feats['struct mocker kept' if st[0] == 'K' else 'steps through a kept struct mocker'] += 1
            elif st[0] in 'ARCk':
                vias[st[2]] += 1
                feats['steps through a kept handle' if st[0] != 'k' else 'handles kept'] += 1
            elif st[0] in 'arw':
                vias[st[2]] += 1
                key = (st[1], st[3])
                if applied.get(key) == 'on':
                    feats['re-apply over a live mock (same builder)'] += 1
                if applied.get(key) == 'reset' and m.group(1) == 'ok':
                    feats['re-mock after Reset'] += 1
                if any(k[1] == st[3] and k[0] != st[1] and v == 'on' for k, v in applied.items()):
                    feats['mock over another builder\'s live mock'] += 1
                if m.group(1) == 'ok':
                    applied[key] = 'on'
            elif st[0] == 'c':
                if applied.get((st[1], st[3])) == 'on':
                    feats['Cancel of a live mock'] += 1
                    applied[(st[1], st[3])] = 'reset'
    return {'op kinds': dict(kinds), 'via': dict(vias), 'step results': dict(res), 'builders per history': dict(nbs),
            'history length (bucket of 5)': {str(k): v for k, v in sorted(lens.items())}, 'situations': dict(feats),
            'max targets patched at once': maxpatched}


def run(tier):
    out = C.Outcome('C02', tier)
    rng = C.Rng(C.seed()).fork('C02')
    ok, msg, changed = C.regen(GEN)
    proof = C.prove('C02', leanchecker=(tier == 'thorough')) if ok else {
        'ok': False, 'failed': [('translator', msg)], 'obligations': 0, 'discharged': 0, 'cmds': [], 'axioms': {}}
    n = 1500 if tier == "quick" else 40000
    hists = list(CORPUS) + MALFORMED
    regress = os.path.join(C.HARNESS, 'c02', 'regress.txt')
    if os.path.exists(regress):
        hists += [l.strip() for l in open(regress) if l.strip() and not l.startswith('#')]
    while len(hists) < n + len(CORPUS) + len(MALFORMED):
        hists.append(gen_history(rng))
    # the orphan lane (known finding F27-c02-orphan): the generator restriction is lifted, the oracle recognises the situation
    orng = rng.fork('orphan')
    orphan = ['1 | k 0 f 3 ; A 0 f 3 1 ; C 0 f 3 ; c 0 f 3 ; A 0 f 3 2 ; x 0',
              '1 | k 0 f 0 ; A 0 f 0 1 ; x 0 ; k 0 e 0 ; c 0 f 0 ; x 0 ; A 0 f 0 3 ; x 0',
              '2 | k 1 m 8 ; A 1 m 8 1 ; x 1 ; a 1 m 8 2 ; R 1 m 8 3 ; x 1 ; x 1']
    for _ in range(60 if tier == 'quick' else 1500):
        orphan.append(gen_history(orng, allow_orphan=True))
    orphan = [h for h in dict.fromkeys(orphan) if h not in set(hists)]
    n_main = len(hists := list(dict.fromkeys(hists)))
    hists = hists + orphan
    impl, model, derr, envline, layout, fixok = execute(hists)
    if sum(1 for o in impl if o and '=jmp(' in o) < len(hists) // 2:
        raise C.Infra('fewer than half of the histories ever showed an entry jump: the probe is not mocking anything')

    def fails_oracle(h):
        i2, _, _, _, _, fx = execute([h], tag='shrink')
        return oracle(h, i2[0], fx) is not None

    # 1. the property on the implementation
    known_hits = []
    bad = []
    for i, h in enumerate(hists):
        kn = [] if i >= n_main else None          # known findings are recognised in the orphan lane only
        why = oracle(h, impl[i], fixok, kn)
        if why:
            bad.append((i, h, why))
        elif kn:
            known_hits.append((h, impl[i], kn[0]))
    if known_hits:
        h, o, what = known_hits[0]
        out.violation(f'history `{h}`: {what}', {'kind': 'impl-oracle', 'ops': [h], 'observed': o, 'why': what,
                                                  'histories_with_this_finding': len(known_hits),
                                                  'how': 'python3 check.py C02 --replay <this file>'}, key='orphaned-handle')
    seen = set()
    for i, h, why in bad:
        cls = re.sub(r'\d+', 'N', why)
        if cls in seen or len(seen) >= 3:
            continue
        seen.add(cls)
        hs = shrink(h, fails_oracle) if len(bad) < 2000 else h
        i2, m2, _, _, _, fx = execute([hs], tag='shrink')
        out.violation(f'history `{hs}`: {oracle(hs, i2[0], fx) or why}',
                      {'kind': 'impl-oracle', 'ops': [hs], 'original': h, 'observed': i2[0], 'model': m2[0] if m2 else None,
                       'why': why, 'how': 'python3 check.py C02 --replay <this file>'})
    # 1b. oracle-only lane (not modelled): the same handle used again after its own Cancel / the builder's Reset
    binary = build_probe()
    stale_obs = run_shard(binary, STALE, 'stale', test='TestVerifC02Stale')
    stale_bad = [(l, o, why) for l, o in zip(STALE, stale_obs) for why in [stale_oracle(l, o)] if why]
    if stale_bad:
        l, o, why = stale_bad[0]
        out.violation(f'`{l}` (m := mocker for target; mock; undo; mock again through the same handle m; Reset): {why}',
                      {'kind': 'impl-oracle-stale-handle', 'ops': [l], 'observed': o, 'why': why, 'failing_lines': len(stale_bad),
                       'how': 'python3 check.py C02 --replay <this file>'}, key='stale-handle-after-cancel')
    # 1c. oracle-only lane: same-shape instantiations of a generic function
    shape_obs = run_shard(binary, SHAPE, 'shape', test='TestVerifC02Stale')
    shape_why = shape_oracle(shape_obs[0])
    if shape_why:
        out.violation(f'`b.Func(Q[*ShA]).Apply(cb)` and Q[*ShB]: {shape_why}',
                      {'kind': 'impl-oracle-gcshape', 'ops': SHAPE, 'observed': shape_obs[0], 'why': shape_why,
                       'how': 'python3 check.py C02 --replay <this file>'}, key='generic-same-shape')
    # 1c'. oracle-only lane: instantiations that differ only in a type parameter that is not part of the signature
    ph_obs = run_shard(binary, PHANTOM, 'phantom', test='TestVerifC02Stale')
    ph_why = phantom_oracle(ph_obs[0])
    if ph_why:
        out.violation(f'`Func(Z[int8])` / `Func(Z[string])` in one builder: {ph_why}',
                      {'kind': 'impl-oracle-generic-phantom-param', 'ops': PHANTOM, 'observed': ph_obs[0], 'why': ph_why,
                       'how': 'python3 check.py C02 --replay <this file>'})
    # 1d. oracle-only lane: the patch layer on synthetic code (size / sentinel refusals, exact 13 bytes) and patch.Unpatch of an unpatched function
    plow_obs = run_shard(binary, PLOW, 'plow', test='TestVerifC02Stale')
    plow_why = plow_oracle(plow_obs[0])
    if plow_why:
        out.violation(f'patch-level lane: {plow_why}',
                      {'kind': 'impl-oracle-patch-level', 'ops': PLOW, 'observed': plow_obs[0], 'why': plow_why,
                       'how': 'python3 check.py C02 --replay <this file>'})
    # 2. correspondence
    if model is None:
        proof['failed'].append(('goomdrv', 'driver does not build: ' + derr[-500:]))
    diffs = C.diff_streams(hists, impl, model) if model is not None else []
    if not bad:
        if diffs:
            i, h, a, b = diffs[0]

            def fails_corr(hh):
                i2, m2, _, _, _, _ = execute([hh], tag='shrink')
                return m2 is not None and i2[0] != m2[0]
            hs = shrink(h, fails_corr)
            i2, m2, _, _, _, _ = execute([hs], tag='shrink')
            out.violation(f'model and implementation disagree on history `{hs}`',
                          {'kind': 'correspondence', 'ops': [hs], 'original': h, 'impl': i2[0], 'model': m2[0] if m2 else None,
                           'broken': 'correspondence Model/Patch.lean vs goom on a public-API history (the theorems of Props/C02.lean are about this model)',
                           'n_disagreements_shown': len(diffs)}, no_failing_input=True)
        elif not proof['ok']:
            out.violation('proof obligations of Props/C02.lean no longer check and no failing history was found in the search',
                          {'kind': 'proof', 'broken': proof['failed'], 'searched': len(hists), 'output': proof.get('output', '')[-3000:]},
                          no_failing_input=True)
    nontrivial = len({h for h, o in zip(hists, impl) if o and '=jmp(' in o})
    out.coverage = {
        'obligations': proof['obligations'], 'discharged': proof['discharged'],
        'checker_cmd': ' ; '.join(proof['cmds']),
        'trusted_base': ['Lean 4.33 kernel', 'axioms: ' + ', '.join(sorted({a for v in proof['axioms'].values() for a in v}) or ['none']),
                         'Model/Patch.lean (hand transcription; executed against the real code on every history below)',
                         'tools/gen translator for jmpToFunctionValue / checkAlreadyPatch (cross-checked by C15 and by the jump bytes compared here)',
                         'probe harness/c02 (snapshot/diff of the r-x mapping of /proc/self/exe, canonicalisation) and the generators',
                         'measured parameters: function sizes, first 16 bytes, funcval addresses, relocation outcome per (target, placeholder)'],
        'theorems': proof['axioms'], 'proof_failures': proof['failed'],
        'evaluations': sum(len(h.split(' ; ')) for h in hists), 'histories': len(hists), 'distinct_nontrivial': nontrivial,
        'traces_validated_against_impl': len(hists) - len(diffs),
        'rule': 'one evaluation = one history step, after which the whole executable image (see layout.text bytes) is compared with the snapshot and '
                'all 20 targets + 3 neighbours are called; non-trivial = distinct history in which at least one entry jump was observed in the image',
        'distribution': dict(stats(hists, impl), layout=layout, env=envline, gen_modules_changed_this_run=changed),
        'stale_handle_lane': {'lines': len(STALE), 'failing': len(stale_bad), 'note': 'oracle on the implementation only; not part of the model'},
        'orphan_lane': {'histories': len(orphan), 'with_known_finding': len(known_hits)},
        'gcshape_lane': {'observed': shape_obs[0]},
        'patch_level_lane': {'observed': plow_obs[0]},
        'samples': [{'hist': hists[i], 'impl': impl[i], 'model': model[i] if model else None} for i in (0, len(hists) // 2, len(hists) - 1)],
    }
    out.assumptions = ['the CPU executes the bytes that are in the image (behaviour is additionally observed by calling)',
                       'single goroutine; concurrency is C11', 'placeholder relocation correctness is C03; here placeholder bodies are an allowed-diff region']
    return out.finish()


def replay(body):
    hists = body.get('ops', [])
    if hists and hists[0].startswith('c02.plow'):
        obs = run_shard(build_probe(), hists, 'plow-replay', test='TestVerifC02Stale')
        why = plow_oracle(obs[0])
        print(f'{hists[0]}\n  impl : {obs[0]}\n  oracle: {why or "ok"}')
        return 1 if why else 0
    if hists and hists[0].startswith('c02.shape'):
        obs = run_shard(build_probe(), hists, 'shape-replay', test='TestVerifC02Stale')
        why = shape_oracle(obs[0])
        print(f'{hists[0]}\n  impl : {obs[0]}\n  oracle: {why or "ok"}')
        return 1 if why else 0
    if hists and hists[0].startswith('c02.stale'):
        obs = run_shard(build_probe(), hists, 'stale-replay', test='TestVerifC02Stale')
        rc = 0
        for l, o in zip(hists, obs):
            why = stale_oracle(l, o)
            print(f'{l}\n  impl : {o}\n  oracle: {why or "ok"}')
            rc = rc or (1 if why else 0)
        return rc
    impl, model, _, envline, _, fixok = execute(hists, tag='replay')
    rc = 0
    for i, h in enumerate(hists):
        kn = []
        why = oracle(h, impl[i], fixok, kn)
        why = why or (kn[0] if kn else None)
        print(f'{h}')
        a = (impl[i] or '').split(' ; ')
        b = (model[i] if model else '').split(' ; ')
        for j in range(max(len(a), len(b))):
            x = a[j] if j < len(a) else None
            y = b[j] if j < len(b) else None
            print(f'  [{j}] impl : {x}' + ('' if x == y else f'\n      model: {y}'))
        print(f'  oracle: {why or "ok"}')
        if why or (model and impl[i] != model[i]):
            rc = 1
    return rc
