"""C15 — emitted jump sequences transfer control to exactly the requested address.

Tie T: the emitter files (and the stub slot size of make_method.go) are re-translated to Lean on every run and the
theorems of Props/C15.lean are re-checked against them.  Tie X, two lanes:
 * `emit`: the real Go emitters (arm64 source re-hosted so it compiles here, the 386 source built for GOARCH=386) are run
   on the same pairs as the generated Lean functions; the bytes are compared, and interpreted on the Go side with the
   toolchain's reference decoders, on the Lean side with the hand-written mini ISA, and the two results compared;
 * `site`: the real *call sites* are driven — genJumpData, a real Patch+Apply, the jump back that a real Trampoline()
   leaves in the placeholder (same origin through placeholder A, B, A again; other origins through the same placeholders),
   MakeMethodCaller / MakeMethodCallerWithCtx — what they leave in memory is read back, interpreted with the same
   reference interpreter, executed, and turned into `emit` lines (from = where the bytes sit, to = the destination
   computed independently of goom) that the model driver answers from the proved emitters.
The oracle below states the property itself on the implementation's output, independently of the model.
"""
import os
import subprocess

from vlib import common as C

META = {
    'property_id': 'C15',
    'technique': 'Lean 4 theorems over all 64-bit from/to about emitters regenerated from the Go source (translator) + differential run against the real emitters and the real call sites',
    'level': 'proof',
    'level_text': 'Full proof (F5 repaired by F27-c15). For every 64-bit from/to and every machine state the byte sequences produced by the (regenerated) emitters execute under the mini ISA specification to exactly the intended RIP/RDX (PC/X26/X10|X27) when diverting a function and when entering an interface stub; the jump back from a trampoline lands exactly on its destination with no register changed in both forms (C15.return_exact), also when composed with the placement used at the call site (from = trampoline + length of the relocated head); the relative form is chosen iff some rel32 reaches the destination; every stub fits the interfaceJumpDataLen slot. The emitters are re-translated from the Go source on every run, so an edit to them is re-proved or breaks the proof.',
    'level_note': 'Trusted: Lean kernel (axioms propext, Classical.choice, Quot.sound only), tools/gen translator and the hand-written mini ISA (both cross-checked on every run against the real Go emitters and the toolchain reference decoders on ~45k pairs incl. the +-2GiB boundary), totalised slice indexing in generated code (bounds behaviour of checkAlreadyPatch compared by the c15.cap lane). Call sites (argument wiring of jumpdata.go:53, make_method.go:23/40, fix_origin_amd64.go:58) are tied by observation only: the site lane reads back what real patches leave in memory in this binary; jump_back_site states the placement obligation. arm64: jmpToOriginFunctionValue is panic("not support yet") — guarded by arm64_origin_unimplemented, no landing claim; jmpWithRdxAndCtx has no caller (theorem kept). Not modelled: instruction fetch of freshly written code (arm64 i-cache), that X10 is an ABIInternal argument register on arm64.',
}

GEN = ['JmpAmd64', 'JmpArm64', 'Jmp386', 'JmpIfaceAmd64', 'JmpIfaceArm64', 'IfaceConst']
M64 = (1 << 64) - 1
RDX0 = 0xdddddddddddddddd       # initial RDX of both interpreters
A64INIT = 0xa0a0a0a000           # initial Xr = A64INIT + r
KINDS = ['amd64.entry', 'amd64.origin', 'amd64.relative', 'amd64.stub', 'arm64.entry', 'arm64.stub', 'arm64.stubctx',
         'arm64.origin', 'i386.entry']
PTR_KEY = 'ptr-api-accepts-pointer-replacement'
CHUNK = 400_000                  # ops per chunk: the thorough tier streams ~20M ops through files, never holds them all

# tag, package (virtual dirs are created by overlay), {virtual file: probe file}, re-hosted sources, lanes, build env
PROBES = [
    ('patch', 'internal/patch', {'zz_verif_c15_test.go': 'c15/patch_probe_test.go', 'zz_verif_c15site_test.go': 'c15/patch_site_test.go'},
     None, ('emit', 'site'), None),
    ('iface', 'internal/iface', {'zz_verif_c15_test.go': 'c15/iface_probe_test.go', 'zz_verif_c15site_test.go': 'c15/iface_site_test.go'},
     None, ('emit', 'site'), None),
    ('a64patch', 'internal/zzverif/a64patch', {'zz_verif_c15_test.go': 'c15/a64patch_probe_test.go'},
     {'emit_a64.go': 'internal/patch/monkey_arm64.go'}, ('emit',), None),
    ('a64iface', 'internal/zzverif/a64iface', {'zz_verif_c15_test.go': 'c15/a64iface_probe_test.go'},
     {'emit_a64.go': 'internal/iface/jmp_arm64.go'}, ('emit',), None),
    # the 386 emitter runs as a real 32-bit program (uintptr is 32 bits, as on the target); falls back to the amd64 re-host
    ('i386patch', 'internal/zzverif/i386patch', {'zz_verif_c15_test.go': 'c15/i386patch_probe_test.go'},
     {'emit_i386.go': 'internal/patch/monkey_386.go'}, ('emit',), {'GOARCH': '386', 'CGO_ENABLED': '0'}),
]


class Scratch:
    """Per-process scratch names under BUILD, so that two concurrent C15 runs cannot touch each other's files."""

    def __init__(self, what):
        self.tag = f'c15-{what}-{os.getpid()}'
        self.files = []

    def path(self, name):
        p = os.path.join(C.BUILD, f'{self.tag}.{name}')
        self.files.append(p)
        return p

    def cleanup(self):
        for p in self.files:
            try:
                os.remove(p)
            except OSError:
                pass


# ------------------------------------------------------------------ generators

def gen_pairs(tier, rng):
    """(from,to) pairs: every 16-bit lane (strided in quick), the ±2 GiB decision boundary, 0 / 2^63 / 2^64 edges, random.
    A generator: the thorough tier never materialises the whole list."""
    stride = 1 if tier == 'thorough' else 251
    bases = [0, 0x0000004000401000]
    for lane in range(4):
        for v in range(0, 65536, stride):
            yield (0x401000, v << (16 * lane))
        for v in (1, 0x7fff, 0x8000, 0xffff):
            for b in bases:
                yield (b, (b & ~(0xffff << (16 * lane))) | (v << (16 * lane)))
    kmax = 64 if tier == 'quick' else 4096
    for base in (0x100000000, 0x7f0000000000, 0x401000, 0xffffffff00000000, 1 << 63):
        for k in range(-kmax, kmax + 1):
            for d in ((1 << 31) + k, -(1 << 31) + k):
                yield (base, (base + d) & M64)       # to = from + d
                yield ((base + d) & M64, base)
    for k in range(-8, 9):
        for base in (0, 1 << 63, M64, 0x401000):
            yield (base, (base + k) & M64)
            yield (base, (base + (1 << 63) + k) & M64)
    # the arm64 interpreters start from Xr = A64INIT + r: destinations that coincide with those markers
    for r in (10, 26, 27):
        yield (0x401000, A64INIT + r)
        yield (0x401000, (~(A64INIT + r)) & M64)
    n = 2000 if tier == 'quick' else 1_200_000
    for _ in range(n):
        f = rng.next()
        mode = rng.below(4)
        if mode == 0:
            t = rng.next()
        elif mode == 1:
            t = (f + rng.below(1 << 33) - (1 << 32)) & M64
        elif mode == 2:
            t = (f + (1 << 31) * (1 if rng.below(2) else -1) + rng.below(64) - 32) & M64
        else:
            t = rng.next() & ((1 << rng.below(65)) - 1)
        yield (f, t)


def pair_ops(f, t):
    for k in KINDS:
        if k == 'i386.entry':
            yield f'emit {k} {f & 0xffffffff:#x} {t & 0xffffffff:#x}'
        else:
            yield f'emit {k} {f:#x} {t:#x}'


def extra_ops(rng):
    """conc lane (concurrent callers of the pure emitters) and c15.cap lane (the real checkAlreadyPatch on byte strings:
    emitted entry sequences, the two jump-back forms, empty (Go panics on origin[0]), single bytes, random strings)."""
    ops = []
    for g in (2, 8, 16):
        ops.append(f'conc amd64.stub {0x7f0000001000 + g:#x} {g}')
        ops.append(f'conc amd64.entry {0xc000100000 + g:#x} {g}')
    caps = ['-', '90', '00', '9090', 'cc', '48ba', 'e9fcffff7f', 'ff22', '0090', '9048ba0010400000000000ff22']
    for _ in range(40):
        to = rng.next() & ((1 << rng.below(65)) - 1)
        caps.append('9048ba' + to.to_bytes(8, 'little').hex() + 'ff22')      # what jmpToFunctionValue emits
        caps.append('48ba' + to.to_bytes(8, 'little').hex() + 'ff22')        # absolute jump back
        caps.append('ba' + (to & 0xffffffff).to_bytes(4, 'little').hex() + 'ff22')
        n = 1 + rng.below(16)
        b = bytes(rng.below(256) for _ in range(n))
        if rng.below(2):
            b = b'\x90' + b[1:]
        caps.append(b.hex())
    for c in dict.fromkeys(caps):
        ops.append(f'c15.cap amd64 {c}')
        ops.append(f'c15.cap i386 {c}')
    return ops


N_ORIGINS, N_TRAMPS, N_RAW = 5, 3, 4


def site_ops(tier, rng):
    ops = []
    for i in range(8):
        x = rng.next() & ((1 << (8 + rng.below(57))) - 1)
        ops.append(f'site patch.gen {rng.below(N_ORIGINS)} {x:#x} {rng.next() & 0xffffffffff:#x}')
    for oi in range(N_ORIGINS):
        ops.append(f'site patch.apply {oi} {rng.below(7)}')
    # every entry point of the package with every argument form it might accept: the function itself (v) or a pointer to a
    # variable holding it (p), for origin and replacement.  A form may be refused; an accepted one must land correctly.
    for api in ('patch', 'unsafe', 'tramp'):
        for of in 'vp':
            for rf in 'vp':
                ops.append(f'site patch.apply {rng.below(N_ORIGINS)} {rng.below(7)} {api} {of} {rf}')
    for api in ('ptr', 'method'):
        for rf in 'vp':
            ops.append(f'site patch.apply {rng.below(N_ORIGINS)} {rng.below(7)} {api} v {rf}')
    # the same origin through placeholder A, B, A again; a second origin through the same placeholders; every origin once;
    # hand-assembled origins in an executable page (r<zoo>p<int3 padding>:n = placeholder in the same page): functions barely
    # longer than the moved head, relocated copy longer than / as long as / shorter than the whole function
    ops.append('site patch.jumpback o0:t0 o0:t1 o0:t0 o1:t0 o1:t1 o3:t2 o3:t0 o4:t1 o4:p2 o2:t2 o0:p2 o1:p0')
    ops.append('site patch.jumpback r0p1:n r0p2:n r0p5:n r1p1:n r1p4:n r2p3:n r3p2:n r1p1:n')
    for _ in range(2 if tier == 'quick' else 12):
        steps = []
        o = rng.below(N_ORIGINS)
        for _ in range(6 + rng.below(4)):
            if rng.below(3) == 0:
                o = rng.below(N_ORIGINS)
            if rng.below(4) == 0:
                steps.append(f'r{rng.below(N_RAW)}p{1 + rng.below(6)}:n')
            else:
                steps.append(f'o{o}:t{rng.below(N_TRAMPS)}')
        ops.append('site patch.jumpback ' + ' '.join(steps))
    # origin in an mmap'ed page, placeholder a Go function in the text segment: more than 2 GiB apart, the absolute form of
    # the jump back is really emitted and really executed (alone in its history: on the unrepaired code this kills the child)
    ops.append(f'site patch.jumpback r1p{1 + rng.below(4)}:t{rng.below(N_TRAMPS)}')
    for k in range(3 if tier == 'quick' else 12):
        ops.append(f'site iface.caller {k}')
        ops.append(f'site iface.callerctx {k}')
    return ops


# ------------------------------------------------------------------ property oracle on the implementation's observations

def kvs(obs):
    return dict(p.split('=', 1) for p in obs.replace(',', ' ').split() if '=' in p)


def hx(s):
    return int(s, 16)


def sdisp(f, t):
    d = (t - f - 5) & M64
    return d - (1 << 64) if d >> 63 else d


def oracle_origin(f, t, kv):
    """Return from a trampoline: control arrives at exactly `to`, nothing else changes.  Returns (why, finding key)."""
    bs = kv.get('bytes', '')
    rip, rdx = hx(kv['rip']), hx(kv['rdx'])
    if rip == t and rdx == RDX0:
        return None, None
    fits = -(1 << 31) <= sdisp(f, t) <= (1 << 31) - 1
    f5 = bs == '48ba' + t.to_bytes(8, 'little').hex() + 'ff22' and rip == (~t) & M64 and rdx == t
    if f5 and not fits:
        return (f'absolute form of the jump back lands on [to]={kv["rip"]} (the code bytes stored at the destination) with '
                f'rdx clobbered to {kv["rdx"]}, wanted rip={t:#x} and rdx unchanged (defect F5, repaired by 36abd0c, is back)'), None
    if f5:
        return f'the absolute (indirect) form was chosen although to-(from+5) fits rel32; it lands on [to]={kv["rip"]}, wanted {t:#x}', None
    form = 'relative form' if len(bs) == 10 else f'{len(bs) // 2}-byte form'
    return f'{form} lands on {kv["rip"]} with rdx={kv["rdx"]}, wanted rip={t:#x} and rdx unchanged', None


def oracle(kind, f, t, obs):
    """The property itself, stated on what the implementation emitted (as interpreted by the reference decoder).
    Returns (why | None, known-finding key | None); no finding of C15 is known at present (F1, F5 are repaired), the key is always None."""
    if obs is None:
        return 'no observation (probe crashed?)', None
    if kind == 'amd64.relative':
        return None, None
    if kind == 'arm64.origin':
        # no arm64 jump back exists (panic): nothing is emitted, nothing to land.  Anything else needs a theorem first.
        return (None if obs == 'panic' else 'arm64 jmpToOriginFunctionValue now emits code, but C15 has no landing theorem/oracle for it'), None
    if 'undecodable' in obs:
        return 'emitted bytes are not the expected instruction sequence', None
    kv = kvs(obs)
    inv = (~t) & M64
    bs = kv.get('bytes', '')
    if kind in ('amd64.entry', 'amd64.stub'):
        if kind == 'amd64.entry' and (len(bs) != 26 or not bs.startswith('90')):
            return 'entry jump must be 13 bytes starting with the NOP sentinel', None
        if hx(kv['rip']) != inv or hx(kv['rdx']) != t:
            return f'lands on {kv["rip"]} with rdx={kv["rdx"]}, wanted [to] with rdx=to', None
    elif kind == 'amd64.origin':
        return oracle_origin(f, t, kv)
    elif kind.startswith('arm64.'):
        sc = 10 if kind == 'arm64.entry' else 27
        regs = {int(k[1:]): hx(v) for k, v in kv.items() if k[0] == 'x' and k[1:].isdigit()}
        val = lambda r: regs.get(r, A64INIT + r)      # a register whose new value equals its initial marker is not listed
        if hx(kv['pc']) != inv or val(26) != t or val(sc) != inv or set(regs) - {26, sc}:
            return f'pc={kv["pc"]} regs={regs}', None
    elif kind == 'i386.entry':
        t32 = t & 0xffffffff
        if hx(kv['edx']) != t32 or hx(kv['eip']) != (~t32) & 0xffffffff:
            return f'eip={kv["eip"]} edx={kv["edx"]}', None
    return None, None


def oracle_op(op, obs):
    tk = op.split()
    if tk[0] == 'conc':
        return (None if obs == 'conc ok' else f'concurrent callers of the emitter got wrong bytes: {obs}'), None
    if tk[0] == 'c15.cap':
        # the sentinel test itself: a byte string counts as patched iff it starts with the NOP sentinel (0x90)
        want = 'panic' if tk[2] == '-' else f'patched={"true" if tk[2].startswith("90") else "false"}'
        return (None if obs == want else f'checkAlreadyPatch({tk[2]}) = {obs}, wanted {want}'), None
    return oracle(tk[1], int(tk[2], 16), int(tk[3], 16), obs)


def entry_check(kv, pre=''):
    """A diverted function: 13 bytes, NOP sentinel, RDX = the function value, RIP = [function value]."""
    arg = hx(kv['arg'])
    bs = kv.get(pre + 'bytes', '')
    if pre + 'rip' not in kv:
        return 'the bytes at the origin are not the divert sequence'
    if len(bs) != 26 or not bs.startswith('90'):
        return f'entry jump {bs} is not 13 bytes starting with the NOP sentinel'
    if hx(kv[pre + 'rdx']) != arg or hx(kv[pre + 'rip']) != (~arg) & M64:
        return f'origin now jumps to {kv[pre + "rip"]} with rdx={kv[pre + "rdx"]}, wanted [arg] with rdx=arg={arg:#x}'
    return None


def site_oracle(op, obs):
    """Property oracle for the call-site lane.  Returns (why | None, finding key | None, derived [(emit line, impl line)], stats)."""
    why, key, derived, st = _site_oracle(op, obs)
    return why, (key if why else None), derived, st


def _site_oracle(op, obs):
    tk = op.split()
    derived, st = [], {'steps': 0, 'refused': 0, 'widened': 0, 'far': 0}
    if obs is None:
        return 'no observation', None, derived, st
    if tk[1] in ('patch.gen', 'patch.apply'):
        if obs.startswith('err:'):
            return f'refused: {obs}', None, derived, st
        kv = kvs(obs)
        if 'refused:' in obs:
            # the API may refuse an argument form; then nothing may have been written and the function still is itself
            st['refused_forms'] = st.get('refused_forms', 0) + 1
            if tk[4:] in ([], ['patch', 'v', 'v']) or (tk[5:] == ['v', 'v']):
                return f'the plain form (function values) was refused: {obs[-100:]}', None, derived, st
            if kv.get('restored') != 'true' or kv.get('after') != kv.get('wantafter'):
                return f'refused, but the origin was modified: restored={kv.get("restored")} result={kv.get("after")} wanted {kv.get("wantafter")}', None, derived, st
            return None, None, derived, st
        st['accepted_forms'] = st.get('accepted_forms', 0) + (tk[1] == 'patch.apply')
        pre = '' if tk[1] == 'patch.gen' else 'e'
        if pre + 'bytes' not in kv:
            return f'incomplete observation: {obs[-120:]}', None, derived, st
        why = entry_check(kv, pre)
        if why and tk[4:] == ['ptr', 'v', 'p'] and kv.get('erdx') == kv.get('pvar') and 'erip' in kv:
            # exactly this: Ptr/PtrTrampoline handed `&fnVar` accept it (no kind check on that path) and use the address of the
            # variable as the function value — recorded finding; any other accepted form that lands wrongly is a violation
            return (f'Ptr(origin, &fnVar) is accepted and the origin then jumps to {kv["erip"]} with rdx={kv["erdx"]} = the address of the '
                    f'variable, wanted [fv] with rdx=fv={kv["arg"]} (the function value stored in it)' +
                    ('' if 'call' in kv else '; calling the diverted function killed the process')), PTR_KEY, derived, st
        derived.append((f'emit amd64.entry {kv["origin"]} {kv["arg"]}', f'bytes={kv[pre + "bytes"]} rip={kv.get(pre + "rip")} rdx={kv.get(pre + "rdx")}'))
        if why:
            return why, None, derived, st
        if tk[1] == 'patch.gen':
            if hx(kv['arg']) != int(tk[3], 16):
                return 'probe echo mismatch', None, derived, st
            return None, None, derived, st
        if kv['deref'] != kv['code']:
            return f'probe: [function value]={kv["deref"]} is not the code of the replacement {kv["code"]}', None, derived, st
        if 'crashed:' in obs:
            return f'calling the diverted function killed the process: {obs[-60:]}', None, derived, st
        if kv.get('call') != kv.get('want') or kv.get('call') is None:
            return f'calling the patched function gave {kv.get("call")}, the replacement gives {kv.get("want")}', None, derived, st
        if kv.get('restored') != 'true' or kv.get('after') != kv.get('wantafter'):
            return f'after unpatch: restored={kv.get("restored")} result={kv.get("after")} wanted {kv.get("wantafter")}', None, derived, st
        return None, None, derived, st
    if tk[1] == 'patch.jumpback':
        segs, tl = obs.split(' | '), []
        while segs and (segs[-1] == 'running' or segs[-1].startswith('crashed:')):
            tl.insert(0, segs.pop())
        tail = ' '.join(tl) if tl else None
        why = fkey = fwhy = None
        for si, seg in enumerate(segs):
            kv = kvs(seg)
            if 'refused:' in seg:
                st['refused'] += 1
                continue
            if 'origin' not in kv:
                why = why or f'step {si}: {seg}'
                continue
            st['steps'] += 1
            origin, tramp, n, off = hx(kv['origin']), hx(kv['tramp']), int(kv['n']), int(kv['off'])
            if 'ebytes' in kv:
                derived.append((f'emit amd64.entry {kv["origin"]} {kv["arg"]}', f'bytes={kv["ebytes"]} rip={kv.get("erip")} rdx={kv.get("erdx")}'))
            w = entry_check(kv, 'e')
            if w is None and kv.get('fix') != kv['tramp']:
                w = f'FixOriginFunc()={kv.get("fix")} is not the placeholder {kv["tramp"]}'
            if w is None and 'walk' in kv:
                w = f'placeholder is not "relocated head, then a jump back" ({kv["walk"]} after {kv["k"]} instructions)'
            if w is None:
                f_, t_ = (tramp + off) & M64, (origin + n) & M64
                derived.append((f'emit amd64.origin {f_:#x} {t_:#x}', f'bytes={kv["bytes"]} rip={kv.get("rip")} rdx={kv.get("rdx")}'))
                st['widened'] += off > n
                st['far'] += abs(sdisp(f_, t_)) >= 1 << 31
                if 'rip' not in kv:
                    w = f'the jump back at placeholder+{off} is undecodable ({kv["bytes"]})'
                elif n < len(kv.get('ebytes', '')) // 2:
                    w = f'jump back after {n} origin bytes, but the entry jump overwrote {len(kv["ebytes"]) // 2}'
                else:
                    w, key = oracle_origin(f_, t_, kv)
                    if w:
                        w = (f'jump back of origin {origin:#x} in placeholder {tramp:#x}+{off}: {w} = origin+{n}, the first origin '
                             f'instruction that was not relocated ({kv["k"]} instructions copied)')
                    if w and key:
                        # the known shape; that the call through the placeholder then dies is its consequence
                        fkey, fwhy = key, fwhy or f'step {si} ({tk[2 + si] if 2 + si < len(tk) else "?"}): {w}' + (
                            '' if 'call' in kv else '; calling through the placeholder killed the process')
                        w = None
                        if 'call' not in kv:
                            continue
            if w is None and 'call' not in kv:
                w = f'calling through the placeholder {tramp:#x} did not return (process died)'
            if w is None and (kv['call'] != kv['want'] or kv['mock'] != kv['wantmock'] or kv.get('after') != kv['want']):
                w = (f'through placeholder: {kv["call"]} (original gives {kv["want"]}); mocked call {kv["mock"]} (replacement gives '
                     f'{kv["wantmock"]}); after unpatch {kv.get("after")}')
            if w and not why:
                why = f'step {si} ({tk[2 + si] if 2 + si < len(tk) else "?"}): {w}'
        if why is None and tail is not None and not (fkey and 'call' not in kvs(segs[-1] if segs else '')):
            why = f'history did not complete: {tail}'
        if why is None and tail is None and len(segs) != len(tk) - 2:
            why = f'{len(segs)} steps observed, {len(tk) - 2} requested'
        if why is None and fkey:
            return fwhy, fkey, derived, st
        return why, None, derived, st
    if tk[1] in ('iface.caller', 'iface.callerctx'):
        if obs.startswith('err:'):
            return f'refused: {obs}', None, derived, st
        kv = kvs(obs)
        if 'bytes' not in kv:
            return f'incomplete observation: {obs[-120:]}', None, derived, st
        arg = hx(kv['arg'])
        derived.append((f'emit amd64.stub {kv["stub"]} {kv["arg"]}', f'bytes={kv["bytes"]} rip={kv.get("rip")} rdx={kv.get("rdx")}'))
        if 'rip' not in kv:
            return f'the stub at {kv["stub"]} is not the expected instruction sequence ({kv["bytes"]})', None, derived, st
        if hx(kv['rdx']) != arg or hx(kv['rip']) != (~arg) & M64:
            return (f'stub enters {kv["rip"]} with context rdx={kv["rdx"]}, wanted [p] with rdx=p={arg:#x} '
                    f'(p = the {"ctx" if "to" in kv else "to"} pointer passed)'), None, derived, st
        if 'to' in kv and kv['deref'] != kv['to']:
            return 'probe setup: [ctx] != to', None, derived, st
        if len(kv['bytes']) // 2 > int(kv['slot']):
            return f'stub of {len(kv["bytes"]) // 2} bytes does not fit its {kv["slot"]}-byte slot', None, derived, st
        if kv.get('call') is None or kv['call'] != kv.get('want'):
            return f'calling through the stub gave {kv.get("call")}, the closure gives {kv.get("want")}', None, derived, st
        return None, None, derived, st
    return f'unknown site op {op}', None, derived, st


# ------------------------------------------------------------------ building and running

def _overlay_build(tag, pkg, files, extra_pkgs, env_extra):
    """C.overlay_build with an environment override (GOARCH=386 for the 32-bit probe)."""
    import json
    repl = {}
    pdir = os.path.join(C.REPO, pkg) if pkg else C.REPO
    for vname, real in files.items():
        repl[os.path.join(pdir, vname)] = real
    for vdir, fmap in (extra_pkgs or {}).items():
        for vname, real in fmap.items():
            repl[os.path.join(C.REPO, vdir, vname)] = real
    ov = os.path.join(C.BUILD, f'{tag}.overlay.json')
    json.dump({'Replace': repl}, open(ov, 'w'), indent=1)
    out = os.path.join(C.BUILD, f'{tag}.test')
    if os.path.exists(out):
        os.remove(out)
    cmd = ['go', 'test', '-c', '-o', out, '-overlay', ov, '-vet=off', './' + pkg]   # no -gcflags=all=-l: the 386 runtime built without inlining crashes in its GC write barrier
    rc, o, e = C.sh(cmd, cwd=C.REPO, env=C.goenv(env_extra), timeout=1800)
    if rc != 0 or not os.path.exists(out):
        return None, o + e
    return out, ''


def build_probes(sc):
    helpers = C.helper_pkgs()
    bins = []
    for ptag, pkg, files, rehost, lanes, env in PROBES:
        fm = {k: os.path.join(C.HARNESS, v) for k, v in files.items()}
        extra = dict(helpers)
        tag = f'{sc.tag}-{ptag}'
        sc.files += [os.path.join(C.BUILD, f'{tag}.overlay.json'), os.path.join(C.BUILD, f'{tag}.test')]
        if rehost:
            vdir = dict(fm)
            for k, v in rehost.items():
                vdir[k] = os.path.join(C.REPO, v)
            extra[pkg] = vdir
            fm = {}
        b, err = _overlay_build(tag, pkg, fm, extra, env) if env else C.overlay_build(tag, pkg, fm, extra)
        native = bool(env)
        if b is None and env:           # no 32-bit toolchain/kernel support here: fall back to the amd64 re-host
            C.log(f'C15: {ptag} does not build for {env}; falling back to the amd64 re-host')
            b, err = C.overlay_build(tag, pkg, fm, extra)
            native = False
        if b is None:
            raise C.Infra(f'probe {ptag} does not build against the current tree:\n{err[-3000:]}')
        bins.append({'tag': ptag, 'bin': b, 'lanes': lanes, 'native': native, 'pkg': pkg, 'fm': fm, 'extra': extra, 'btag': tag})
    return bins


def run_once(binary, test, ops_path, out_path, timeout, env=None):
    """One probe process.  Returns (rc, log); a timeout is rc=-9."""
    try:
        return C.run_probe(binary, test, ops_path, out_path, timeout=timeout, env=env)
    except subprocess.TimeoutExpired:
        return -9, f'timeout after {timeout}s'


def run_emit(bins, ops, sc, what='emit'):
    """Run ops through every emit probe (one retry each on a non-zero exit / timeout) and through the model driver;
    the six processes run side by side."""
    from concurrent.futures import ThreadPoolExecutor
    ops_path = sc.path(f'{what}.ops')
    with open(ops_path, 'w') as f:
        f.write('\n'.join(ops) + '\n')

    def one(p):
        outp = sc.path(f'{what}.{p["tag"]}.impl')
        rc, log = 1, ''
        for attempt in (1, 2):
            rc, log = run_once(p['bin'], 'TestVerifC15', ops_path, outp, 600)      # typical 2-5 s per chunk
            if rc == 0:
                break
            if p['native'] and attempt == 1:      # e.g. the kernel cannot exec 32-bit programs: use the re-host from now on
                C.log(f'C15: native {p["tag"]} probe failed (rc={rc}); falling back to the amd64 re-host')
                b, err = C.overlay_build(p['btag'], p['pkg'], p['fm'], p['extra'])
                if b is None:
                    raise C.Infra(f'probe {p["tag"]} does not build against the current tree:\n{err[-3000:]}')
                p['bin'], p['native'] = b, False
            else:
                C.log(f'C15: probe {p["tag"]} rc={rc}, attempt {attempt}')
        if rc != 0:
            raise C.Infra(f'probe {p["tag"]} failed twice rc={rc}:\n{log[-2000:]}')
        return C.read_indexed(outp, len(ops))

    impl = [None] * len(ops)
    with ThreadPoolExecutor(max_workers=6) as ex:
        fm = ex.submit(run_model, ops_path, sc, what)
        futs = [ex.submit(one, p) for p in bins if 'emit' in p['lanes']]
        for fu in futs:
            for i, v in enumerate(fu.result()):
                if v is not None:
                    impl[i] = v
        model = fm.result()
    return impl, model


_DRIVER = {}


def run_model(ops_path, sc, what):
    if 'exe' not in _DRIVER:
        _DRIVER['exe'], _DRIVER['err'] = C.build_driver()
    if _DRIVER['exe'] is None:
        return None
    return C.run_driver(_DRIVER['exe'], ops_path, sc.path(f'{what}.model'))


def crash_class(rc, log):
    for sig in ('SIGSEGV', 'SIGILL', 'SIGBUS', 'SIGTRAP', 'SIGABRT', 'SIGFPE', 'fatal error', 'timeout', 'panic:'):
        if sig in log:
            return sig.rstrip(':').replace(' ', '-')
    return f'rc={rc}'


def run_site(bins, ops, sc):
    """Run the site ops in child processes.  A process that dies (wrong machine code is a SIGSEGV) or times out is
    restarted on the remaining ops; the op it died in is retried once alone-first, and only a crash that reproduces is
    recorded (`crashed:<class>` appended to what the op had already observed)."""
    obs = [None] * len(ops)
    lanes = {'patch': [i for i, o in enumerate(ops) if o.split()[1].startswith('patch.')],
             'iface': [i for i, o in enumerate(ops) if o.split()[1].startswith('iface.')]}
    flakes = []
    for p in bins:
        if 'site' not in p['lanes']:
            continue
        pending, tries = list(lanes[p['tag']]), {}
        rounds = 0
        while pending and rounds < 2 * len(ops) + 4:
            rounds += 1
            ops_path, outp = sc.path(f'site.{p["tag"]}.ops'), sc.path(f'site.{p["tag"]}.impl')
            with open(ops_path, 'w') as f:
                f.write('\n'.join(ops[i] for i in pending) + '\n')
            # relocated code runs inside functions whose stack maps describe other code: keep the runtime's signal-based
            # preemption out of that window (the probe also disables the collector)
            rc, log = run_once(p['bin'], 'TestVerifC15Site', ops_path, outp, 120, env={'GODEBUG': 'asyncpreemptoff=1'})   # typical 0.3 s
            got = C.read_indexed(outp, len(pending))
            rest = []
            for j, i in enumerate(pending):
                if got[j] is not None and not got[j].endswith('running'):
                    obs[i] = got[j]
                else:
                    rest.append((i, got[j]))
            if rc == 0 or not rest:
                break                                      # ops the probe skipped stay None -> floor below
            i, partial = rest[0]
            tries[i] = tries.get(i, 0) + 1
            if tries[i] >= 2:
                obs[i] = ((partial or '').rstrip() + ' | ' if partial else '') + 'crashed:' + crash_class(rc, log)
                rest = rest[1:]
                flakes[:] = [f for f in flakes if f[0] != ops[i]]      # it reproduced: not a flake
            else:
                flakes.append((ops[i], crash_class(rc, log)))
            pending = [i for i, _ in rest]
    return obs, flakes


class Distinct:
    """Counts distinct (kind, observation) pairs across chunks without keeping them: hashes spilled to a file."""

    def __init__(self, sc):
        self.path = sc.path('distinct')
        self.f = open(self.path, 'w')

    def add(self, items):
        self.f.write(''.join(f'{hash(x) & M64:016x}\n' for x in set(items)))

    def count(self):
        self.f.close()
        p = subprocess.run(f'LC_ALL=C sort -u {self.path} | wc -l', shell=True, capture_output=True, text=True)
        return int(p.stdout.strip() or 0)


def chunks(it, n):
    buf = []
    for x in it:
        buf.append(x)
        if len(buf) >= n:
            yield buf
            buf = []
    if buf:
        yield buf


def emit_stream(tier, rng):
    """All emit/conc/cap ops of a run, duplicates of a pair dropped while streaming (consecutive lanes repeat edges)."""
    seen = set()
    for op in extra_ops(rng.fork('extra')):
        yield op
    for f, t in gen_pairs(tier, rng):
        key = (f << 64) | t
        if key in seen:
            continue
        if len(seen) < 1_000_000:
            seen.add(key)
        for op in pair_ops(f, t):
            yield op


def regen(sc):
    """C.regen with per-process scratch names (translator binary, output directory), so that concurrent runs do not
    delete each other's files.  The generated text only depends on the tree, so writing Gen/ from two runs is harmless."""
    import shutil
    gen = sc.path('gen')
    rc, o, e = C.sh(['go', 'build', '-o', gen, '.'], cwd=os.path.join(C.VERIF, 'tools', 'gen'), env=C.goenv())
    if rc != 0:
        raise C.Infra('building tools/gen failed:\n' + e)
    tmp = sc.path('gen-out')
    shutil.rmtree(tmp, ignore_errors=True)
    os.makedirs(tmp)
    try:
        rc, o, e = C.sh([gen, '-repo', C.REPO, '-spec', os.path.join(C.VERIF, 'tools', 'gen', 'spec.json'), '-out', tmp, '-only', ','.join(GEN)])
        changed = []
        os.makedirs(C.GEN_DIR, exist_ok=True)
        for m in GEN:
            src, dst = os.path.join(tmp, m + '.lean'), os.path.join(C.GEN_DIR, m + '.lean')
            if not os.path.exists(src):
                raise C.Infra(f'gen produced no output for {m}: {e}')
            new = open(src).read()
            old = open(dst).read() if os.path.exists(dst) else None
            if new != old:      # keep mtime when unchanged so lake does not rebuild
                t = dst + f'.{os.getpid()}.tmp'
                open(t, 'w').write(new)
                os.replace(t, dst)
                changed.append(m)
        return rc == 0, e.strip(), changed
    finally:
        shutil.rmtree(tmp, ignore_errors=True)


def arm64_origin_guard():
    """A clear message for the day someone implements the arm64 jump back (review A2/D1)."""
    try:
        src = open(os.path.join(C.GEN_DIR, 'JmpArm64.lean')).read()
    except OSError:
        return None
    i = src.find('def jmpToOriginFunctionValue')
    if i < 0:
        return 'monkey_arm64.go no longer has jmpToOriginFunctionValue'
    body = src[i:].split('\n\n', 1)[0]
    if '.error "panic"' not in body or 'if ' in body:
        return ('monkey_arm64.go jmpToOriginFunctionValue is no longer `panic(...)`: an arm64 jump back now exists, and C15 has no landing '
                'theorem for it (replace C15.arm64_origin_unimplemented by a theorem about A64.exec of the emitted bytes and give the '
                '`arm64.origin` kind an oracle)')
    return None


def name_failed_theorems(proof):
    """`lake build failed at Props/C15.lean:220` -> the names of the theorems that no longer check."""
    errs = [(f, int(l)) for f, l in proof.get('build_errors', []) if f.endswith('Props/C15.lean')]
    if not errs:
        return
    import re
    decl = []
    for no, line in enumerate(open(os.path.join(C.LEAN, 'GoomVerif', 'Props', 'C15.lean')), 1):
        m = re.match(r'\s*(theorem|def|example)\s*([A-Za-z_][\w\.\']*)?', line)
        if m:
            decl.append((no, m.group(2) or 'example'))
    names = []
    for _, l in errs:
        cur = [n for no, n in decl if no <= l]
        if cur and cur[-1] not in names:
            names.append(cur[-1])
    if names:
        proof['failed'].append(('theorems', 'no longer proved against the regenerated definitions: ' + ', '.join('C15.' + n for n in names)))


def run(tier):
    out = C.Outcome('C15', tier)
    sc = Scratch(tier)
    try:
        return _run(tier, out, sc)
    finally:
        sc.cleanup()


def _run(tier, out, sc):
    rng = C.Rng(C.seed()).fork('C15')
    ok, msg, changed = regen(sc)
    proof = C.prove('C15', leanchecker=(tier == 'thorough')) if ok else {'ok': False, 'failed': [('translator', msg)], 'obligations': 0,
                                                                            'discharged': 0, 'cmds': [], 'axioms': {}}
    name_failed_theorems(proof)
    guard = arm64_origin_guard() if ok else None
    if guard:
        proof['ok'] = False
        proof['failed'].insert(0, ('arm64.jmpToOriginFunctionValue', guard))
    bins = build_probes(sc)

    # ---- emit / conc / cap lanes, streamed in chunks
    distinct = Distinct(sc)
    bad, diffs, samples = [], [], []
    n_ops = n_diff = 0
    per_kind = {}
    rel = nor = 0
    for chunk in chunks(emit_stream(tier, rng), CHUNK):
        impl, model = run_emit(bins, chunk, sc)
        nt = []
        for i, op in enumerate(chunk):
            tk = op.split()
            kind = tk[1] if tk[0] == 'emit' else tk[0]
            per_kind[kind] = per_kind.get(kind, 0) + (impl[i] is not None)
            why, key = oracle_op(op, impl[i])
            if why and len(bad) < 20:
                bad.append((op, impl[i], why))
            elif why:
                bad.append(None)
            if impl[i] and 'undecodable' not in impl[i] and tk[0] == 'emit':
                nt.append((kind, impl[i]))
                if kind == 'amd64.origin':
                    nor += 1
                    rel += impl[i].startswith('bytes=e9') and len(impl[i].split()[0]) == 16
        distinct.add(nt)
        if model is not None:
            d = C.diff_streams(chunk, impl, model, limit=1 << 60)
            n_diff += len(d)
            diffs += d[:20 - len(diffs)] if len(diffs) < 20 else []
        if len(samples) < 4:
            j = (len(chunk) // 3) * (len(samples) % 3)
            samples.append({'op': chunk[j], 'impl': impl[j], 'model': model[j] if model else None})
        n_ops += len(chunk)
    for k in KINDS + ['conc', 'c15.cap']:
        if per_kind.get(k, 0) < (6 if k == 'conc' else 100):
            raise C.Infra(f'lane {k} produced {per_kind.get(k, 0)} observations: the probe for it ran nothing')

    # ---- call-site lane
    sops = site_ops(tier, rng.fork('site'))
    sobs, flakes = run_site(bins, sops, sc)
    sbad, derived, sstat = [], [], {'steps': 0, 'refused': 0, 'widened': 0, 'far': 0}
    keyed = 0
    for op, o in zip(sops, sobs):
        why, key, der, st = site_oracle(op, o)
        for k in st:
            sstat[k] = sstat.get(k, 0) + st[k]
        derived += [(op, e, im) for e, im in der]
        if why and key:
            out.violation(f'{op}: {why}', {'kind': 'site-oracle', 'ops': [op], 'observed': o, 'why': why,
                                           'how': 'python3 check.py C15 --replay <this file>'}, key=key)
            keyed += 1
        elif why:
            sbad.append((op, o, why))
    dmodel = None
    if derived:
        dops_path = sc.path('derived.ops')
        with open(dops_path, 'w') as f:
            f.write('\n'.join(e for _, e, _ in derived) + '\n')
        dmodel = run_model(dops_path, sc, 'derived')
    sdiffs = [(op, e, im, dmodel[j]) for j, (op, e, im) in enumerate(derived) if dmodel is not None and dmodel[j] != im]
    if not sbad:
        missing = [op for op, o in zip(sops, sobs) if o is None]
        if missing or sstat['steps'] < 12 or sstat['widened'] < 1 or len(derived) < 30 or sstat.get('accepted_forms', 0) < 8:
            raise C.Infra(f'call-site lane ran too little: missing={missing[:3]} stats={sstat} derived={len(derived)}')

    # ---- 1. the property on the implementation
    real_bad = [b for b in bad if b]
    for op, o, why in real_bad[:3]:
        out.violation(f'{op}: {why}', {'kind': 'impl-oracle', 'ops': [op], 'observed': o, 'why': why,
                                       'how': 'python3 check.py C15 --replay <this file>'})
    for op, o, why in sbad[:3]:
        out.violation(f'{op}: {why}', {'kind': 'site-oracle', 'ops': [op], 'observed': o, 'why': why,
                                       'how': 'python3 check.py C15 --replay <this file>'})
    # ---- 2. correspondence
    if model is None or (derived and dmodel is None):
        proof['failed'].append(('goomdrv', 'driver does not build: ' + (_DRIVER.get('err') or '')[-500:]))
        proof['ok'] = False
    if not bad and not sbad:
        if diffs:
            _, op, a, b = diffs[0]
            out.violation(f'model and implementation disagree on `{op}`', {'kind': 'correspondence', 'ops': [op], 'impl': a, 'model': b,
                          'broken': 'correspondence Gen.* (regenerated) vs Go emitters / mini-ISA vs reference decoder',
                          'n_disagreements': n_diff}, no_failing_input=True)
        elif sdiffs:
            op, e, a, b = sdiffs[0]
            out.violation(f'call site `{op}`: what it left in memory is not what the emitter produces for `{e}`',
                          {'kind': 'site-correspondence', 'ops': [op], 'derived': e, 'impl': a, 'model': b,
                           'broken': 'argument wiring of the call site (from/to/ctx handed to the emitter) vs the placement observed in memory',
                           'n_disagreements': len(sdiffs)}, no_failing_input=True)
        elif not proof['ok']:
            out.violation('proof obligations of Props/C15.lean no longer check and no failing input was found in the search',
                          {'kind': 'proof', 'broken': proof['failed'], 'searched': n_ops + len(sops), 'output': proof.get('output', '')[-3000:]},
                          no_failing_input=True)
    out.coverage = {
        'obligations': proof['obligations'], 'discharged': proof['discharged'],
        'checker_cmd': ' ; '.join(proof['cmds']),
        'trusted_base': ['Lean 4.33 kernel', 'axioms: ' + ', '.join(sorted({a for v in proof['axioms'].values() for a in v}) or ['none']),
                         'tools/gen translator (cross-checked: generated functions run against the Go originals on every evaluation below)',
                         'mini ISA specs Model/X86Mini.lean, Model/A64Mini.lean (cross-checked against the toolchain reference decoders on every evaluation)',
                         'call-site wiring (which from/to/ctx the call sites pass): observed on real patches in the probe binary, not proved',
                         'not modelled: that the CPU fetches the new bytes (cross-modifying code, arm64 i-cache)'],
        'theorems': proof['axioms'], 'proof_failures': proof['failed'],
        'evaluations': n_ops + len(sops) + len(derived), 'distinct_nontrivial': distinct.count() + len({im for _, _, im in derived}),
        'traces_validated_against_impl': n_ops - n_diff + len(derived) - len(sdiffs),
        'rule': 'one evaluation = one (emitter kind, from, to) | one checkAlreadyPatch byte string | one call-site history (each real patch in it also yields '
                'derived emit lines); pairs: every 16-bit lane value (stride 251 in quick, all in thorough), from-to = ±2^31±k, 0/2^63/2^64 edges, '
                'random pairs; non-trivial = decodable emitted sequence, distinct by (kind, bytes, landing)',
        'distribution': {'emit_ops': n_ops, 'observations_per_kind': per_kind, 'amd64.origin relative-form': rel, 'amd64.origin absolute-form': nor - rel,
                         'site_ops': len(sops), 'site_real_patches_with_trampoline': sstat['steps'],
                         'site_refused_by_goom': sstat['refused'], 'site_apply_forms_accepted': sstat.get('accepted_forms', 0),
                         'site_apply_forms_refused': sstat.get('refused_forms', 0), 'site_relocated_head_longer_than_head': sstat['widened'],
                         'site_placeholder_more_than_2GiB_from_origin': sstat['far'],
                         'site_derived_emit_lines': len(derived), 'site_crash_not_reproduced': flakes,
                         'i386_probe_native_32bit': [p['native'] for p in bins if p['tag'] == 'i386patch'][0],
                         'gen_modules_changed_this_run': changed},
        'samples': samples + [{'op': op, 'impl': o} for op, o in list(zip(sops, sobs))[8:9]] +
                   [{'op': e, 'impl': im, 'model': dmodel[j] if dmodel else None, 'from_site': op} for j, (op, e, im) in list(enumerate(derived))[-2:]],
    }
    out.assumptions = ['page/CPU behaviour outside the model', 'arm64 emitters are executed as re-hosted source on amd64',
                       'call sites are observed in this probe binary (amd64, placeholder and origin in one text segment)']
    return out.finish()


def replay(body):
    sc = Scratch('replay')
    try:
        ops = body.get('ops', [])
        bins = build_probes(sc)
        rc = 0
        eops = [o for o in ops if not o.startswith('site ')]
        if eops:
            impl, model = run_emit(bins, eops, sc)
            for i, op in enumerate(eops):
                why, key = oracle_op(op, impl[i])
                print(f'{op}\n  impl : {impl[i]}\n  model: {model[i] if model else None}\n  oracle: {why or "ok"}' + (f'   [known finding {key}]' if key else ''))
                if why or (model and impl[i] != model[i]):
                    rc = 1
        sops = [o for o in ops if o.startswith('site ')]
        if sops:
            sobs, flakes = run_site(bins, sops, sc)
            for op, o in zip(sops, sobs):
                why, key, der, _ = site_oracle(op, o)
                print(f'{op}\n  impl : ' + str(o).replace(' | ', '\n         | ') + f'\n  oracle: {why or "ok"}' + (f'   [known finding {key}]' if key else ''))
                if der:
                    p = sc.path('derived.ops')
                    open(p, 'w').write('\n'.join(e for e, _ in der) + '\n')
                    dm = run_model(p, sc, 'derived')
                    for j, (e, im) in enumerate(der):
                        same = dm is not None and dm[j] == im
                        print(f'    {e}\n      memory: {im}\n      model : {dm[j] if dm else None}{"" if same else "   <-- differ"}')
                        if not same:
                            rc = 1
                if why:
                    rc = 1
        return rc
    finally:
        sc.cleanup()
