"""C15 — emitted jump sequences transfer control to exactly the requested address.

Tie T: the five emitter files are re-translated to Lean on every run and the theorems of Props/C15.lean are
re-checked against them.  Tie X: the real Go emitters (arm64/386 sources re-hosted so they compile here) are run
on the same pairs as the generated Lean functions; the bytes are compared, and interpreted on the Go side with the
toolchain's reference decoders, on the Lean side with the hand-written mini ISA, and the two results compared.
The oracle below states the property itself on the implementation's output, independently of the model.
"""
import os

from vlib import common as C

META = {
    'property_id': 'C15',
    'technique': 'Lean 4 theorems over all 64-bit from/to about emitters regenerated from the Go source (translator) + differential run against the real emitters',
    'level': 'proof',
    'level_text': 'Full proof: for every 64-bit from/to and every machine state, the byte sequences produced by the (regenerated) emitters execute under the mini ISA specification to exactly the intended RIP/RDX (PC/X26/X10|X27); the relative form is chosen iff the encoded displacement fits, and then lands on the destination. The emitters are re-translated from the Go source on every run, so an edit to them is re-proved or breaks the proof.',
    'level_note': 'Trusted: Lean kernel (axioms propext, Classical.choice, Quot.sound only), tools/gen translator and the hand-written mini ISA (both cross-checked on every run against the real Go emitters and the toolchain reference decoders on ~40k pairs incl. the +-2GiB boundary), totalised slice indexing in generated code. Not modelled: instruction fetch of freshly written code.',
}

GEN = ['JmpAmd64', 'JmpArm64', 'Jmp386', 'JmpIfaceAmd64', 'JmpIfaceArm64']
M64 = (1 << 64) - 1
KINDS = ['amd64.entry', 'amd64.origin', 'amd64.relative', 'amd64.stub', 'arm64.entry', 'arm64.stub', 'arm64.stubctx', 'i386.entry']

PROBES = [  # tag, package (virtual dirs are created by overlay), probe file, re-hosted source
    ('c15-patch', 'internal/patch', {'zz_verif_c15_test.go': 'c15/patch_probe_test.go'}, None),
    ('c15-iface', 'internal/iface', {'zz_verif_c15_test.go': 'c15/iface_probe_test.go'}, None),
    ('c15-a64patch', 'internal/zzverif/a64patch', {'zz_verif_c15_test.go': 'c15/a64patch_probe_test.go'},
     {'emit_a64.go': 'internal/patch/monkey_arm64.go'}),
    ('c15-a64iface', 'internal/zzverif/a64iface', {'zz_verif_c15_test.go': 'c15/a64iface_probe_test.go'},
     {'emit_a64.go': 'internal/iface/jmp_arm64.go'}),
    ('c15-i386patch', 'internal/zzverif/i386patch', {'zz_verif_c15_test.go': 'c15/i386patch_probe_test.go'},
     {'emit_i386.go': 'internal/patch/monkey_386.go'}),
]


def gen_pairs(tier, rng):
    """(from,to) pairs: every 16-bit lane (strided in quick), the ±2 GiB decision boundary, 0 / 2^63 / 2^64 edges, random."""
    pairs = []
    stride = 1 if tier == 'thorough' else 251
    bases = [0, 0x0000004000401000]
    for lane in range(4):
        for v in range(0, 65536, stride):
            pairs.append((0x401000, v << (16 * lane)))
        for v in (1, 0x7fff, 0x8000, 0xffff):
            for b in bases:
                pairs.append((b, (b & ~(0xffff << (16 * lane))) | (v << (16 * lane))))
    kmax = 64 if tier == 'quick' else 4096
    for base in (0x100000000, 0x7f0000000000, 0x401000, 0xffffffff00000000, 1 << 63):
        for k in range(-kmax, kmax + 1):
            for d in ((1 << 31) + k, -(1 << 31) + k):
                pairs.append((base, (base + d) & M64))       # to = from + d
                pairs.append(((base + d) & M64, base))
    for k in range(-8, 9):
        for base in (0, 1 << 63, M64, 0x401000):
            pairs.append((base, (base + k) & M64))
            pairs.append((base, (base + (1 << 63) + k) & M64))
    n = 2000 if tier == 'quick' else 2_000_000
    for _ in range(n):
        f = rng.next()
        mode = rng.below(4)
        if mode == 0:
            t = rng.next()
        elif mode == 1:
            t = (f + rng.below(1 << 33) - (1 << 32)) & M64
        elif mode == 2:
            t = (f + (1 << 31) * (1 if rng.below(2) else -1) + rng.below(64) - 32) & M64
        else:
            t = rng.next() & ((1 << rng.below(65)) - 1)
        pairs.append((f, t))
    return pairs


def oracle(kind, f, t, obs):
    """The property itself, stated on what the implementation emitted (as interpreted by the reference decoder)."""
    if obs is None:
        return 'no observation (probe crashed?)'
    kv = dict(p.split('=', 1) for p in obs.replace(',', ' ').split() if '=' in p)
    inv = (~t) & M64
    hx = lambda s: int(s, 16)
    if kind == 'amd64.relative':
        return None
    if 'undecodable' in obs:
        return 'emitted bytes are not the expected instruction sequence'
    bs = kv.get('bytes', '')
    if kind in ('amd64.entry', 'amd64.stub'):
        if kind == 'amd64.entry' and (len(bs) != 26 or not bs.startswith('90')):
            return 'entry jump must be 13 bytes starting with the NOP sentinel'
        if hx(kv['rip']) != inv or hx(kv['rdx']) != t:
            return f'lands on {kv["rip"]} with rdx={kv["rdx"]}, wanted [to] with rdx=to'
    elif kind == 'amd64.origin':
        if len(bs) == 10:
            if hx(kv['rip']) != t:
                return f'relative form lands on {kv["rip"]}, wanted {t:#x}'
        elif hx(kv['rip']) != inv or hx(kv['rdx']) != t:
            return f'absolute form lands on {kv["rip"]} rdx={kv["rdx"]}'
    elif kind.startswith('arm64.'):
        scratch = 'x10' if kind == 'arm64.entry' else 'x27'
        regs = {k: hx(v) for k, v in kv.items() if k.startswith('x')}
        if hx(kv['pc']) != inv or regs.get('x26') != t or regs.get(scratch) != inv or set(regs) - {'x26', scratch}:
            return f'pc={kv["pc"]} regs={regs}'
    elif kind == 'i386.entry':
        t32 = t & 0xffffffff
        if hx(kv['edx']) != t32 or hx(kv['eip']) != (~t32) & 0xffffffff:
            return f'eip={kv["eip"]} edx={kv["edx"]}'
    return None


def build_probes():
    helpers = C.helper_pkgs()
    bins = []
    for tag, pkg, files, rehost in PROBES:
        fm = {k: os.path.join(C.HARNESS, v) for k, v in files.items()}
        extra = dict(helpers)
        if rehost:
            vdir = dict(fm)
            for k, v in rehost.items():
                vdir[k] = os.path.join(C.REPO, v)
            extra[pkg] = vdir
            b, err = C.overlay_build(tag, pkg, {}, extra)
        else:
            b, err = C.overlay_build(tag, pkg, fm, extra)
        if b is None:
            raise C.Infra(f'probe {tag} does not build against the current tree:\n{err[-3000:]}')
        bins.append((tag, b))
    return bins


def execute(ops, tag='c15'):
    """Run ops through every probe and through the model driver. Returns (impl, model)."""
    ops_path = os.path.join(C.BUILD, f'{tag}.ops')
    open(ops_path, 'w').write('\n'.join(ops) + '\n')
    impl = [None] * len(ops)
    for ptag, b in build_probes():
        outp = os.path.join(C.BUILD, f'{tag}.{ptag}.impl')
        rc, log = C.run_probe(b, 'TestVerifC15', ops_path, outp)
        if rc != 0:
            raise C.Infra(f'probe {ptag} failed rc={rc}:\n{log[-2000:]}')
        for i, v in enumerate(C.read_indexed(outp, len(ops))):
            if v is not None:
                impl[i] = v
    exe, err = C.build_driver()
    if exe is None:
        return impl, None, err
    model = C.run_driver(exe, ops_path, os.path.join(C.BUILD, f'{tag}.model'))
    return impl, model, ''


def run(tier):
    out = C.Outcome('C15', tier)
    rng = C.Rng(C.seed()).fork('C15')
    ok, msg, changed = C.regen(GEN)
    proof = C.prove('C15', leanchecker=(tier == 'thorough')) if ok else {'ok': False, 'failed': [('translator', msg)], 'obligations': 0,
                                                                            'discharged': 0, 'cmds': [], 'axioms': {}}
    pairs = gen_pairs(tier, rng)
    ops = []
    for f, t in pairs:
        for k in KINDS:
            if k == 'i386.entry':
                ops.append(f'emit {k} {f & 0xffffffff:#x} {t & 0xffffffff:#x}')
            else:
                ops.append(f'emit {k} {f:#x} {t:#x}')
    ops = list(dict.fromkeys(ops))
    # emitters are pure: results of concurrent callers (shared scratch buffers would show) must equal the hand-written encoding
    for g in (2, 8, 16):
        ops.append(f'conc amd64.stub {0x7f0000001000 + g:#x} {g}')
        ops.append(f'conc amd64.entry {0xc000100000 + g:#x} {g}')
    impl, model, derr = execute(ops)
    # 1. the property on the implementation
    bad = []
    for i, op in enumerate(ops):
        _, k, f, t = op.split()
        if op.startswith('conc '):
            why = None if impl[i] == 'conc ok' else f'concurrent callers of the emitter got wrong bytes: {impl[i]}'
        else:
            why = oracle(k, int(f, 16), int(t, 16), impl[i])
        if why:
            bad.append((i, op, why))
    for i, op, why in bad[:3]:
        out.violation(f'{op}: {why}', {'kind': 'impl-oracle', 'ops': [op], 'observed': impl[i], 'why': why,
                                       'how': 'python3 check.py C15 --replay <this file>'})
    # 2. correspondence
    diffs = C.diff_streams(ops, impl, model) if model is not None else []
    if model is None:
        proof['failed'].append(('goomdrv', 'driver does not build: ' + derr[-500:]))
    if not bad:
        if diffs:
            i, op, a, b = diffs[0]
            out.violation(f'model and implementation disagree on `{op}`', {'kind': 'correspondence', 'ops': [op], 'impl': a, 'model': b,
                          'broken': 'correspondence Gen.* (regenerated) vs Go emitters / mini-ISA vs reference decoder',
                          'n_disagreements_shown': len(diffs)}, no_failing_input=True)
        elif not proof['ok']:
            out.violation('proof obligations of Props/C15.lean no longer check and no failing input was found in the search',
                          {'kind': 'proof', 'broken': proof['failed'], 'searched': len(ops), 'output': proof.get('output', '')[-3000:]},
                          no_failing_input=True)
    nontrivial = len({(op.split()[1], impl[i]) for i, op in enumerate(ops) if impl[i] and 'undecodable' not in impl[i] and not op.startswith('conc ')})
    rel = sum(1 for i, op in enumerate(ops) if op.split()[1] == 'amd64.origin' and impl[i] and len(dict(p.split('=', 1) for p in impl[i].split() if '=' in p).get('bytes', '')) == 10)
    nor = sum(1 for op in ops if op.split()[1] == 'amd64.origin')
    out.coverage = {
        'obligations': proof['obligations'], 'discharged': proof['discharged'],
        'checker_cmd': ' ; '.join(proof['cmds']),
        'trusted_base': ['Lean 4.33 kernel', 'axioms: ' + ', '.join(sorted({a for v in proof['axioms'].values() for a in v}) or ['none']),
                         'tools/gen translator (cross-checked: generated functions run against the Go originals on every evaluation below)',
                         'mini ISA specs Model/X86Mini.lean, Model/A64Mini.lean (cross-checked against the toolchain reference decoders on every evaluation)',
                         'not modelled: that the CPU fetches the new bytes (cross-modifying code, arm64 i-cache)'],
        'theorems': proof['axioms'], 'proof_failures': proof['failed'],
        'evaluations': len(ops), 'distinct_nontrivial': nontrivial,
        'traces_validated_against_impl': len(ops) - len(diffs),
        'rule': 'one evaluation = one (emitter kind, from, to); pairs: every 16-bit lane value (stride 251 in quick, all in thorough), '
                'from-to = ±2^31±k, 0/2^63/2^64 edges, random pairs; non-trivial = decodable emitted sequence, distinct by (kind, bytes, landing)',
        'distribution': {'pairs': len(pairs), 'kinds': len(KINDS), 'amd64.origin relative-form': rel, 'amd64.origin absolute-form': nor - rel,
                         'gen_modules_changed_this_run': changed},
        'samples': [{'op': ops[i], 'impl': impl[i], 'model': model[i] if model else None} for i in (0, len(ops) // 3, len(ops) // 2, len(ops) - 1)],
    }
    out.assumptions = ['page/CPU behaviour outside the model', 'arm64/386 emitters are executed as re-hosted source on amd64']
    return out.finish()


def replay(body):
    ops = body.get('ops', [])
    impl, model, _ = execute(ops, tag='c15-replay')
    rc = 0
    for i, op in enumerate(ops):
        _, k, f, t = op.split()
        why = (None if impl[i] == 'conc ok' else str(impl[i])) if op.startswith('conc ') else oracle(k, int(f, 16), int(t, 16), impl[i])
        print(f'{op}\n  impl : {impl[i]}\n  model: {model[i] if model else None}\n  oracle: {why or "ok"}')
        if why or (model and impl[i] != model[i]):
            rc = 1
    return rc
