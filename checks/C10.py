"""C10 — symbol lookup by name yields the exact run-time address or an error.

Proof: Props/C10.lean over Model/Sym.lean (transcription of internal/unexports2, ELF path): for every file content,
table, name, bias in BitVec 64 and every call history — found ⇔ first entry with exactly that name at table address +
bias; absent ⇔ error; unreadable table ⇒ error for every call; stripped ⇒ variables error.

Tie (X): the check links goom's package `internal/unexports2` with an injected in-package probe and a generated
companion file (hundreds/thousands of package variables, functions, methods, generic instances, closures) in several
link modes, derives further executables from them by patching section headers / the ELF symbol table (which neither
the kernel nor the Go runtime read, so they still run), extracts the model's input from each file with its OWN
ELF/pclntab reader (checks/c10elf.py, no code shared with debug/elf / debug/gosym), and runs the same query history in
the real process and in the model (`goomdrv`).  Independently of the model the oracle states the property on what the
real process returned: every returned function address must be the entry of a function of exactly that name according
to the runtime's own table (runtime.CallersFrames), every returned variable address must be `&v`.
"""
import json
import os
import shutil
import subprocess
import time

from vlib import common as C
from checks import c10elf

META = {
    'property_id': 'C10',
    'technique': 'Lean 4 theorems over a model of unexports2 symbol lookup (all tables, names, 64-bit biases, call histories) + differential run of the real package against the model on every symbol of test binaries built in several link modes and patched variants, with a runtime-table / &v oracle',
    'level': 'proof',
    'level_text': 'Partial: proved for every table, name, bias and call history that a lookup returns an address iff the table has an entry with exactly that name (first wins) and then its table address plus the slide recovered from the anchor, that absent names and every kind of unreadable table (no .gopclntab as in PIE, no .text, not ELF, bad pclntab; no ELF symbols for variables) give an error for every call, and that results do not depend on earlier calls — lookups, ExposeFunction and AllFunctions listings alike (history_independent, run_pointwise, all_functions_spec); histories in which the caller clears/filters/edits the listing it was handed are run against the real package. That the loader maps every other symbol with the same bias as the anchor is assumed, and checked on every symbol of the built binaries.',
    'level_note': 'Trusted: Lean kernel (axioms propext, Classical.choice, Quot.sound at most); the linker/loader contract (one bias for all functions, one for all data symbols; pclntab entry = runtime.text-relative offset); debug/elf and debug/gosym parse the file as the check\'s own independent reader does (differentially checked on every run); the hand model Model/Sym.lean (differentially checked on every query). Not covered: darwin/windows readers (cannot run here), pclntab names that occur more than once (first wins; counted). Concurrent callers: proved for every schedule of whole calls (conc_any_schedule); that sync.Once makes a call atomic with respect to the alignment state is trusted and observed by the concurrent-first-use lane (goroutines released from a barrier in fresh processes of slid executables — a test, not a proof). ELF symbol-table entries without an address (undefined, FILE, SECTION, TLS) are modelled as absent (non_address_symbol_is_error); HEAD answers (st_value+slide, nil) for them: known finding F27-c10-symkinds with a drafted fix. Executable file deleted before first use: required behaviour (error) proved as exe_gone_is_error and observed in child processes; file replaced by a DIFFERENT program: HEAD returns that program\'s addresses — known finding F28-c10-exe-replaced.',
}

PKG = 'github.com/tencent/goom/internal/unexports2'
API_PKG = 'github.com/tencent/goom'
AF, AV = PKG + '.FindFuncByName', PKG + '.stubVar'
M64 = (1 << 64) - 1
WORK = os.path.join(C.BUILD, 'c10')


def esc(b):
    if isinstance(b, str):
        b = b.encode()
    return ''.join(chr(c) if 0x21 <= c <= 0x7e and c not in (0x25, 0x40, 0x7c) else '%%%02x' % c for c in b)


# ------------------------------------------------------------------ generated companion (variables, functions, methods …)

VAR_KINDS = [
    ('int-bss', 'var {n} int'), ('int-data', 'var {n} = {k}'), ('string', 'var {n} string = "s{k}"'), ('array-noptrbss', 'var {n} [{sz}]byte'),
    ('ptr', 'var {n} *int'), ('struct', 'var {n} = struct{{ a int; b string }}{{ {k}, "x" }}'), ('slice-exported', 'var {N} []int'),
    ('map', 'var {n} map[string]int'), ('func', 'var {n} func()'), ('iface', 'var {n} interface{{}}'), ('float', 'var {n} float64 = {k}.5'),
    ('unicode-ident', 'var {u} uint16'), ('strarray', 'var {n} = [4]string{{"a{k}"}}'), ('byte', 'var {n}_x uint8 = {b}'),
]


def gen_companion(path, nv, nf, seed_, pkgname='unexports2', PKG=None):
    """Writes the companion test file; returns the names it registers (probe registries give the direct truth)."""
    PKG = PKG or globals()['PKG']
    rng = C.Rng(seed_).fork('companion')
    L = ['//go:build go1.18', '', 'package ' + pkgname, '', 'import (', '\t"reflect"', '\t"unsafe"', ')', '']
    vars_, funcs, others = [], [], []
    for i in range(nv):
        kind, tpl = VAR_KINDS[i % len(VAR_KINDS)]
        n, N, u = f'zzv{i}', f'ZzV{i}', f'zzvä{i}'
        line = tpl.format(n=n, N=N, u=u, k=rng.below(1000) + 1, sz=rng.below(200) + 1, b=rng.below(255) + 1)
        name = line.split()[1]
        L.append(line)
        vars_.append(name)
    L.append('')
    for i in range(nf):
        m = i % 6
        if m in (0, 1, 2):
            L += ['//go:noinline', f'func zzf{i}(a int) int {{ return a*{rng.below(97) + 3} + {i} }}']
            funcs.append(f'zzf{i}')
        elif m == 3:
            L += [f'type zzT{i} struct{{ x int }}', '//go:noinline', f'func (t zzT{i}) Get{i}() int {{ return t.x + {i} }}',
                  '//go:noinline', f'func (t *zzT{i}) set{i}(v int) {{ t.x = v + {i} }}']
            others += [(f'zzT{i}.Get{i}', f'zzT{i}.Get{i}'), (f'(*zzT{i}).set{i}', f'(*zzT{i}).set{i}')]
        elif m == 4:
            L += ['//go:noinline', f'func zzg{i}[T any](x T) T {{ zzsink += {i}; return x }}']
            others += [(None, f'zzg{i}[int]'), (None, f'zzg{i}[string]')]
        else:
            L += [f'var zzc{i} = func() int {{ return {i} }}']
            others.append((None, f'zzc{i}'))
    L += ['', 'var zzsink int', 'var zzkeep []interface{}', '', 'func init() {']
    for v in vars_:
        L.append(f'\tzzC10Vars["{PKG}.{v}"] = unsafe.Pointer(&{v})')
    for f in funcs:
        L.append(f'\tzzC10Funcs["{PKG}.{f}"] = reflect.ValueOf({f}).Pointer()')
    for _, expr in others:
        L.append(f'\tzzkeep = append(zzkeep, {expr})')
    L += ['}', '']
    os.makedirs(os.path.dirname(path), exist_ok=True)
    src = '\n'.join(L)
    if not os.path.exists(path) or open(path).read() != src:
        open(path, 'w').write(src)
    return {'vars': [f'{PKG}.{v}' for v in vars_], 'funcs': [f'{PKG}.{f}' for f in funcs],
            'methods': [f'{PKG}.{n}' for n, _ in others if n]}


# ------------------------------------------------------------------ link modes

def link_modes(tier):
    modes = [
        {'name': 'strip', 'args': ['-ldflags=-s -w'], 'what': 'what plain `go test` links (symbol table and DWARF omitted)'},
        {'name': 'sym', 'args': ['-ldflags=-s=false'], 'what': 'ELF symbol table kept (the flag goom documents)'},
        {'name': 'pie', 'args': ['-buildmode=pie'], 'what': 'position independent executable'},
        {'name': 'ext', 'args': ['-ldflags=-linkmode=external'], 'what': 'external (cgo-style) linking: .text starts before runtime.text'},
        {'name': 'ext-strip', 'args': ['-ldflags=-linkmode=external -s'], 'what': 'externally linked and stripped: no .symtab, but a .dynsym that must not be mistaken for it'},
    ]
    if tier == 'thorough':
        modes += [
            {'name': 'pie-ext', 'args': ['-buildmode=pie', '-ldflags=-linkmode=external'], 'what': 'PIE linked by the system linker'},
            {'name': 'inl', 'args': ['-ldflags=-s=false'], 'gcflags': None, 'what': 'inlining and optimisation left on'},
        ]
    return modes


def c10env(extra=None):
    """C.goenv without anything that changes what is built or how goom behaves: cgo on (external link modes), no GOOM_* knobs,
    no GODEBUG / GOEXPERIMENT / cross-compilation settings inherited from the caller"""
    e = C.goenv(extra)
    for k in list(e):
        if k.startswith('GOOM') or k in ('GODEBUG', 'GOEXPERIMENT', 'GOOS', 'GOARCH', 'GOAMD64', 'GOGC', 'GOMAXPROCS', 'GOTRACEBACK', 'CC', 'CGO_LDFLAGS', 'CGO_CFLAGS'):
            del e[k]
    e['CGO_ENABLED'] = '1'
    return e


def build(mode, companion, api=False):
    tag = ('c10api-' if api else 'c10-') + mode['name']
    pdir = C.REPO if api else os.path.join(C.REPO, 'internal/unexports2')
    repl = {os.path.join(pdir, 'zz_verif_c10_test.go'): os.path.join(C.HARNESS, 'c10', 'api_probe_test.go' if api else 'sym_probe_test.go'),
            os.path.join(pdir, 'zz_verif_c10gen_test.go'): companion}
    for vdir, fmap in C.helper_pkgs().items():
        for vname, real in fmap.items():
            repl[os.path.join(C.REPO, vdir, vname)] = real
    ov = os.path.join(WORK, tag + '.overlay.json')
    json.dump({'Replace': repl}, open(ov, 'w'), indent=1)
    out = os.path.join(WORK, tag + '.test')
    if os.path.exists(out):
        os.remove(out)
    cmd = ['go', 'test', '-c', '-o', out, '-overlay', ov, '-vet=off']
    if mode.get('gcflags', 'all=-l'):
        cmd.append('-gcflags=' + mode.get('gcflags', 'all=-l'))
    if not any(a.startswith('-buildmode') for a in mode['args']):
        cmd.append('-buildmode=exe')       # the non-PIE modes must not become PIE through a default or GOFLAGS
    cmd += mode['args'] + ['.' if api else './internal/unexports2']
    rc, o, e = C.sh(cmd, cwd=C.REPO, env=c10env(), timeout=3600)
    if rc != 0 or not os.path.exists(out):
        raise C.Infra(f'probe for link mode {mode["name"]} does not build against the current tree:\n{(o + e)[-3000:]}')
    return out


# ------------------------------------------------------------------ derived executables

def variants(mode_name, rng, tier):
    """(variant name, spec).  spec is JSON: text = amount subtracted from the `.text` section address (file addresses of all
    functions that much lower -> slide +text), syms = amount added to every st_value, rename = section rename,
    drop_symtab, dup = the first generated variable's symbol takes the name of the second."""
    out = [('as-linked', {})]
    if mode_name not in ('sym', 'ext'):
        return out
    deltas = [0x1000, (-0x1000) & M64, 1 << 63, rng.next(), (-(rng.below(1 << 40) + 1)) & M64]
    if tier == 'thorough':
        deltas += [rng.next() for _ in range(6)] + [1, M64, (1 << 64) - 0x401000]
    for d in deltas[:2] if mode_name == 'ext' else deltas:
        out.append((f'text-slide{d:#x}', {'text': d}))
    if mode_name == 'sym':
        for d in deltas[1:4] if tier == 'quick' else deltas[1:]:
            out.append((f'data-slide{(-d) & M64:#x}', {'syms': d}))
        out.append(('both-slides', {'text': rng.next(), 'syms': rng.next()}))
        out.append(('no-gopclntab', {'rename': ['.gopclntab', '.xopclntab']}))
        out.append(('no-text', {'rename': ['.text', '.txet']}))
        out.append(('no-symtab', {'drop_symtab': True}))
        out.append(('pclntab-data-beyond-eof', {'sec_off': ['.gopclntab', 1 << 40]}))
        out.append(('section-table-beyond-eof', {'shoff': 1 << 40}))
        out.append(('pclntab-unrecognised', {'sec_off_of': ['.gopclntab', '.text']}))   # header points at bytes that are no pclntab
        out.append(('dup-symbol', {'dup': True}))
    return out


def apply_variant(e, spec, comp):
    """Patches the image; returns the bias data symbols of the file now have relative to memory."""
    vbias = 0
    if 'text' in spec:
        e.set_text_addr(e.section(b'.text')['addr'] - spec['text'])
    if 'syms' in spec:
        e.shift_symtab(spec['syms'])
        vbias = (-spec['syms']) & M64
    if 'rename' in spec:
        e.rename_section(spec['rename'][0].encode(), spec['rename'][1].encode())
    if 'sec_off' in spec:
        e.set_section_offset(spec['sec_off'][0].encode(), spec['sec_off'][1])
    if 'sec_off_of' in spec:
        e.set_section_offset(spec['sec_off_of'][0].encode(), e.section(spec['sec_off_of'][1].encode())['off'])
    if 'shoff' in spec:
        e.set_shoff(spec['shoff'])
    if spec.get('drop_symtab'):
        e.drop_symtab()
    if spec.get('dup'):
        e.alias_symbol(comp['vars'][0].encode(), comp['vars'][1].encode())
    return vbias


_TOK_CACHE = {}


def describe_tokens(desc, facts):
    key = (id(desc.get('pcln')), id(desc.get('syms')), desc.get('open', True), desc.get('elf', True), desc['text'], facts['mf'], facts['mv'])
    if key not in _TOK_CACHE:
        _TOK_CACHE[key] = _describe_tokens(desc, facts)
    return _TOK_CACHE[key]


def _describe_tokens(desc, facts):
    t = [f'mf={facts["mf"]:#x}', f'mv={facts["mv"]:#x}', 'af=' + esc(AF), 'av=' + esc(AV), ('elf=noopen' if desc.get('open') is False else 'elf=ok' if desc.get('elf', True) else 'elf=bad'),
         'text=-' if desc['text'] is None else f'text={desc["text"]:#x}']
    if desc['pcln'] is None:
        t.append('pcln=-')
    elif desc['pcln'] == 'bad':
        t.append('pcln=bad')
    else:
        t.append(f'pcln={len(desc["pcln"])}')
        t += [f'{esc(n)}@{o:#x}' for n, o in desc['pcln']]
    if desc['syms'] is None:
        t.append('syms=-')
    else:
        t.append(f'syms={len(desc["syms"])}')
        t += [f'{esc(n)}@{v:#x}' + ('' if a else '!') for (n, v), a in zip(desc['syms'], desc['symaddr'])]
    return t


# ------------------------------------------------------------------ queries

FULL_SWEEP_VARIANTS = ('text-slide0x1000', 'data-slide0x1000', 'both-slides')
MUTS = ['drop', 'insert', 'replace', 'truncate', 'extend', 'case', 'space', 'double', 'path-suffix', 'path-suffix', 'vendor', 'generic-args']


def near_miss(name, rng):
    b = bytearray(name)
    kind = rng.choice(MUTS)
    i = rng.below(len(b)) if b else 0
    if kind == 'drop' and b:
        del b[i]
    elif kind == 'insert':
        b.insert(i, rng.choice(b'abz._*()/0'))
    elif kind == 'replace' and b:
        b[i] = (b[i] + 1 + rng.below(5)) % 127 or 0x41
    elif kind == 'truncate' and b:
        b = b[:i]
    elif kind == 'extend':
        b += rng.choice([b'x', b'.func1', b'.', b'0', '·f'.encode()])
    elif kind == 'case' and b:
        j = next((k for k in range(i, len(b)) if chr(b[k]).isalpha()), None)
        if j is not None:
            b[j] ^= 0x20
    elif kind == 'space':
        b = bytearray(b' ') + b if rng.below(2) else b + bytearray(b' ')
    elif kind == 'double' and b:
        b.insert(i, b[i])
    elif kind == 'path-suffix':                      # a/b/c.F -> b/c.F, c.F (what a "short package name" fallback would accept)
        parts = bytes(b).split(b'/')
        if len(parts) > 1 and b'[' not in parts[0]:
            b = bytearray(b'/'.join(parts[1 + rng.below(len(parts) - 1):]))
        else:
            b = bytearray(b'x/') + b
    elif kind == 'vendor':
        b = b[7:] if bytes(b).startswith(b'vendor/') else bytearray(b'vendor/') + b
    elif kind == 'generic-args':                      # pkg.G[go.shape.int] -> pkg.G[int], pkg.G[...], pkg.G
        i, j = bytes(b).find(b'['), bytes(b).rfind(b']')
        if 0 <= i < j:
            inner = bytes(b[i + 1:j])
            alt = rng.choice([inner.replace(b'go.shape.', b''), b'...', b'go.shape.uint8', b'int', None])
            b = b[:i] + b[j + 1:] if alt is None else b[:i + 1] + bytearray(alt) + b[j:]
        else:
            b += b'[go.shape.int]'
    if bytes(b) == bytes(name):
        b += b'~'
    return kind, bytes(b)


def make_queries(desc, comp, rng, full, nmiss, sample=400):
    """List of (query token, tag).  full: every function / symbol of the file; else a sample plus everything generated."""
    fn = [n for n, _ in (desc['pcln'] if isinstance(desc['pcln'], list) else [])]
    sy = [n for n, _ in (desc['syms'] or [])]
    gen_f = [x.encode() for x in comp['funcs'] + comp['methods']]
    gen_v = [x.encode() for x in comp['vars']]
    q = []
    if full:
        q += [('f:' + esc(n), 'func') for n in fn]
        q += [('v:' + esc(n), 'sym') for n in sy]
        q += [('x:' + esc(n), 'expose') for n in fn[::7]]
        q += [('v:' + esc(n), 'sym-absent-or-text') for n in fn[::5]]
        q += [('f:' + esc(n), 'func-absent') for n in sy[::9]]
    else:
        pick = lambda xs, k: [xs[rng.below(len(xs))] for _ in range(k)] if xs else []
        q += [('f:' + esc(n), 'func') for n in pick(fn, sample) + (gen_f if len(gen_f) <= 2 * sample else pick(gen_f, 2 * sample)) + [AF.encode()]]
        q += [('v:' + esc(n), 'sym') for n in pick(sy, sample) + gen_v + [AV.encode()]]
        q += [('x:' + esc(n), 'expose') for n in pick(fn, sample // 4)]
    if not fn:     # unreadable / PIE: the file's tables are not visible to the check either; ask for what must exist
        q += [('f:' + esc(n), 'func') for n in gen_f] + [('v:' + esc(n), 'sym') for n in gen_v] + [('x:' + esc(n), 'expose') for n in gen_f[:50]]
    q += [('v:' + esc(n), 'dynsym-name') for n in desc.get('dynsym_names', []) if n] + [('f:' + esc(n), 'dynsym-name') for n in desc.get('dynsym_names', [])[:20] if n]
    base = (fn or gen_f) + (sy or gen_v)
    generic = [n for n in fn if b'[' in n and n.startswith(PKG.encode())] or [n for n in fn if b'[' in n]
    for k in range(nmiss):
        n = generic[rng.below(len(generic))] if generic and k % 12 == 0 else base[rng.below(len(base))]
        kind, m = near_miss(n, rng)
        q.append((rng.choice(['f:', 'v:', 'x:', 'f:', 'v:']) + esc(m), 'miss-' + kind))
    q += [('f:', 'miss-empty'), ('v:', 'miss-empty'), ('x:', 'miss-empty'), ('f:' + esc(b'a' * 5000), 'miss-long'), ('v:' + esc(b'\x00'), 'miss-nul'),
          ('f:' + esc(PKG.encode()), 'miss-pkgonly'), ('v:' + esc((PKG + '.').encode()), 'miss-pkgonly')]
    # shuffle
    for i in range(len(q) - 1, 0, -1):
        j = rng.below(i + 1)
        q[i], q[j] = q[j], q[i]
    return q


def api_split(n):
    """pclntab name -> public-API query (form, pieces) that goom recomposes to exactly n, or None"""
    if any(c in n for c in b'[| ') or not n:
        return None
    dot = n.find(b'.', n.rfind(b'/') + 1)
    if dot < 0:
        return None
    pkg, rest = n[:dot], n[dot + 1:]
    if not rest:
        return None
    if rest.startswith(b'(*') and b').' in rest:
        ty, meth = rest[1:rest.index(b')')], rest[rest.index(b').') + 2:]
        return 'M', [pkg, ty, meth]
    return 'F', [pkg, rest]


def api_name(q):
    """(model kind, escaped full name) a public-API query token stands for"""
    parts = q[2:].split('|')
    if q[0] == 'V':
        return 'v', parts[0]
    if q[0] == 'F':
        return 'f', parts[0] + '.' + parts[1]
    recv = '(' + parts[1] + ')' if '*' in parts[1] else parts[1]
    return 'f', parts[0] + '.' + recv + '.' + parts[2]


def make_api_queries(desc, comp, rng, nfun, nmiss):
    fn = [n for n, _ in (desc['pcln'] if isinstance(desc['pcln'], list) else [])]
    sy = [n for n, _ in (desc['syms'] or [])]
    gen_f = [x.encode() for x in comp['funcs'] + comp['methods']]
    gen_v = [x.encode() for x in comp['vars']]
    q = []

    def add(n, tag):
        sp = api_split(n)
        if sp:
            q.append((sp[0] + ':' + '|'.join(esc(p) for p in sp[1]), tag))
            if sp[0] == 'F' and sp[1][1].count(b'.') == 1 and rng.below(2):   # pkg.T.m can also be asked as a method of T
                t, m = sp[1][1].split(b'.')
                q.append(('M:' + '|'.join(esc(p) for p in (sp[1][0], t, m)), tag + '-as-method'))
    for n in ([fn[rng.below(len(fn))] for _ in range(nfun)] if fn else []) + gen_f + [AF.encode()]:
        add(n, 'func')
    for n in ([sy[rng.below(len(sy))] for _ in range(nfun // 2)] if sy else []) + gen_v + [AV.encode()]:
        if b'|' not in n:
            q.append(('V:' + esc(n), 'sym'))
    base = (fn or gen_f) + gen_f + gen_v
    for _ in range(nmiss):
        kind, m = near_miss(base[rng.below(len(base))], rng)
        if rng.below(3) == 0 and b'|' not in m:
            q.append(('V:' + esc(m), 'miss-' + kind))
        else:
            add(m, 'miss-' + kind)
    q += [('F:' + esc(API_PKG) + '|', 'empty-name'), ('V:', 'miss-empty'), ('M:' + esc(API_PKG) + '|*zzT3|Get3', 'miss-receiver-kind'),
          ('M:' + esc(API_PKG) + '|zzT3|set3', 'miss-receiver-kind'), ('F:|x', 'miss-nopkg')]
    for i in range(len(q) - 1, 0, -1):
        j = rng.below(i + 1)
        q[i], q[j] = q[j], q[i]
    return q


# ------------------------------------------------------------------ running

def run_binary(binary, test, ops_line, tag, launch=None):
    """One process.  launch: {'self': delete|chmod000|replace-same, 'argv0': text, 'path_dir': dir put in front of PATH}:
    the executable is first copied to a directory of its own (the child damages its own file), and started with that argv[0]."""
    ops_path = os.path.join(WORK, tag + '.ops')
    out_path = os.path.join(WORK, tag + '.impl')
    open(ops_path, 'w').write(ops_line + '\n')
    for p in (out_path, out_path + '.rt', out_path + '.self'):
        if os.path.exists(p):
            os.remove(p)
    if not launch:
        rc, log = C.run_probe(binary, test, ops_path, out_path, timeout=3000, cwd=WORK, env=c10env())
    else:
        d = os.path.join(WORK, 'self', tag)
        shutil.rmtree(d, ignore_errors=True)
        os.makedirs(d)
        prog = os.path.join(d, 'prog.test')
        shutil.copy(binary, prog)
        os.chmod(prog, 0o755)
        env = c10env({'VERIF_OPS': ops_path, 'VERIF_OUT': out_path, 'VERIF_SEED': str(C.seed()), 'VERIF_C10_SELF': launch['self'],
                      'VERIF_C10_OTHER': launch.get('other', '')})
        if launch.get('path_dir'):
            env['PATH'] = launch['path_dir'] + os.pathsep + env.get('PATH', '')
        try:
            pr = subprocess.run([launch['argv0'], '-test.run', '^' + test + '$', '-test.count=1', '-test.timeout', '3000s'], executable=prog,
                                env=env, cwd=d, capture_output=True, text=True, timeout=3100)
            rc, log = pr.returncode, pr.stdout + pr.stderr
        except subprocess.TimeoutExpired:
            rc, log = -1, 'timeout'
        shutil.rmtree(d, ignore_errors=True)
    obs = C.read_indexed(out_path, 1)[0]
    rt = C.read_indexed(out_path + '.rt', 1)[0]
    return rc, log, obs, rt


def facts_of(binary, tag):
    rc, log, obs, _ = run_binary(binary, 'TestVerifC10Facts', 'facts', tag + '.facts')
    if rc != 0 or not obs:
        raise C.Infra(f'{tag}: facts run failed rc={rc}: {log[-1500:]}')
    kv = dict(p.split('=') for p in obs.split())
    return {k: int(v, 0) for k, v in kv.items()}


NOADDR = 'symtab entry without an address'


def SymPrintName(name):
    i, j = name.find('['), name.rfind(']')
    return name if i < 0 or j <= i else name[:i] + '[...]' + name[j + 1:]


def func_addrs(case, name):
    """run-time entries of the functions called exactly `name`, from the file plus the slide the anchor shows (None if unknown)"""
    d = case['desc']
    anchor = case['fnames'].get(esc(AF))
    if d['text'] is None or not anchor:
        return None
    slide = (case['facts']['mf'] - d['text'] - anchor[0]) & M64
    return [(d['text'] + o + slide) & M64 for o in case['fnames'].get(name, [])]


def is_readable(d):
    return bool(d.get('open', True) and d.get('elf', True) and d['text'] is not None and d['pcln'] not in (None, 'bad'))


def oracle(case, q, obs, rt):
    """The property on what the real process did for one query.  Returns None or the complaint."""
    if q[0] == 'a':
        d = case['desc']
        ok = d.get('open', True) and d.get('elf', True) and d['text'] is not None and d['pcln'] not in (None, 'bad')
        if obs is None or obs.startswith('panic') or not (obs.startswith('set:') or obs.startswith('err:')):
            return f'AllFunctions must return a set or an error, got {obs}'
        if ok and obs != f'set:{len(case["fnames"])}':
            return f'AllFunctions returned {obs}; the table of this file has {len(case["fnames"])} distinct function names'
        if not ok and obs.startswith('set:'):
            return f'table cannot be read from this file but AllFunctions returned {obs}'
        return None
    if q[0] in 'FMV':
        if q[0] == 'F' and q.endswith('|'):
            return None if obs == 'panic:empty-name' else f'ExportFunc("") must be refused, got {obs}'
        kind, name = api_name(q)
    else:
        kind, name = q[0], q[2:]
    d = case['desc']
    readable = d.get('open', True) and d.get('elf', True) and d['text'] is not None and d['pcln'] not in (None, 'bad')
    if obs is None:
        return 'no observation (process died?)'
    if obs == 'exposed-value-changed':
        return 'a function value handed out by an earlier ExposeFunction / As no longer points at the address it was built for'
    if obs.startswith('panic') or obs in ('bad-query', 'err-with-addr'):
        return f'lookup must return an address or an error, got {obs}'
    table = case['fnames'] if kind in 'fx' else case['snames']
    if obs.startswith('ok:'):
        a = int(obs[3:], 16)
        if not readable:
            if rt in ('exact', 'exact+ptr', 'exact-func', 'entry-only'):
                return None
            return f'table cannot be read from this file but an address {a:#x} was returned ({rt})'
        if kind in 'fx':
            if rt not in ('exact', 'exact+ptr', 'entry-only'):
                return f'returned {a:#x}, which the runtime says is not the entry of a function of that name ({rt})'
            if name not in table:
                return f'returned {a:#x} for a name no function of the table has (the runtime prints that function\'s name as {SymPrintName(name)})'
            if '[' in name or rt == 'entry-only':
                # the runtime cannot tell generic instances apart (it prints their type arguments as "..."): judge by the file
                want = func_addrs(case, name)
                if want is not None and a not in want:
                    return f'returned {a:#x}; the functions of exactly that name are at {[hex(w) for w in want]}'
        else:
            if name not in table and name in case.get('noaddr', ()):
                return NOADDR + f': returned {a:#x} with a nil error for an ELF symbol that has no address (undefined / FILE / SECTION / TLS entry)'
            dups = [(v + case['vbias']) & M64 for v in table.get(name, [])]
            if len(dups) > 1:       # uniqueness precondition does not hold for this name: any symbol of exactly that name is acceptable
                return None if a in dups else f'returned {a:#x}; the symbols of that name are at {[hex(w) for w in dups]}'
            if rt.startswith('ptr='):
                return f'returned {a:#x} but the variable lives at {rt[4:]}'
            if rt not in ('unk', 'exact+ptr', 'exact-func'):
                return f'returned {a:#x}: unexpected runtime verdict {rt}'
            if rt == 'unk':
                want = [(v + case['vbias']) & M64 for v in table.get(name, [])]
                if not want:
                    return f'returned {a:#x} for a name no symbol of the file has'
                if a not in want:
                    return f'returned {a:#x}; the symbols of that name are at {[hex(w) for w in want]}'
        return None
    if obs.startswith('err:'):
        if readable and name in table:
            return f'symbol is in the table read from the file but the lookup failed with {obs}'
        return None
    return f'unparsable observation {obs}'


def run_case(case, exe):
    """Runs one history in the real process and the model; fills case['impl'], case['rt'], case['model']."""
    head = ['c10.conc', case['id'], f'g={case["g"]}'] if case.get('g') else ['c10.hist', case['id']]
    toks = head + describe_tokens(case['desc'], case['facts']) + [f'q={len(case["queries"])}'] + [q for q, _ in case['queries']]
    line = ' '.join(toks)
    rc, log, obs, rt = run_binary(case['binary'], case.get('test', 'TestVerifC10'), line, case['id'], case.get('launch'))
    if obs is None:        # killed / timed out / crashed: once more before anything is said (a crash that reproduces is reported)
        case['retried'] = True
        rc, log, obs, rt = run_binary(case['binary'], case.get('test', 'TestVerifC10'), line, case['id'], case.get('launch'))
    n = len(case['queries'])
    case['impl'] = obs.split(' ') if obs else [None] * n
    case['rt'] = rt.split(' ') if rt else ['-'] * n
    if len(case['impl']) != n:
        case['impl'] = (case['impl'] + [None] * n)[:n]
    if len(case['rt']) != n:
        case['rt'] = (case['rt'] + ['-'] * n)[:n]
    case['rc'], case['log'] = rc, log[-1500:]
    if case.get('launch'):
        sp = os.path.join(WORK, case['id'] + '.impl.self')
        said = open(sp).read().split() if os.path.exists(sp) else []
        want = 'open=ok' if case['desc'].get('open', True) else 'open=fail'
        if want not in said:
            raise C.Infra(f'{case["id"]}: the child reports {said} about its own executable, the check expected {want}')
    if exe:
        ops_path = os.path.join(WORK, case['id'] + '.ops')
        m = C.run_driver(exe, ops_path, os.path.join(WORK, case['id'] + '.model'))
        case['model'] = m[0].split(' ') if m and m[0] != 'bad-op' else None
        if case['model'] is not None and len(case['model']) != n:
            case['model'] = None
    else:
        case['model'] = None
    return case


def tables_of(desc):
    """name -> offsets / values as the lookups may see them: every pclntab entry; the ELF symbols that have an address"""
    fn, sn = {}, {}
    for n, o in (desc['pcln'] if isinstance(desc['pcln'], list) else []):
        fn.setdefault(esc(n), []).append(o)
    for (n, v), a in zip(desc['syms'] or [], desc['symaddr'] or []):
        if a:
            sn.setdefault(esc(n), []).append(v)
    return fn, sn


def noaddr_names(desc):
    """names carried only by ELF symbols that have no address (undefined, FILE, SECTION, TLS)"""
    has = {n for (n, _), a in zip(desc['syms'] or [], desc['symaddr'] or []) if a}
    return {esc(n) for (n, _), a in zip(desc['syms'] or [], desc['symaddr'] or []) if not a and n not in has}


def prepare(tier, rng, comp_spec, only=None):
    """Build every link mode and derive the variants (only = (mode name, variant name, spec) for replays)."""
    os.makedirs(WORK, exist_ok=True)
    companion = os.path.join(WORK, 'zz_gen_test.go')
    comp = gen_companion(companion, comp_spec['nv'], comp_spec['nf'], comp_spec['seed'])
    cases = []
    for mode in link_modes('thorough' if only else tier):
        if only and mode['name'] != only[0]:
            continue
        binary = build(mode, companion)
        raw = open(binary, 'rb').read()
        vs = [(only[1], only[2])] if only else variants(mode['name'], rng.fork('variants-' + mode['name']), tier)
        for vname, spec in vs:
            e = c10elf.Elf(raw)
            vbias = apply_variant(e, spec, comp)
            cid = f'{mode["name"]}.{vname}'
            path = binary if not spec else os.path.join(WORK, f'c10-{cid}.test')
            if spec:
                open(path, 'wb').write(e.bytes())
                os.chmod(path, 0o755)
            desc = c10elf.describe_bytes(e.bytes())      # re-read the patched image from scratch
            fn, sn = tables_of(desc)
            cases.append({'fnames_raw': [n for n, _ in (desc['pcln'] if isinstance(desc['pcln'], list) else [])], 'id': cid, 'mode': mode, 'variant': vname, 'spec': spec, 'binary': path, 'desc': desc, 'vbias': vbias,
                          'fnames': fn, 'snames': sn, 'noaddr': noaddr_names(desc), 'facts': facts_of(path, 'c10-' + cid), 'comp': comp})
    return cases, comp


def prepare_api(tier, seed_, only=None):
    """The public-API lane: goom's root package with the API probe, as linked, in a subset of the link modes."""
    os.makedirs(WORK, exist_ok=True)
    path = os.path.join(WORK, 'zz_apigen_test.go')
    comp = gen_companion(path, 56, 60, seed_, pkgname='mocker', PKG=API_PKG)
    want = ('sym', 'ext', 'pie') if tier == 'quick' else ('sym', 'ext', 'pie', 'strip', 'pie-ext')
    cases = []
    for mode in link_modes('thorough'):
        if mode['name'] != only if only else mode['name'] not in want:
            continue
        binary = build(mode, path, api=True)
        desc = c10elf.describe_bytes(open(binary, 'rb').read())
        facts = facts_of(binary, 'c10api-' + mode['name'])
        facts['mv'] = next((v for n, v in (desc['syms'] or []) if n == AV.encode()), 0)   # not relocated: memory address = symbol value
        fn, sn = tables_of(desc)
        cases.append({'fnames_raw': [n for n, _ in (desc['pcln'] if isinstance(desc['pcln'], list) else [])], 'id': 'api.' + mode['name'],
                      'mode': mode, 'variant': 'as-linked', 'spec': {}, 'binary': binary, 'desc': desc, 'vbias': 0, 'fnames': fn, 'snames': sn, 'noaddr': noaddr_names(desc),
                      'facts': facts, 'comp': comp, 'test': 'TestVerifC10Api', 'api': True})
    return cases


def small_queries(case, comp, r, k, miss):
    """k lookups of names that exist (functions, exposes, variables in turn) plus a few near-misses, in random order after
    the first len(kinds) ones"""
    fnl = list(case['fnames_raw']) or [x.encode() for x in comp['funcs']]
    syl = [n for n, _ in (case['desc']['syms'] or [])] or [x.encode() for x in comp['vars']]
    gen_f = [x.encode() for x in comp['funcs']]
    gen_v = [x.encode() for x in comp['vars']]
    q = []
    for i in range(k):
        m = i % 4
        if m == 0:
            q.append(('f:' + esc(fnl[r.below(len(fnl))]), 'func'))
        elif m == 1:
            q.append(('x:' + esc(fnl[r.below(len(fnl))]), 'expose'))
        elif m == 2:
            src = gen_v if r.below(2) else syl
            q.append(('v:' + esc(src[r.below(len(src))]), 'sym'))
        else:
            q.append(('f:' + esc(gen_f[r.below(len(gen_f))]), 'func'))
    for _ in range(miss):
        kind, mname = near_miss(fnl[r.below(len(fnl))], r)
        q.insert(r.below(len(q) + 1) if len(q) > 16 else len(q), (r.choice(['f:', 'v:', 'x:']) + esc(mname), 'miss-' + kind))
    return q


def allfuncs_histories(cases, comp, rng, tier):
    """AllFunctions() between lookups, the caller editing the set it was handed (clear it, filter it down to one package,
    delete a name, insert a made-up name): a listing is a fresh value, later lookups of names of every kind and later
    listings must be unaffected."""
    hs = []
    for case in cases:
        if not (case['variant'] == 'as-linked' or case['variant'] in FULL_SWEEP_VARIANTS):
            continue
        r = rng.fork('q-allfuncs-' + case['id'])
        fnl = list(case['fnames_raw']) or [x.encode() for x in comp['funcs']]
        k = 40 if tier == 'quick' else 400
        q = [('a:none', 'allfuncs')] if r.below(2) and tier == 'quick' else []          # also: AllFunctions as the very first call of the process
        q += small_queries(case, comp, r, 8, 2)
        victim = fnl[r.below(len(fnl))]
        edits = ['a:del=' + esc(victim), 'a:add=' + esc(PKG.encode() + b'.zzNoSuchFunc'), 'a:keep=' + esc(r.choice([b'runtime.', PKG.encode(), b'zz'])),
                 'a:clear', 'a:none']
        if tier == 'thorough':          # see conc_histories: a listing costs the model ~13 s on the 38k-function table
            edits = [edits[r.below(3)], 'a:clear']
        for edit in edits:
            q.append((edit, 'allfuncs'))
            q += [('f:' + esc(victim), 'func'), ('x:' + esc(victim), 'expose'), ('f:' + esc(PKG.encode() + b'.zzNoSuchFunc'), 'miss-made-up')]
            q += small_queries(case, comp, r, k, k // 10)
        q.append(('a:none', 'allfuncs'))
        h = dict(case)
        h['id'] = case['id'] + '.allfuncs'
        h['queries'] = q
        hs.append(h)
    return hs


def conc_histories(cases, comp, rng, tier):
    """Concurrent first use: N goroutines released from a spin barrier, each doing its first lookup, on executables whose
    slide is not zero (there a lookup that overtakes the once-only initialisation is visibly wrong); fresh process each."""
    # (thorough executables have 90k table entries: every extra process costs ~10 s of table parsing on both sides)
    plan = {'ext.as-linked': ((2, 4, 8, 16), 3 if tier == 'quick' else 4), 'sym.text-slide0x1000': ((4, 16), 2 if tier == 'quick' else 3),
            'sym.both-slides': ((3, 16), 1 if tier == 'quick' else 2)}
    hs = []
    for case in cases:
        if case['id'] not in plan:
            continue
        for n in plan[case['id']][0]:
            for rep in range(plan[case['id']][1]):
                h = dict(case)
                h['id'] = f'{case["id"]}.conc{n}.{rep}'
                h['g'] = n
                h['queries'] = small_queries(case, comp, rng.fork('q-' + h['id']), 6 * n, n // 2)
                # AllFunctions listings (edited by the caller) among the later calls — never among the first n, those are the racing
                # first lookups.  The model's distinct-name count is quadratic in the table: with thorough's 38k functions one listing
                # costs the driver ~13 s, so thorough lists only in the 16-goroutine histories of the externally linked executable.
                if rep % 2 == 1 and tier == 'quick':      # AllFunctions (unguarded GetSymbolTable) racing with the first lookups
                    h['queries'][rep % n] = ('a:none', 'allfuncs')
                edits = ('a:clear', 'a:keep=runtime.', 'a:none') if tier == 'quick' else (('a:clear',) if (case['id'], n) == ('ext.as-linked', 16) else ())
                for j, edit in enumerate(edits):
                    h['queries'].insert(n + (j * 2 * n + rep) % (len(h['queries']) - n), (edit, 'allfuncs'))
                hs.append(h)
    # steady state: every goroutine keeps looking up ITS OWN variables (two each, alternating), hundreds of times, all at once; the
    # answers are judged against &v.  Lookups are read-only on the tables, so nothing one goroutine asks may change another's answer.
    gen_v = [x.encode() for x in comp['vars']]
    for case in cases:
        if case['id'] not in ('sym.as-linked', 'ext.as-linked') or not case['desc']['syms']:
            continue
        for n in (4, 16):
            r = rng.fork(f'q-{case["id"]}.convars{n}')
            mine = [gen_v[r.below(len(gen_v))] for _ in range(2 * n)]
            rounds = 150 if tier == 'quick' else 1500
            h = dict(case)
            h['id'] = f'{case["id"]}.convars{n}'
            h['g'] = n
            h['queries'] = [('v:' + esc(mine[(i % n) * 2 + (i // n) % 2]), 'sym-own') for i in range(n * rounds)]
            hs.append(h)
    return hs


def can_open_mode0():
    """can this user open a file whose mode is 000 (root with CAP_DAC_OVERRIDE can)?  measured, not assumed from the uid"""
    p = os.path.join(WORK, 'mode0-probe')
    open(p, 'w').write('x')
    os.chmod(p, 0)
    try:
        open(p).close()
        return True
    except OSError:
        return False
    finally:
        os.chmod(p, 0o600)
        os.remove(p)


def self_histories(cases, comp, rng, tier):
    """Executable unreadable: the child deletes / chmods / rewrites its own executable file before its first lookup and runs
    under an argv[0] naming another Go binary (absolute, or a bare name found through PATH) or garbage.  Deleted: the table
    cannot be read, every lookup must be an error; still readable (chmod as root, same bytes rewritten): exact answers."""
    by_id = {c['id']: c for c in cases}
    hs = []
    gotool = os.path.join(C.goroot(), 'bin', 'go')
    pdir = os.path.join(WORK, 'pathdir')
    for cid, other in (('ext.as-linked', 'sym.as-linked'), ('sym.as-linked', 'ext.as-linked')):
        if cid not in by_id or other not in by_id:
            continue
        case, ob = by_id[cid], by_id[other]['binary']
        shutil.rmtree(pdir, ignore_errors=True) if cid == 'ext.as-linked' else None
        os.makedirs(pdir, exist_ok=True)
        link = os.path.join(pdir, 'zzc10tool-' + cid)
        if not os.path.exists(link):
            os.symlink(ob, link)
        root = can_open_mode0()
        plans = [('delete', ob, None, False), ('delete', 'zzc10tool-' + cid, pdir, False), ('delete', '/no/such/dir/zz garbage', None, False),
                 ('delete', gotool, None, False), ('chmod000', ob, None, root), ('replace-same', ob, None, True)]
        if cid == 'sym.as-linked':
            plans = plans[:2]
        if cid == 'ext.as-linked':
            plans.append(('replace-other', case['binary'], None, True))
        for k, (act, argv0, pd, openable) in enumerate(plans):
            h = dict(case)
            h['id'] = f'{cid}.self-{act}.{k}'
            h['launch'] = {'self': act, 'argv0': argv0, 'path_dir': pd}
            h['desc'] = dict(case['desc'], open=openable)
            if act == 'replace-other':
                # goom will read the OTHER program's tables: that file is the model's input (the model transcribes the code as it is);
                # the oracle keeps judging by this process' own tables and the runtime.  Recorded finding, see run().
                h['launch']['other'] = ob
                h['desc'] = dict(by_id[other]['desc'], open=True)
                h['replaced'] = True
            h['queries'] = small_queries(case, comp, rng.fork('q-' + h['id']), 240 if tier == 'quick' else 2000, 20)
            hs.append(h)
    return hs


def run(tier):
    out = C.Outcome('C10', tier)
    rng = C.Rng(C.seed()).fork('C10')
    proof = C.prove('C10', leanchecker=(tier == 'thorough'))
    exe, derr = C.build_driver()
    if exe is None:
        proof['failed'].append(('goomdrv', 'driver does not build: ' + derr[-500:]))
    comp_spec = {'nv': 210 if tier == 'quick' else 2100, 'nf': 360 if tier == 'quick' else 20004, 'seed': C.seed()}
    cases, comp = prepare(tier, rng, comp_spec)
    hist = []
    for case in cases:
        # every function and every symbol of the file: executables as linked; in thorough also one text-, one data- and the double slide
        full = case['variant'] == 'as-linked' or (tier == 'thorough' and case['variant'] in FULL_SWEEP_VARIANTS)
        r = rng.fork('q-' + case['id'])
        base = dict(case)
        base['queries'] = make_queries(case['desc'], comp, r, full, (1500 if full else 300) * (1 if tier == 'quick' else 4),
                                       sample=400 if tier == 'quick' else 4000)
        hist.append(base)
        if case['variant'] == 'as-linked' or case['variant'].startswith('text-slide'):
            # second history of the same executable: ExposeFunction is the very first call of the process
            h2 = dict(case)
            h2['id'] = case['id'] + '.expose-first'
            fnl = list(case['fnames_raw']) or [x.encode() for x in comp['funcs']]
            pick = [fnl[r.below(len(fnl))] for _ in range(40)]
            h2['queries'] = [('x:' + esc(n), 'expose-first') for n in pick] + [('f:' + esc(n), 'func') for n in pick] + \
                            [('x:' + esc(n), 'expose') for n in pick] + [('v:' + esc(AV.encode()), 'sym')]
            hist.append(h2)
    hist += conc_histories(cases, comp, rng, tier) + self_histories(cases, comp, rng, tier) + allfuncs_histories(cases, comp, rng, tier)
    for case in prepare_api(tier, C.seed()):
        cases.append(case)
        h = dict(case)
        h['queries'] = make_api_queries(case['desc'], case['comp'], rng.fork('q-' + case['id']), 600 if tier == 'quick' else 6000,
                                        300 if tier == 'quick' else 3000)
        hist.append(h)
    stats = {}
    weak = {'runtime has no name for the function (name-table offset 0): entry compared only': 0,
            'generic instance: runtime prints type arguments as [...], name compared modulo them': 0,
            'data symbol without a Go-level handle in the probe: compared with file value + known bias only': 0}
    total = nontriv = agreed = better = 0
    distinct = set()
    bad, diffs, noaddr_hits, replaced_hits = [], [], [], []
    h_replaced = lambda c: bool(c.get('replaced'))
    for case in hist:
        run_case(case, exe)
        st = stats.setdefault(case['id'], {})
        for i, (q, tag) in enumerate(case['queries']):
            o, rt = case['impl'][i], case['rt'][i]
            total += 1
            cls = 'none' if o is None else o.split(':')[0] + (':' + o.split(':', 1)[1] if o.startswith('err:') else '')
            key = f'{tag} -> {cls}'
            st[key] = st.get(key, 0) + 1
            if o and o.startswith('ok:'):
                nontriv += 1
                if rt == 'entry-only':
                    weak['runtime has no name for the function (name-table offset 0): entry compared only'] += 1
                elif q[0] in 'fxFM' and '[' in q:
                    weak['generic instance: runtime prints type arguments as [...], name compared modulo them'] += 1
                elif rt == 'unk':
                    weak['data symbol without a Go-level handle in the probe: compared with file value + known bias only'] += 1
                distinct.add((case['binary'], q, o))
                if rt in ('exact+ptr',):
                    st['direct-truth (&v / func pointer) confirmed'] = st.get('direct-truth (&v / func pointer) confirmed', 0) + 1
            why = oracle(case, q, o, rt)
            m = case['model'][i] if case['model'] else None
            if h_replaced(case) and (why or (m is not None and m != o)):
                # (model and code agree with each other here — both read the wrong file; only the oracle objects)
                if why:
                    replaced_hits.append((case, i, why))
                    continue
            if why and why.startswith(NOADDR):
                # genuine defect recorded as a finding (fix drafted: fixes/F27-c10-symkinds.diff): reported once, under its key; the
                # model is the repaired behaviour, so its disagreement on exactly these calls is the same finding
                noaddr_hits.append((case, i, why))
                continue
            if why:
                bad.append((case, i, why))
            if case['model'] is not None and m == o:
                agreed += 1
            elif case['model'] is not None and o and o.startswith('ok:') and m and m.startswith('err:') and not why and not is_readable(case['desc']):
                better += 1        # the property asks for an error only when the table cannot be read; exact answers (judged by the runtime) are fine
            elif case['model'] is not None:
                diffs.append((case, i, o, m))
        if case['model'] is None and exe:
            diffs.append((case, -1, None, 'model rejected the history line (bad-op)'))
    # ---- floors: a lane that silently ran nothing is a machinery failure, not a pass
    lanes = {'plain': 0, 'expose-first': 0, 'conc': 0, 'convars': 0, 'self': 0, 'allfuncs': 0, 'api': 0}
    for h in hist:
        n_obs = sum(1 for o in h['impl'] if o is not None)
        k = ('api' if h.get('api') else 'convars' if '.convars' in h['id'] else 'conc' if h.get('g') else 'self' if h.get('launch') else
             'allfuncs' if h['id'].endswith('.allfuncs') else 'expose-first' if h['id'].endswith('.expose-first') else 'plain')
        lanes[k] += n_obs
    empty = [k for k, v in lanes.items() if v == 0]
    if empty or nontriv < 5000 or not any(r == 'exact+ptr' for h in hist for r in h['rt']):
        raise C.Infra(f'C10 lanes without observations: {empty}; addresses returned: {nontriv}; lanes: {lanes}')
    # ---- classify
    if noaddr_hits:
        case, i, why = noaddr_hits[0]
        q = case['queries'][i][0]
        out.violation(f'[{case["id"]}] {q}: {why} ({len(noaddr_hits)} such calls in this run)', replay_body(case, comp_spec, [q], i, why),
                      key='symtab-entry-without-address')
    if replaced_hits:
        case, i, why = replaced_hits[0]
        q = case['queries'][i][0]
        out.violation(f'[{case["id"]}] {q}: {why} — the file at the executable\'s path was replaced by another program before the first lookup '
                      f'({len(replaced_hits)} such calls)', replay_body(case, comp_spec, [q], i, why), key='executable-replaced-by-other-program')
    seen = set()
    # deterministic histories first, executables exactly as linked first, one line per history
    for case, i, why in sorted(bad, key=lambda b: (bool(b[0].get('g')), b[0]['variant'] != 'as-linked')):
        q = case['queries'][i][0]
        k = case['id']
        if k in seen or len(seen) >= 4:
            continue
        seen.add(k)
        allq = [x for x, _ in case['queries']]
        if case.get('g'):
            rq = allq                                   # a race: the whole history, replay repeats fresh processes
        else:
            # smallest of: the call alone / the AllFunctions calls before it + the call / the whole prefix — that still fails
            rq = allq[:i + 1]
            for cand in ([q], [x for x in allq[:i] if x[0] == 'a'] + [q]):
                t = dict(case)
                t['id'] = case['id'] + '.shrink'
                t['queries'] = [(x, 'replay') for x in cand]
                run_case(t, None)
                if oracle(t, q, t['impl'][-1], t['rt'][-1]):
                    rq = cand
                    break
        out.violation(f'[{case["id"]}] {q}: {why}' + (f' (after {len(rq) - 1} earlier call(s) of the same process: {" ".join(rq[:-1])[:200]})' if len(rq) > 1 and not case.get('g') else ''),
                      replay_body(case, comp_spec, rq, i, why))
    if not bad:
        if diffs:
            case, i, o, m = diffs[0]
            q = case['queries'][i][0] if i >= 0 else '(whole history)'
            out.violation(f'[{case["id"]}] model and implementation disagree on {q}: impl={o} model={m}',
                          dict(replay_body(case, comp_spec, [q] if i >= 0 else [x for x, _ in case['queries']][:50], i, 'correspondence'),
                               kind='correspondence', impl=o, model=m, n_disagreements=len(diffs),
                               broken='Model/Sym.lean no longer behaves like internal/unexports2 on this input (or the file reader disagrees with debug/elf+gosym)'),
                          no_failing_input=True)
        elif not proof['ok']:
            out.violation('proof obligations of Props/C10.lean no longer check and no failing input was found in the search',
                          {'kind': 'proof', 'broken': proof['failed'], 'searched': total, 'output': proof.get('output', '')[-3000:]},
                          no_failing_input=True)
    # ---- evidence
    per_mode = {}
    for case in cases:
        d = case['desc']
        names = case['fnames_raw']
        per_mode[case['id']] = {
            'what': case['mode']['what'], 'text': None if d['text'] is None else hex(d['text']),
            'pclntab_functions': len(names) if isinstance(d['pcln'], list) else d['pcln'], 'pclntab_names_occurring_twice_or_more (first wins; exactness judged per returned entry)':
                len(names) - len(set(names)), 'elf_symbols': None if d['syms'] is None else len(d['syms']),
            'anchor_mem': hex(case['facts']['mf']), 'registered_vars': case['facts']['nvars'], 'registered_funcs': case['facts']['nfuncs']}
    out.coverage = {
        'obligations': proof['obligations'], 'discharged': proof['discharged'], 'checker_cmd': ' ; '.join(proof['cmds']),
        'trusted_base': ['Lean 4.33 kernel', 'axioms: ' + ', '.join(sorted({a for v in proof['axioms'].values() for a in v}) or ['none']),
                         'linker/loader: one bias for all functions and one for all data symbols; pclntab offsets relative to runtime.text (assumed in the theorems as `Loaded`, observed on every symbol below)',
                         'checks/c10elf.py (independent ELF/pclntab reader producing the model input) and the model Model/Sym.lean: compared with the real package on every query',
                         'runtime.CallersFrames / &v as the ground truth of the oracle',
                         'sync.Once (calls are atomic w.r.t. the alignment state): trusted in conc_any_schedule, observed by the concurrent-first-use lane',
                         'not covered: symbols_darwin.go, symbols_windows.go (not executable here)'],
        'theorems': proof['axioms'], 'proof_failures': proof['failed'],
        'evaluations': total, 'distinct_nontrivial': len(distinct), 'traces_validated_against_impl': agreed,
        'rule': 'one evaluation = one call (FindFuncByName / FindVarByName / ExposeFunction / AllFunctions followed by a caller-side edit of the returned set) in a real process of one executable; '
                'non-trivial = the call returned an address; distinct by (executable, call, address). as-linked executables: every pclntab function, every ELF symbol, '
                'cross-kind and near-miss names; patched executables: a random sample of both tables plus the generated symbols (thorough: complete sweep also for one text slide, one data slide and the double slide)',
        'distribution': {'executables': per_mode, 'histories': len(hist), 'observations_by_lane': lanes, 'processes_rerun_once_after_dying': sum(1 for h in hist if h.get('retried')), 'outcomes_by_history': stats, 'oracle_complaints': len(bad),
                         'model_disagreements': len(diffs), 'exact_answers_where_the_model_expects_an_unreadable_table_error': better, 'calls_hitting_known_finding_symtab_entry_without_address': len(noaddr_hits), 'calls_hitting_known_finding_executable_replaced': len(replaced_hits), 'companion': comp_spec, 'addresses_returned': nontriv,
                         'of_which_judged_by_a_weaker_oracle': weak},
        'samples': [{'history': h['id'], 'query': h['queries'][k][0][:120], 'impl': h['impl'][k], 'runtime': h['rt'][k][:120],
                     'model': h['model'][k] if h['model'] else None} for h in hist[:6] for k in (0, len(h['queries']) // 2)],
    }
    out.assumptions = ['loader maps all of text with one bias and all data with one bias', 'linux/amd64 ELF only',
                       'patched executables differ from linked ones only in section headers / .symtab, which nothing but goom reads']
    return out.finish()


def replay_body(case, comp_spec, queries, i, why):
    return {'kind': 'impl-oracle', 'mode': case['mode']['name'], 'variant': case['variant'], 'variant_spec': case['spec'], 'api': bool(case.get('api')), 'g': case.get('g'), 'launch': case.get('launch'), 'open': case['desc'].get('open', True), 'companion': comp_spec, 'queries': queries,
            'observed': case['impl'][i] if i >= 0 else None, 'runtime_says': case['rt'][i] if i >= 0 else None,
            'model': (case['model'][i] if case['model'] and i >= 0 else None), 'why': why,
            'build_args': case['mode']['args'], 'how': 'python3 check.py C10 --replay <this file>   (rebuilds that link mode, re-derives the variant, runs the queries in a fresh process)'}


def replay(body):
    if body.get('kind') == 'proof':
        p = C.prove('C10')
        print(json.dumps(p['failed'], indent=1))
        return 0 if p['ok'] else 1
    rng = C.Rng(body.get('seed', C.seed())).fork('C10')
    exe, _ = C.build_driver()
    if body.get('api'):
        cases = prepare_api('thorough', body.get('seed', C.seed()), only=body['mode'])
    else:
        cases, comp = prepare('thorough', rng, body['companion'], only=(body['mode'], body['variant'], body.get('variant_spec', {})))
    if not cases:
        print('no such mode/variant')
        return 2
    case = cases[0]
    case['queries'] = [(q, 'replay') for q in body['queries']]
    if body.get('g'):
        case['g'] = body['g']
        case['id'] += f'.conc{body["g"]}'
    if body.get('launch'):
        case['launch'] = body['launch']
        case['desc'] = dict(case['desc'], open=body.get('open', True))
        case['id'] += '.self-' + body['launch']['self']
        # the other Go binary argv[0] names (another link mode of the same probe) must exist for the replay too
        la = body['launch']
        other = 'sym' if body['mode'] != 'sym' else 'ext'
        ob = os.path.join(WORK, f'c10-{other}.test')
        if not os.path.exists(ob) and (la['argv0'] == ob or la.get('path_dir')):
            build(next(m for m in link_modes('thorough') if m['name'] == other), os.path.join(WORK, 'zz_gen_test.go'))
        if la.get('path_dir'):
            os.makedirs(la['path_dir'], exist_ok=True)
            link = os.path.join(la['path_dir'], la['argv0'])
            if not os.path.lexists(link):
                os.symlink(ob, link)
    if (body.get('launch') or {}).get('other'):
        exe = None            # goom reads another program's file there; the replay shows the oracle's verdict only
    rc = 0
    for attempt in range(40 if body.get('g') else 1):      # a race: repeat fresh processes until it shows
        run_case(case, exe)
        lines = []
        for i, (q, _) in enumerate(case['queries']):
            why = oracle(case, q, case['impl'][i], case['rt'][i])
            m = case['model'][i] if case['model'] else None
            if why or (m is not None and m != case['impl'][i]):
                rc = 1
            if why or not body.get('g'):
                lines.append(f'[{case["id"]}] {q}\n  impl   : {case["impl"][i]}\n  runtime: {case["rt"][i]}\n  model  : {m}\n  oracle : {why or "ok"}')
        if rc or not body.get('g'):
            print('\n'.join(lines))
            break
    if body.get('g'):
        print(f'{"reproduced" if rc else "not reproduced"} after {attempt + 1} fresh process(es) with {body["g"]} goroutines')
    return rc
