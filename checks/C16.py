"""C16 — the bundled x86-64 decoder is total and exact on compiler-emitted code.

Tie T(table): an in-package probe dumps the compiled `decoder` table and every constant the interpreter switches on;
tools/x86table.py regenerates Gen/X86Table.lean (table + an untrusted per-pc certificate) and the chunk lemmas in which the
Lean kernel re-checks the certificate for all 13 401 table positions.  Tie X: the hand-written interpreter model
(Model/X86Dec.lean, executable as `goomdrv c16.dec`) and goom's real `x86asm.Decode` are run on the same byte strings and
must give the same (err, Len, Op, PCRel, PCRelOff, Opcode — the numeric uint32 that fixBlock tests); a third decoder — the Go toolchain's own newer x86asm copy — is run on
the same strings as an independent reference.  The property oracle (no panic, 1 <= Len <= 15 on success, Len <= len(src),
PC-relative field inside the instruction, width 1/2/4, a PC-relative instruction never has Opcode == 0) is applied to the implementation's answers alone.
"""
import collections
import os
import subprocess
import sys
import time

from vlib import common as C

sys.path.insert(0, os.path.join(C.VERIF, 'tools'))
import x86table  # noqa: E402

META = {
    'property_id': 'C16',
    'technique': 'Lean 4 theorems about an executable transcription of decode1 (mode 64) running the regenerated decoder table, '
                 'with a kernel-checked per-pc certificate for the table program; three-way differential run goom / model / toolchain x86asm',
    'level': 'proof',
    'level_text': 'Proved for every byte string: the model of Decode(src,64) never hits a Go index panic and never exhausts fuel (the table '
                  'program is acyclic with kernel-checked rank certificate), on success 1 <= Len <= min(15,len(src)), every error carries '
                  'Len <= len(src), a non-zero PCRel is 1, 2 or 4 with 0 < PCRelOff and PCRelOff+PCRel <= Len, a successful decode with a PC-relative field has numeric Opcode != 0 (what fixBlock tests), the prefix-only pseudo instruction (err=nil, Op=0) always has Len=1, PCRel=0, Opcode=0, the certified table positions are closed under the program edges, and the consumer scan loops '
                  '(ParseIns / GetFuncSize shape) strictly advance and stay in range.  The table and all constants are regenerated from the '
                  'compiled package on every run; the interpreter is tied to the real decoder by the correspondence stream.',
    'level_note': 'KNOWN FINDING at HEAD: the clause "exact on compiler-emitted code" is false for VEX-encoded instructions whose opcode the table lacks (fallback to the legacy opcode, e.g. c5 fd 74 c1 -> JE rel8) and for SHA256*/ADCX/ADOX; the text walk judges those against an x/arch-independent length rule and reports them as KNOWN-FINDING (family lists in KNOWN_FINDINGS.jsonl). '
                  'Partial where the property itself is a comparison with another program: "same boundary, opcode and PC-relative field as an '
                  'independent reference decoder on every instruction the toolchain emits" is differential evidence (every instruction of the '
                  '.text of several Go binaries, hundreds of thousands, zero tolerance), not a theorem.  Trusted: Lean kernel (axioms propext, '
                  'Classical.choice, Quot.sound), the table dumper/generator tools/x86table.py (its certificate is untrusted: re-checked by the '
                  'kernel), the hand transcription of decode1 for mode 64 (cross-checked on every evaluation), Go slice semantics as modelled '
                  '(every index expression guarded or mapped to `panic`).  Modes 16/32 and gnuCompat are not modelled (goom only calls mode 64).',
}

PREFIXES = [0x66, 0x67, 0xF0, 0xF2, 0xF3, 0x26, 0x2E, 0x36, 0x3E, 0x64, 0x65] + list(range(0x40, 0x50))
LEGACY = {0x66, 0x67, 0xF0, 0xF2, 0xF3, 0x26, 0x2E, 0x36, 0x3E, 0x64, 0x65}


def changed_encoding(hexs):
    """Classification rule for goom-vs-reference differences on SYNTHETIC strings (never applied to instructions of the walked
    binaries).  The toolchain's newer table changed exactly three opcode families relative to goom's copy: 0F FF (UD0 now takes a
    ModRM), 0F B9 (UD1 now takes a ModRM) and D9 E8..EE (x87 constant loads FLD1..FLDZ added).  A difference is benign iff, after a
    VEX prefix at offset 0 (C5 xx / C4 xx xx), legacy prefixes and one REX byte, the opcode bytes belong to one of these families.
    Returns the family name or None."""
    b = bytes.fromhex(hexs) if hexs != '-' else b''
    i = 0
    if len(b) > 1 and b[0] == 0xC5:
        i = 2
    elif len(b) > 2 and b[0] == 0xC4:
        i = 3
    while i < len(b) and b[i] in LEGACY:
        i += 1
    if i < len(b) and 0x40 <= b[i] <= 0x4F:
        i += 1
    r = b[i:]
    if r[:2] == b'\x0f\xff':
        return 'UD0 (0F FF)'
    if r[:2] == b'\x0f\xb9':
        return 'UD1 (0F B9)'
    if len(r) >= 2 and r[0] == 0xD9 and 0xE8 <= r[1] <= 0xEE:
        return 'x87 constant load (D9 E8..EE)'
    return None


def probe_bin():
    b, err = C.overlay_build('c16-dec', 'internal/arch/x86asm',
                             {'zz_verif_c16_test.go': os.path.join(C.HARNESS, 'c16/dec_probe_test.go')}, C.helper_pkgs())
    if b is None:
        raise C.Infra('C16 probe does not build against the current tree:\n' + err[-3000:])
    return b


def elf_list(tier):
    gr = C.goroot()
    cands = ['self', os.path.join(C.BUILD, 'gen'), os.path.join(gr, 'pkg/tool/linux_amd64/vet'), os.path.join(gr, 'bin/gofmt')]
    if tier == 'thorough':
        cands += [os.path.join(gr, 'bin/go'), os.path.join(gr, 'pkg/tool/linux_amd64/compile'), os.path.join(gr, 'pkg/tool/linux_amd64/link'),
                  os.path.join(gr, 'pkg/tool/linux_amd64/asm')]
    return [c for c in cands if c == 'self' or os.path.exists(c)]


def text_walk(binary, tier, vexknown=()):
    """Runs the in-process text walk.  Returns (stats per elf, list of (ilen, window hex), '#differ'/'#oracle' lines)."""
    outp = os.path.join(C.BUILD, 'c16.text')
    rc, log = C.run_probe(binary, 'TestVerifC16Text', '/dev/null', outp, env={'VERIF_ELFS': ':'.join(elf_list(tier)), 'VERIF_VEXKNOWN': ','.join(vexknown)})
    if rc != 0:
        raise C.Infra('C16 text walk failed: ' + log[-2000:])
    stats, wins, notes, opsd = {}, [], [], collections.Counter()
    fams, mwins = collections.Counter(), []
    for line in open(outp):
        line = line.rstrip('\n')
        if line.startswith('#elf '):
            p = line.split()
            if 'error' in p:
                stats[os.path.basename(p[1])] = {'error': ' '.join(p[3:])}
            else:
                stats[os.path.basename(p[1])] = {k: int(v) for k, v in (x.split('=') for x in p[2:])}
        elif line.startswith('#fams '):
            for kv in line.split()[2:]:
                k, v = kv.rsplit('=', 1)
                fams[k] += int(v)
        elif line.startswith('M'):
            n, h = line[1:].split()
            mwins.append((int(n), h))
        elif line.startswith('#ops '):
            for kv in line.split()[2:]:
                k, v = kv.split('=')
                opsd[k] += int(v)
        elif line.startswith('#'):
            notes.append(line)
        elif line:
            n, h = line.split()
            wins.append((int(n), h))
    return stats, wins, notes, opsd, fams, mwins


def mutate(rng, ilen, win):
    """operand-mutated variants of a real instruction (window = instruction + following bytes, 16 bytes)."""
    b = bytearray.fromhex(win)
    k = rng.below(7)
    if k == 0 and ilen > 1:                       # random byte somewhere after the first byte
        b[1 + rng.below(ilen - 1)] = rng.below(256)
    elif k == 1 and ilen > 1:                     # force a ModRM-like byte to mod=00 rm=101 (RIP-relative) or rm=100 (SIB)
        i = 1 + rng.below(ilen - 1)
        b[i] = (b[i] & 0x38) | rng.choice([0x05, 0x04, 0x44, 0x84, 0x45, 0x85, 0xC0, 0xC5])
    elif k == 2:                                  # prepend 1-3 prefixes
        pre = bytes(rng.choice(PREFIXES) for _ in range(1 + rng.below(3)))
        b = bytearray(pre) + b
    elif k == 3:                                  # replace / insert a REX byte
        rex = 0x40 + rng.below(16)
        if 0x40 <= b[0] <= 0x4F:
            b[0] = rex
        else:
            b = bytearray([rex]) + b
    elif k == 4:                                  # random tail
        i = 1 + rng.below(max(1, ilen - 1))
        for j in range(i, len(b)):
            b[j] = rng.below(256)
    elif k == 5:                                  # change opcode byte low bits (register-in-opcode forms, direction/width bits)
        i = 1 if (0x40 <= b[0] <= 0x4F or b[0] in (0x66, 0xF2, 0xF3, 0x0F)) and len(b) > 1 else 0
        b[i] ^= 1 << rng.below(3)
    else:                                         # flip one random bit inside the instruction
        i = rng.below(ilen)
        b[i] ^= 1 << rng.below(8)
    return bytes(b[:16]).hex()


def gen_ops(tier, rng, wins, mwins=(), tins=()):
    """Returns (ops, lane of each op)."""
    ops, lanes = [], []

    def add(h, lane):
        ops.append('c16.dec ' + (h if h else '-'))
        lanes.append(lane)
    # corpus of past failures / hand-picked boundary strings first
    for h in ['', '90', 'f390', '4890', '6690', '4190', 'cc', 'e800000000', 'eb00', '0f8400000000', '488b0500000000', '8b0500000000',
              '67488b0500000000', 'f0f0f0f0f0f0f0f0f0f0f0f0f0f090', '66' * 15, '66' * 14 + '90', 'c5', 'c4', 'c5f8', 'c4e1', 'c5f877', 'c4e17877',
              '0f', '0f38', '0f3a', '48', '4f', 'ea', '9a', 'a1', '48a10000000000000000', 'a00000000000000000', '67a000000000',
              'c7050000000001000000', '803d0000000000', 'ff2500000000', 'ff1500000000', '0fb9', '0fff', 'd9ee', 'f20f38f1c0', '66f20f38f1c0']:
        add(h, 'corpus')
    full = tier == 'thorough'
    # (a) distinct instruction encodings of the walked binaries, with their first-seen 16-byte window
    ntext = len(wins) if full else min(len(wins), 120_000)
    step = max(1, len(wins) // ntext) if wins else 1
    chosen = wins[::step][:ntext] if wins else []
    for n, h in chosen:
        add(h, 'text')
    # instructions of the walked binaries that goom mis-frames (known finding): model == implementation is still required
    for n, h in mwins:
        add(h, 'text-misframed')
        add(h[:2 * n], 'text-misframed')
    # (d) truncations of sampled real instructions: every cut inside the instruction, and the exact instruction alone
    ntr = 30_000 if full else 6_000
    for _ in range(ntr if wins else 0):
        n, h = wins[rng.below(len(wins))]
        for k in range(0, n + 1):
            add(h[:2 * k], 'trunc')
    # (b) operand-mutated real instructions
    nmut = 1_500_000 if full else 150_000
    for _ in range(nmut if wins else 0):
        n, h = wins[rng.below(len(wins))]
        add(mutate(rng, n, h), 'mutated')
    # (e) directed prefix stuffing: real instructions of every length L, padded in front with 14-L .. 17-L redundant legacy /
    #     segment / operand-size prefixes so that the total sits on the architectural 15-byte limit (14, 15, 16, 17 bytes), in
    #     several mixes, with the REX byte kept adjacent to the opcode, and with REX-placement variants (prefixes after the REX,
    #     a second REX in front).  Targets the `len(src) > 15` cap, the 14-slot inst.Prefix array and the "too long" returns.
    bylen = collections.defaultdict(list)
    for n, h in wins:
        bylen[n].append(h[:2 * n])
    SEG = [0x26, 0x2E, 0x36, 0x3E]
    mixes = [lambda k: [SEG[rng.below(4)] for _ in range(k)],                                   # ignored-in-64-bit segment overrides
             lambda k: [0x2E] * k,
             lambda k: [rng.choice([0x26, 0x2E, 0x36, 0x3E, 0x64, 0x65]) for _ in range(k)],    # incl. FS/GS
             lambda k: [rng.choice([0x66, 0x67, 0xF2, 0xF3, 0xF0] + SEG) for _ in range(k)],    # anything legacy
             lambda k: [0x66] * k,
             lambda k: [0x67] * (k // 2) + [SEG[rng.below(4)] for _ in range(k - k // 2)]]
    per_len = 2500 if full else 250
    for L in sorted(bylen):
        pool = bylen[L]
        for _ in range(min(per_len, 4 * len(pool))):
            ins = bytes.fromhex(pool[rng.below(len(pool))])
            for total in (14, 15, 16, 17):
                k = total - L
                if k < 0:
                    continue
                pre = bytes(mixes[rng.below(len(mixes))](k))
                add((pre + ins).hex(), 'stuffed')
                v = rng.below(4)
                if v == 0 and 0x40 <= ins[0] <= 0x4F and k > 0:          # prefixes between REX and opcode (REX then not adjacent)
                    add((ins[:1] + pre + ins[1:]).hex(), 'stuffed-rex')
                elif v == 1 and k > 0:                                    # an extra REX in front of / behind the stuffing
                    rex = bytes([0x40 + rng.below(16)])
                    add((pre[:-1] + rex + ins).hex(), 'stuffed-rex')
                    add((rex + pre[:-1] + ins).hex(), 'stuffed-rex')
                elif v == 2 and k > 0:                                    # stuffing followed by random tail instead of the real one
                    add((pre + ins[:1 + rng.below(L)] + bytes(rng.below(256) for _ in range(4))).hex()[:34], 'stuffed-rex')
    # (f) table-directed: at least one synthesised input per root-to-leaf path of the decoder table program (every opcode form the
    #     table knows, in register / RIP-relative / SIB / disp32 addressing), alone, followed by random bytes, and cut at every length
    for h in tins:
        add(h, 'table')
        b = bytes.fromhex(h)
        add((b + bytes(rng.below(256) for _ in range(16)))[:16].hex(), 'table-padded')
        for k in range(1, len(b)):
            add(h[:2 * k], 'table-trunc')
    # (c) systematic short strings and random strings <= 16 bytes
    for a in range(256):
        add(f'{a:02x}', 'all1')
    for a in range(65536):
        add(f'{a:04x}', 'all2')
    for lead in (['0f'] if not full else ['0f', '48', '66', 'f3', 'f2', 'c5', '41']):
        for a in range(65536):
            add(lead + f'{a:04x}', 'all3:' + lead)
    if full:
        for lead in ('0f38', '0f3a', '480f', '660f', 'f30f', 'f20f', 'c4e1', 'c4e2', 'c4e3', 'c5f8', 'c5f9'):
            for a in range(65536):
                add(lead + f'{a:04x}', 'all4:' + lead)
    nrand = 2_000_000 if full else 150_000
    for _ in range(nrand):
        k = rng.below(6)
        n = 1 + rng.below(16)
        if k == 0:     # prefix-heavy
            np_ = rng.below(16)
            h = bytes(rng.choice(PREFIXES) for _ in range(np_)) + bytes(rng.below(256) for _ in range(max(0, n - np_)))
            h = h[:16]
        elif k == 1:   # escape-led
            lead = rng.choice([b'\x0f', b'\x0f\x38', b'\x0f\x3a', b'\x66\x0f', b'\xf3\x0f', b'\xf2\x0f', b'\x48\x0f', b'\xc5', b'\xc4'])
            h = (lead + bytes(rng.below(256) for _ in range(n)))[:16]
        else:
            h = bytes(rng.below(256) for _ in range(n))
        add(h.hex(), 'random')
    return ops, lanes


PROLOGUE = bytes([0x65, 0x48, 0x8b, 0x0c, 0x25, 0x30, 0x00, 0x00, 0x00, 0x48])   # func_unix.go:11, cross-checked by the c16.fsize stream


def consumer_bin():
    b, err = C.overlay_build('c16-consumers', 'internal/bytecode',
                             {'zz_verif_c16_test.go': os.path.join(C.HARNESS, 'c16/consumer_probe_test.go')}, C.helper_pkgs())
    if b is None:
        raise C.Infra('C16 consumer probe does not build against the current tree:\n' + err[-3000:])
    return b


def gen_consumer_ops(tier, rng, wins):
    """code blocks made of real instructions (with a bias to long ones), optionally ending in a cut or mutated instruction;
    c16.scan runs the ParseIns loop over the block, c16.fsize runs GetFuncSize over block + INT3 padding + prologue."""
    ops = []
    longs = [w for w in wins if w[0] >= 9] or wins
    n = 20000 if tier == 'thorough' else 2500
    for _ in range(n):
        code = b''
        for _ in range(1 + rng.below(10)):
            k, h = (lambda pool: pool[rng.below(len(pool))])(longs if rng.chance(1, 4) else wins)
            code += bytes.fromhex(h[:2 * k])
        t = rng.below(5)
        if t == 0:
            k, h = wins[rng.below(len(wins))]
            code += bytes.fromhex(h[:2 * k])[:max(1, rng.below(k + 1))]
        elif t == 1:
            k, h = wins[rng.below(len(wins))]
            code += bytes.fromhex(mutate(rng, k, h))[:k]
        elif t == 2:
            code += bytes(rng.choice(PREFIXES) for _ in range(1 + rng.below(3)))
        ops.append('c16.scan ' + code.hex())
        img = code + b'\xcc' * (16 + rng.below(17)) + PROLOGUE + bytes(16)
        ops.append('c16.fsize ' + img.hex())
    for k, h in longs[:400]:
        ops.append('c16.scan ' + h[:2 * k] * 2)
    return list(dict.fromkeys(ops))


def run_consumers(tier, rng, wins, out):
    ops = gen_consumer_ops(tier, rng, wins)
    if len(ops) < 1000:
        raise C.Infra('C16 consumer lane is (almost) empty')
    b = consumer_bin()
    ops_path = os.path.join(C.BUILD, 'c16c.ops')
    open(ops_path, 'w').write('\n'.join(ops) + '\n')
    outp = os.path.join(C.BUILD, 'c16c.impl')
    rc, log = C.run_probe(b, 'TestVerifC16Consumers', ops_path, outp)
    if rc != 0:
        rc, log = C.run_probe(b, 'TestVerifC16Consumers', ops_path, outp)      # once more: a crash that reproduces is real
    impl = C.read_indexed(outp, len(ops))
    exe, err = C.build_driver()
    if exe is None:
        raise C.Infra('goomdrv does not build: ' + err[-500:])
    model = run_driver_sharded(exe, ops, 'c16c')
    nbad = 0
    for i, op in enumerate(ops):
        kind, h = op.split()
        o = impl[i]
        why = None
        if o is None:
            why = 'consumer probe died on this input (rc=%d)' % rc
        elif not (o.startswith('pos=') or o.startswith('size=')):
            why = 'consumer loop: ' + o
        elif int(o.split('=')[1]) > len(h) // 2:
            why = 'consumer loop ran past the code: ' + o
        if why and nbad < 2:
            nbad += 1
            out.violation(f'{kind}: {why}', {'kind': 'consumer-oracle', 'ops': [op], 'observed': o, 'model': model[i]})
    diffs = C.diff_streams(ops, impl, model)
    if diffs and not nbad:
        i, op, a, m = diffs[0]
        out.violation(f'model of the consumer loop and the real {"ParseIns loop" if op.startswith("c16.scan") else "GetFuncSize"} disagree',
                      {'kind': 'consumer-correspondence', 'ops': [op], 'impl': a, 'model': m, 'n_disagreements_shown': len(diffs)},
                      no_failing_input=True)
    return {'ops': len(ops), 'scan': sum(1 for o in ops if o.startswith('c16.scan')), 'fsize': sum(1 for o in ops if o.startswith('c16.fsize')),
            'equal_to_model': len(ops) - len(diffs)}


def run_driver_sharded(exe, ops, tag, shards=None):
    """goomdrv does ~25k decodes/s single-threaded; shard the stream."""
    shards = shards or max(1, min(C.NCPU, 12, len(ops) // 20000 + 1))
    per = (len(ops) + shards - 1) // shards
    procs = []
    for k in range(shards):
        part = ops[k * per:(k + 1) * per]
        ip = os.path.join(C.BUILD, f'{tag}.ops.{k}')
        op = os.path.join(C.BUILD, f'{tag}.model.{k}')
        open(ip, 'w').write('\n'.join(part) + '\n')
        procs.append((subprocess.Popen([exe], stdin=open(ip), stdout=open(op, 'w'), stderr=subprocess.PIPE), op, len(part)))
    model = []
    for p, op, n in procs:
        _, err = p.communicate(timeout=3600)
        if p.returncode != 0:
            raise C.Infra('goomdrv failed: ' + err.decode(errors='replace')[-2000:])
        lines = [l.rstrip('\n') for l in open(op)]
        if len(lines) != n:
            raise C.Infra(f'goomdrv answered {len(lines)} lines for {n} ops')
        model += lines
    return model


def parse(obs):
    d = dict(p.split('=', 1) for p in obs.split())
    return d['err'], int(d['len']), d['op'], int(d['pcrel']), int(d['pcreloff'])


def opcode_of(obs):
    d = dict(p.split('=', 1) for p in obs.split())
    return int(d.get('opcode', '0x0'), 16)


def oracle(hexs, obs):
    """The property on the implementation's own answer."""
    if obs is None:
        return 'no observation (probe crashed?)'
    n = 0 if hexs == '-' else len(hexs) // 2
    err, ln, op, pcrel, off = parse(obs)
    if err == 'panic':
        return 'decoder panicked'
    if err == 'other':
        return 'error value outside the documented set'
    if err == 'ok' and not (1 <= ln <= 15):
        return f'success with Len={ln} outside 1..15'
    if ln > n or ln < 0:
        return f'Len={ln} beyond the {n} bytes supplied'
    if pcrel != 0 and pcrel not in (1, 2, 4):
        return f'PCRel={pcrel} is not 1, 2 or 4'
    if pcrel != 0 and (off <= 0 or off + pcrel > ln):
        return f'PC-relative field [{off},{off + pcrel}) not inside the instruction of Len={ln}'
    if pcrel == 0 and off != 0:
        return 'PCRelOff set without PCRel'
    if err == 'ok' and pcrel != 0 and opcode_of(obs) == 0:
        return 'PC-relative instruction reported with Opcode == 0 (fix_addr_amd64.go:63 fixBlock would skip it)'
    if err != 'ok' and opcode_of(obs) != 0:
        return 'error return carries a non-zero Opcode'
    return None


def execute(ops, tag='c16', binary=None):
    binary = binary or probe_bin()
    ops_path = os.path.join(C.BUILD, f'{tag}.ops')
    open(ops_path, 'w').write('\n'.join(ops) + '\n')
    outp = os.path.join(C.BUILD, f'{tag}.impl')
    rc, log = C.run_probe(binary, 'TestVerifC16', ops_path, outp)
    if rc != 0:
        raise C.Infra(f'C16 probe failed rc={rc}:\n{log[-2000:]}')
    impl = C.read_indexed(outp, len(ops))
    ref = C.read_indexed(outp + '.ref', len(ops))
    exe, err = C.build_driver()
    if exe is None:
        return impl, ref, None, err
    return impl, ref, run_driver_sharded(exe, ops, tag), ''


def run(tier):
    out = C.Outcome('C16', tier)
    rng = C.Rng(C.seed()).fork('C16')
    t0 = time.time()
    try:
        tstats, changed, dump = x86table.regen()
        gen_ok, gen_msg = True, ''
    except C.Infra as e:
        tstats, changed, gen_ok, gen_msg = {}, [], False, str(e)
    if gen_ok:
        proof = C.prove('C16', leanchecker=(tier == 'thorough'))
    else:
        proof = {'ok': False, 'failed': [('table-dump', gen_msg)], 'obligations': 0, 'discharged': 0, 'cmds': [], 'axioms': {}}
    t_proof = time.time() - t0
    binary = probe_bin()
    tins, npaths, vexknown = x86table.table_inputs(dump) if gen_ok else ([], 0, [])
    estats, wins, notes, opsd, fams, mwins = text_walk(binary, tier, vexknown)
    # floors: a walk that silently covered nothing is a machinery failure, not a pass
    for name, st in estats.items():
        if 'error' in st:
            raise C.Infra(f'C16 text walk: {name}: {st["error"]}')
        if st.get('funcs', 0) < 1000 or st.get('instrs', 0) < 100_000:
            raise C.Infra(f'C16 text walk: {name}: only {st.get("funcs")} functions / {st.get("instrs")} instructions walked')
        if st.get('unknown_abandoned', 0) * 200 > st['funcs']:
            raise C.Infra(f'C16 text walk: {name}: {st["unknown_abandoned"]} functions abandoned (neither the reference nor the length rule applies)')
    if len(estats) < 3 or len(wins) < 50_000 or sum(st.get('rule_validated', 0) for st in estats.values()) < 200:
        raise C.Infra(f'C16 text walk too small: {len(estats)} ELF files, {len(wins)} distinct instructions')
    ops, lanes = gen_ops(tier, rng, wins, mwins, tins)
    for need in ('text', 'trunc', 'mutated', 'stuffed', 'table', 'table-trunc', 'random', 'all2'):
        if lanes.count(need) == 0:
            raise C.Infra(f'C16 generator lane `{need}` is empty')
    seen, o2, l2 = set(), [], []
    for o, l in zip(ops, lanes):
        if o not in seen:
            seen.add(o)
            o2.append(o)
            l2.append(l)
    ops, lanes = o2, l2
    impl, ref, model, derr = execute(ops, binary=binary)

    # table coverage of the whole stream, measured by goom's own decoderCover hook
    cov_stats = {}
    covp = os.path.join(C.BUILD, 'c16.impl.cover')
    if gen_ok and os.path.exists(covp):
        covered = {int(x) for x in open(covp) if x.strip()}
        cert, _ = x86table.analyse(dump)
        reach = set(cert) - {0}
        un = sorted(reach - covered)
        cov_stats = {'table_positions_reachable_mode64 (static over-approximation)': len(reach), 'executed_by_this_stream': len(reach & covered),
                     'never_executed': len(un), 'never_executed_pcs': un[:80], 'table_paths_enumerated': npaths, 'vex_opcodes_with_a_table_entry': len(vexknown), 'table_inputs': len(tins)}
        if len(un) * 100 > len(reach):
            raise C.Infra(f'C16 stream executed only {len(reach & covered)} of {len(reach)} reachable table positions (floor 99%)')
    # 1. the property on the implementation (ops stream + the in-process walk over every instruction of the binaries)
    bad = []
    for i, op in enumerate(ops):
        why = oracle(op.split()[1], impl[i])
        if why:
            bad.append((i, op, why))
    for i, op, why in bad[:3]:
        out.violation(f'{op}: {why}', {'kind': 'impl-oracle', 'ops': [op], 'observed': impl[i], 'reference': ref[i], 'why': why,
                                       'how': 'python3 check.py C16 --replay <this file>'})
    for line in [n for n in notes if n.startswith('#oracle')][:2]:
        h = line.split()[1]
        out.violation('text walk: ' + line[8:], {'kind': 'impl-oracle', 'ops': ['c16.dec ' + h], 'why': line})
    # 2. agreement with the independent reference
    #    rule: on every instruction of the walked binaries and on every `text`/`trunc`-of-full-instruction op: zero tolerance.
    #    on synthetic strings (mutated / truncated / random / systematic) a difference is *classified*, not ignored: benign iff the
    #    input belongs to one of the three opcode families the newer reference table changed (changed_encoding); everything else is reported.
    text_differ = sum(s.get('differ', 0) for s in estats.values())
    for line in [n for n in notes if n.startswith('#differ')][:2]:
        h = line.split()[1]
        out.violation('goom and the reference decoder disagree on an instruction the toolchain emitted: ' + line[8:300],
                      {'kind': 'reference-disagreement', 'ops': ['c16.dec ' + h], 'why': line})
    # 2b. instructions of the walked binaries whose true boundary (independent length rule; the reference is blind or wrong there)
    #     goom does not report.  Known finding for exactly the opcode families listed in KNOWN_FINDINGS.jsonl that goom's table lacks;
    #     a new family, or an opcode the table has but frames wrongly, is a violation.
    kf_fams = {}
    for kf in C.known_findings('C16'):
        for f in kf.get('match', {}).get('families', []):
            kf_fams[f] = kf['match']['key']
    mis_lines = {}
    for line in notes:
        if line.startswith('#misframed '):
            mis_lines.setdefault(line.split()[1], line)
    for k in sorted(fams):
        cls, fam = k.split(':', 1)
        line = mis_lines.get(k, '')
        h = line.split()[2] if line else ''
        key = kf_fams.get(fam) if cls == 'unknown-to-table' else None
        out.violation(f'goom mis-frames a toolchain-emitted instruction ({k}, {fams[k]} occurrences): ' + line[11:330],
                      {'kind': 'text-misframed', 'ops': ['c16.dec ' + h] if h else [], 'family': k, 'why': line}, key=key)
    for tag, kind in (('#strpanic', 'impl-oracle'), ('#strdiffer', 'reference-disagreement'), ('#rulediff', 'reference-disagreement')):
        for line in [n for n in notes if n.startswith(tag)][:2]:
            h = line.split()[1]
            out.violation({'#strpanic': 'Inst.String() panicked on a toolchain-emitted instruction: ',
                           '#strdiffer': 'Inst.String() of goom and of the reference differ on a toolchain-emitted instruction: ',
                           '#rulediff': 'the independent length rule and the reference disagree on the boundary of a toolchain-emitted instruction: '}[tag]
                          + line[len(tag) + 1:300], {'kind': kind, 'ops': ['c16.dec ' + h], 'why': line})
    aux = C.read_indexed(os.path.join(C.BUILD, 'c16.impl.aux'), len(ops))
    refdiff = collections.Counter()
    unexplained = []
    for i, op in enumerate(ops):
        if impl[i] != ref[i] and impl[i] is not None and ref[i] is not None:
            if lanes[i] == 'text-misframed':
                refdiff['known mis-framed toolchain instruction (reference blind or wrong too)'] += 1
                continue
            fam = None if lanes[i] == 'text' else changed_encoding(op.split()[1])
            if fam is None and lanes[i] != 'text' and aux[i] and aux[i].startswith('rule '):
                # the reference is blind (error / prefix-only) and goom's boundary is confirmed by the independent length rule:
                # goom knows an opcode the reference lacks — not a defect of goom
                g, r = parse(impl[i]), parse(ref[i])
                if (r[0] != 'ok' or r[2] == 'Op(0)') and g[0] == 'ok' and g[2] != 'Op(0)' and g[1] == int(aux[i].split()[1]):
                    fam = 'goom knows more than the reference (boundary confirmed by the independent length rule)'
            if fam is None:
                unexplained.append(i)
            else:
                refdiff['newer-table family: ' + fam] += 1
    strdiff = [i for i in range(len(ops)) if aux[i] and aux[i].startswith('str ') and changed_encoding(ops[i].split()[1]) is None]
    if not bad:
        for i in strdiff[:2]:
            out.violation(f'Inst.String() of goom and of the reference differ on `{ops[i]}` although (err, Len, Op, PCRel, PCRelOff, Opcode) agree: '
                          + aux[i][4:200], {'kind': 'reference-disagreement', 'ops': [ops[i]], 'impl': impl[i], 'reference': ref[i], 'text': aux[i]})
    if not bad:
        for i in unexplained[:2]:
            out.violation(f'goom and the reference decoder disagree on `{ops[i]}` ({lanes[i]} lane) outside the stated classes',
                          {'kind': 'reference-disagreement', 'ops': [ops[i]], 'impl': impl[i], 'reference': ref[i]})
    # 3. correspondence model <-> implementation
    diffs = C.diff_streams(ops, impl, model) if model is not None else []
    if model is None:
        proof['failed'].append(('goomdrv', 'driver does not build: ' + derr[-500:]))
        proof['ok'] = False
    if not bad:
        if diffs:
            i, op, a, b = diffs[0]
            out.violation(f'model and implementation disagree on `{op}`', {'kind': 'correspondence', 'ops': [op], 'impl': a, 'model': b,
                          'reference': ref[i], 'broken': 'correspondence Model/X86Dec.lean (table regenerated) vs x86asm.Decode',
                          'n_disagreements_shown': len(diffs)}, no_failing_input=True)
        elif not proof['ok']:
            out.violation('proof obligations of Props/C16.lean no longer check and no failing input was found in the search',
                          {'kind': 'proof', 'broken': proof['failed'], 'searched': len(ops), 'output': proof.get('output', '')[-3000:]},
                          no_failing_input=True)
    cstats = run_consumers(tier, rng, wins, out)
    # evidence
    errs, lens_, pcw, opnames, lanec = collections.Counter(), collections.Counter(), collections.Counter(), set(), collections.Counter(lanes)
    nontrivial = 0
    for i, op in enumerate(ops):
        if impl[i] is None:
            continue
        e, ln, o, w, _ = parse(impl[i])
        errs[e] += 1
        if e == 'ok' and o != 'Op(0)':
            nontrivial += 1
            lens_[ln] += 1
            pcw[w] += 1
            opnames.add(o)
        elif e == 'ok':
            errs['ok(prefix-only Len=1)'] += 1
    pick = [0, 5, len(ops) // 4, len(ops) // 2, len(ops) - 1]
    out.coverage = {
        'obligations': proof['obligations'], 'discharged': proof['discharged'],
        'checker_cmd': ' ; '.join(proof['cmds']),
        'trusted_base': ['Lean 4.33 kernel', 'axioms: ' + ', '.join(sorted({a for v in proof['axioms'].values() for a in v}) or ['none']),
                         'tools/x86table.py + generated in-package dumper (table/constants as compiled; the per-pc certificate it computes is '
                         're-checked by the kernel in Gen/X86TableOK*.lean, 53 chunks of 256 pcs)',
                         'hand transcription Model/X86Dec.lean of decode1 for mode 64 (cross-checked on every evaluation below)',
                         'toolchain x86asm (cmd/vendor/golang.org/x/arch) as independent reference: differential evidence only'],
        'theorems': proof['axioms'], 'proof_failures': proof['failed'],
        'evaluations': len(ops) + sum(s.get('instrs', 0) for s in estats.values()),
        'distinct_nontrivial': nontrivial,
        'traces_validated_against_impl': len(ops) - len(diffs) if model is not None else 0,
        'rule': 'observation = (err, Len, Op, PCRel, PCRelOff, Opcode uint32). one evaluation = one byte string decoded by goom (oracle applied) — ops stream: also by the Lean model (must be equal) and by '
                'the reference (differences classified); text walk: every instruction of the listed ELF .text, goom vs reference in-process, '
                'zero tolerance.  non-trivial = distinct byte string on which goom returns a real opcode (err=ok, Op != 0).',
        'distribution': {'lanes': dict(lanec), 'impl_result_classes': dict(errs), 'len_histogram': {str(k): v for k, v in sorted(lens_.items())},
                         'pcrel_width_histogram': {str(k): v for k, v in sorted(pcw.items())}, 'distinct_opcodes_in_stream': len(opnames),
                         'text_walk': estats, 'text_walk_misframed_families': dict(fams), 'text_walk_distinct_opcodes': len(opsd), 'text_walk_instructions_differing_from_reference': text_differ,
                         'reference_differences_on_synthetic_strings_by_class': dict(refdiff), 'reference_differences_unexplained': len(unexplained), 'rendered_text_differences (Inst.String, equal tuples)': len(strdiff),
                         'table': tstats, 'table_coverage': cov_stats, 'consumer_loops (ParseIns scan, GetFuncSize) real vs model': cstats, 'gen_modules_changed_this_run': changed, 'proof_wall_s': round(t_proof, 1)},
        'explanation': 'Agreement with the reference decoder on toolchain-emitted instructions is measured (differential), not proved.',
        'samples': [{'op': ops[i], 'impl': impl[i], 'model': model[i] if model else None, 'ref': ref[i]} for i in pick if i < len(ops)],
    }
    out.assumptions = ['mode 64 only (the only mode goom passes)', 'Go slice/array indexing semantics as modelled']
    return out.finish()


def replay(body):
    ops = body.get('ops', [])
    if ops and ops[0].split()[0] in ('c16.scan', 'c16.fsize'):
        b = consumer_bin()
        ops_path = os.path.join(C.BUILD, 'c16c-replay.ops')
        open(ops_path, 'w').write('\n'.join(ops) + '\n')
        outp = os.path.join(C.BUILD, 'c16c-replay.impl')
        C.run_probe(b, 'TestVerifC16Consumers', ops_path, outp)
        impl = C.read_indexed(outp, len(ops))
        exe, _ = C.build_driver()
        model = run_driver_sharded(exe, ops, 'c16c-replay', shards=1)
        rc = 0
        for i, op in enumerate(ops):
            print(f'{op}\n  impl : {impl[i]}\n  model: {model[i]}')
            if impl[i] != model[i]:
                rc = 1
        return rc
    impl, ref, model, _ = execute(ops, tag='c16-replay')
    rc = 0
    for i, op in enumerate(ops):
        why = oracle(op.split()[1], impl[i])
        print(f'{op}\n  impl : {impl[i]}\n  model: {model[i] if model else None}\n  ref  : {ref[i]}\n  oracle: {why or "ok"}')
        if why or (model and impl[i] != model[i]) or (body.get('kind') == 'reference-disagreement' and impl[i] != ref[i]):
            rc = 1
        if body.get('kind') == 'text-misframed':
            rc = 1 if impl[i] == body.get('observed_at_report', impl[i]) else rc
    return rc


def regen_setup():
    s, ch, _ = x86table.regen()
    return s, ch
