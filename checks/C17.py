"""C17 — the arm64 decoder is total and agrees with the reference on all 2^32 words.

PROVED (Lean, over the table regenerated from the compiled `instFormats` on every run, for EVERY behaviour of the
~290 argument decoders / 107 canDecode predicates the model does not interpret): every word of the classes B, BL, B.cond,
CBZ, CBNZ, TBZ, TBNZ, ADR, ADRP, LDR/LDRSW (literal) decodes to that opcode with the Arm ARM displacement; no decode
yields Op 0 and the zero word is undecodable (what GetFuncSize's stop conditions rest on); the target arithmetic of
GetInnerFunc; the extent returned by GetFuncSize.
EXECUTED, not proved (labelled a test): totality of Decode + Inst.String() and agreement with the toolchain's decoder on
decodability / opcode / every PCRel argument — all 2^32 words in the thorough tier, strided in the quick tier.
"""
import json
import os
import time

from vlib import common as C
from tools import a64table

META = {
    'property_id': 'C17',
    'technique': 'Lean 4 theorems about a first-match model over the decoding table regenerated from the compiled arm64asm.instFormats '
                 '(branch/address classes, for all words of each class and all behaviours of the uninterpreted argument decoders) '
                 '+ trace validation of the real decoder against the model + exhaustive differential execution against the toolchain decoder',
    'level': 'proof',
    'level_text': 'Partial proof. Proved for all words and all oracles: B, BL, B.cond, CBZ, CBNZ, TBZ, TBNZ, ADR, ADRP, LDR/LDRSW(literal) '
                  'words decode to that opcode with displacement SignExtend(imm:00) / SignExtend(immhi:immlo[:Zeros(12)]) (no earlier table '
                  'row can take them: kernel decide over the regenerated table); a successful decode never has Op 0 and word 0 is undecodable; '
                  'GetInnerFunc returns start+offset+displacement of the first qualifying B/BL; GetFuncSize returns the offset of the first '
                  'undecodable word or prologue. NOT proved, only executed: that Decode and Inst.String() never panic on the other words and '
                  'that decodability/opcode/PCRel agree with the reference there (2^32-word sweep in the thorough tier, exhaustive: true there; '
                  'strided in quick).',
    'level_note': 'Trusted: Lean kernel (propext, Classical.choice, Quot.sound), the table dumper (in-package probe printing the compiled table) '
                  'and tools/a64table.py, the hand transcription of 22 argument decoders in Model/A64Dec.lean (validated on every run: the real '
                  'decoder\'s chosen row/op/args must be reproduced by the model under the oracle that lets exactly that row through), the '
                  'reference decoder (toolchain copy of x/arch arm64asm). Allowed difference: words with w&0xfff8f000 in {0xd5087000,0xd5088000} '
                  '(AT/DC/IC/TLBI aliases of SYS, deliberately undecoded by goom). Nothing downstream can run: amd64 sandbox; func_arm64.go is '
                  're-hosted as source on amd64.',
}

M32 = 0xffffffff
PRO = [0xf9400b81, 0x910003e2, 0xeb01005f]
ALLOWED = [(0xfff8f000, 0xd5087000), (0xfff8f000, 0xd5088000)]
CALL = {'B': (0xfc000000, 0x14000000), 'BL': (0xfc000000, 0x94000000)}
# opcode and displacement per Arm ARM class: name -> (mask, value, op, field extractor)
FIXED = [0x00000000, 0xffffffff, 0xd503201f, 0xd65f03c0, 0x14000000, 0x17ffffff, 0x15ffffff, 0x16000000, 0x94000001, 0x97ffffff,
         0x54000000, 0x54ffffe0, 0x5400000f, 0x54000010, 0x34000000, 0xb5ffffff, 0x36000000, 0xb7ffffff, 0x3607ffe0, 0x10000000,
         0x70ffffff, 0x90000000, 0xf0ffffff, 0x9000001f, 0x18000000, 0x58ffffe1, 0x98000000, 0xd8000000, 0x1c000000,
         0xd50b7420, 0xd5087620, 0xd508871f, 0xd5080000, 0xd50fffff, 0xd5087800, 0xd5033fdf, 0x8b2063ff, 0x0a00040e]


def sext(v, bits):
    return v - (1 << bits) if v & (1 << (bits - 1)) else v


_i26 = lambda w: sext(w & 0x3ffffff, 26) * 4
_i19 = lambda w: sext((w >> 5) & 0x7ffff, 19) * 4
_i14 = lambda w: sext((w >> 5) & 0x3fff, 14) * 4
_adr = lambda w: sext((((w >> 5) & 0x7ffff) << 2) | ((w >> 29) & 3), 21)
# Arm ARM (DDI 0487 C6.2): class mask/value, mnemonic, position of the label operand, displacement
ARMARM = [('B', 0xfc000000, 0x14000000, 0, _i26), ('BL', 0xfc000000, 0x94000000, 0, _i26), ('B', 0xff000010, 0x54000000, 1, _i19),
          ('CBZ', 0x7f000000, 0x34000000, 1, _i19), ('CBNZ', 0x7f000000, 0x35000000, 1, _i19),
          ('TBZ', 0x7f000000, 0x36000000, 2, _i14), ('TBNZ', 0x7f000000, 0x37000000, 2, _i14),
          ('ADR', 0x9f000000, 0x10000000, 1, _adr), ('ADRP', 0x9f000000, 0x90000000, 1, lambda w: _adr(w) << 12),
          ('LDR', 0xbf000000, 0x18000000, 1, _i19), ('LDRSW', 0xff000000, 0x98000000, 1, _i19)]


def allowed(w):
    return any(w & m == v for m, v in ALLOWED)


def deposit(free_bits, val):
    w = 0
    for i, b in enumerate(free_bits):
        if (val >> i) & 1:
            w |= 1 << b
    return w


def patterns(n):
    """boundary patterns over an n-bit free field"""
    full = (1 << n) - 1
    ps = {0, full}
    for i in range(n):
        ps.add(1 << i)
        ps.add(full ^ (1 << i))
        ps.add((1 << i) - 1)
        ps.add(full ^ ((1 << i) - 1))
    return sorted(ps)


def gen_words(tier, rng, rows):
    """-> ordered dict word -> lane"""
    words = {}

    def add(w, lane):
        w &= M32
        if w not in words:
            words[w] = lane
    for w in FIXED:
        add(w, 'corpus')
    nrand = 2500 if tier == 'quick' else 40000
    for name, m, v in a64table.CLASSES:
        free = [b for b in range(32) if not (m >> b) & 1]
        for p in patterns(len(free)):
            add(v | deposit(free, p), 'class:' + name)
        for _ in range(nrand):
            add(v | deposit(free, rng.next()), 'class:' + name)
    per = 25 if tier == 'quick' else 300
    for r in rows:
        free = [b for b in range(32) if not (r['mask'] >> b) & 1]
        n = len(free)
        for p in (0, (1 << n) - 1):
            add(r['value'] | deposit(free, p), 'row')
        for _ in range(per):
            add(r['value'] | deposit(free, rng.next()), 'row')
    for m, v in ALLOWED:
        free = [b for b in range(32) if not (m >> b) & 1]
        for _ in range(300 if tier == 'quick' else 5000):
            add(v | deposit(free, rng.next()), 'sys-alias')
    ns = 30000 if tier == 'quick' else 400000
    stride = (1 << 32) // ns
    ph = rng.below(stride)
    for k in range(ns):
        add(ph + k * stride, 'strided')
    for _ in range(20000 if tier == 'quick' else 300000):
        add(rng.next() & M32, 'random')
    return words


def regen_args():
    """Re-translate decodeArg / the canDecode predicates (tools/a64args) into Gen/A64Args.lean. -> (changed, summary dict)"""
    exe = os.path.join(C.BUILD, 'a64args')
    rc, o, e = C.sh(['go', 'build', '-o', exe, '.'], cwd=os.path.join(C.VERIF, 'tools', 'a64args'), env=C.goenv())
    if rc != 0:
        raise C.Infra('building tools/a64args failed:\n' + e)
    tmp = os.path.join(C.BUILD, 'A64Args.lean')
    rc, o, e = C.sh([exe, '-repo', C.REPO, '-out', tmp])
    if rc != 0 or not os.path.exists(tmp):
        raise C.Infra('tools/a64args rejects internal/arch/arm64asm (decodeArg is no longer one switch over its first parameter, or the '
                      'package does not type-check):\n' + (o + e)[-2000:])
    dst = os.path.join(C.GEN_DIR, 'A64Args.lean')
    new = open(tmp).read()
    changed = not os.path.exists(dst) or open(dst).read() != new
    if changed:
        open(dst, 'w').write(new)
    head = o.splitlines()[0] if o else ''
    summ = {k: int(v) for k, v in (p.split('=') for p in head.split() if '=' in p)}
    summ['untranslated'] = [l[len('UNTRANSLATED '):] for l in o.splitlines() if l.startswith('UNTRANSLATED ')]
    return changed, summ


def build_probes():
    helpers = C.helper_pkgs()
    b1, err = C.overlay_build('c17-dec', 'internal/arch/arm64asm',
                              {'zz_verif_c17_test.go': os.path.join(C.HARNESS, 'c17', 'dec_probe_test.go')}, helpers, gcflags=None)
    if b1 is None:
        raise C.Infra('decoder probe does not build against the current tree:\n' + err[-3000:])
    pkg = 'internal/zzverif/a64func'
    extra = dict(helpers)
    extra[pkg] = {'zz_verif_c17_test.go': os.path.join(C.HARNESS, 'c17', 'func_probe_test.go'),
                  'func_a64.go': os.path.join(C.REPO, 'internal/bytecode/func_arm64.go'),
                  'func.go': os.path.join(C.REPO, 'internal/bytecode/func.go')}
    b2, err = C.overlay_build('c17-func', pkg, {}, extra)
    if b2 is None:
        raise C.Infra('re-hosted func_arm64.go probe does not build against the current tree:\n' + err[-3000:])
    return b1, b2


def run_lines(binary, test, ops, tag):
    p = os.path.join(C.BUILD, tag + '.ops')
    open(p, 'w').write('\n'.join(ops) + '\n')
    outp = os.path.join(C.BUILD, tag + '.impl')
    rc, log = C.run_probe(binary, test, p, outp)
    if rc != 0:
        raise C.Infra(f'probe {test} failed rc={rc}:\n{log[-2000:]}')
    return C.read_indexed(outp, len(ops))


def run_model(ops, tag):
    exe, err = C.build_driver()
    if exe is None:
        return None, err
    p = os.path.join(C.BUILD, tag + '.mops')
    open(p, 'w').write('\n'.join(ops) + '\n')
    return C.run_driver(exe, p, os.path.join(C.BUILD, tag + '.model')), ''


def split_obs(obs):
    """impl line -> (goom part, ref dict, goom pcrel, gstr, rstr)"""
    parts = (obs or '').split(' ## ')
    if len(parts) < 5:
        return None
    g, r = parts[0], parts[1]
    rt = r.split()
    ref = {'state': rt[0].split(':', 1)[1] if rt else '?'}
    for t in rt[1:]:
        if '=' in t:
            k, v = t.split('=', 1)
            ref[k] = v
    return g, ref, parts[2].split('=', 1)[1], parts[3].split('=', 1)[1], parts[4].split('=', 1)[1]


def gfields(g):
    d = {}
    for t in g.split():
        if '=' in t:
            k, v = t.split('=', 1)
            d[k] = v
    return d


def oracle_word(w, obs):
    """The property on what the implementation did with word w (independent of the model)."""
    so = split_obs(obs)
    if so is None:
        return 'no observation (probe crashed?)'
    g, ref, gp, gstr, rstr = so
    if g.startswith('panic:'):
        return f'decoder or Inst.String() panicked: {g}'
    if not (g.startswith('row=') or g.startswith('err:')):
        return f'unexpected observation {g}'
    if allowed(w) or ref['state'] == 'panic':
        return None
    g_ok, r_ok = g.startswith('row='), ref['state'] == 'ok'
    if g_ok != r_ok:
        return f'decodability differs: goom {"decodes" if g_ok else "rejects"}, reference {"decodes" if r_ok else "rejects"} ({rstr or "-"})'
    if g_ok:
        gf = gfields(g)
        if gf.get('op') != ref.get('op'):
            return f'opcode differs: goom {gf.get("op")}, reference {ref.get("op")}'
        if gp != ref.get('pcrel'):
            return f'PC-relative displacement differs: goom {gp}, reference {ref.get("pcrel")}'
        # Arm ARM formulas for the branch/address classes, independent of both decoders
        for name, m, v, pos, f in ARMARM:
            if w & m == v and (gf.get('op') != name or gp != f'{pos}:{f(w)}'):
                return f'{name} word decoded as {gf.get("op")} pcrel {gp}, the Arm ARM says {name} with displacement {f(w)}'
    return None


def canon_pair(g, m):
    """mask the argument positions the model does not interpret"""
    if g.startswith('row=') and m and m.startswith('row='):
        gf, mf = gfields(g), gfields(m)
        ga, ma = gf.get('args', '-').split(','), mf.get('args', '-').split(',')
        if len(ga) == len(ma):
            ga = ['?' if y == '?' else x for x, y in zip(ga, ma)]
            g = f'row={gf.get("row")} op={gf.get("op")} args={",".join(ga)}' + (' !' + g.split(' !', 1)[1] if ' !' in g else '')
    return g


# ------------------------------------------------------------------ scans

def spec_inner(ws, ref_ok):
    c = 0
    mem = lambda o: ws[o // 4] if o // 4 < len(ws) else 0
    while True:
        w = mem(c)
        if not ref_ok(w):
            return 'err'
        for m, v in CALL.values():
            if w & m == v:
                d = sext(w & 0x3ffffff, 26) * 4
                if d >= 0 or c + d < 0:
                    return f'target={c + d}'
        c += 4
        if [mem(c), mem(c + 4), mem(c + 8)] == PRO:
            return 'zero'
        if c > 4096:
            return 'zero'


def spec_size(ws, ref_ok):
    c = 0
    mem = lambda o: ws[o // 4] if o // 4 < len(ws) else 0
    while True:
        if not ref_ok(mem(c)):
            return f'size={c}'
        c += 4
        if [mem(c), mem(c + 4), mem(c + 8)] == PRO:
            return f'size={c}'


def gen_scans(tier, rng, plain, bad):
    """plain: env-independent decodable non-call words; bad: env-independent undecodable words"""
    ops = []
    n = 3000 if tier == 'quick' else 40000

    def call(c):
        base = rng.choice([0x14000000, 0x94000000])
        mode = rng.below(7)
        if mode == 0:
            d = rng.below(64)                       # forward
        elif mode == 1:
            d = -rng.below(c // 4 + 1)              # backward, stays inside [start, …): skipped unless 0
        elif mode == 2:
            d = -(c // 4) - 1 - rng.below(8)        # backward, before start
        elif mode == 3:
            d = -(c // 4)                           # exactly start: curLen+rAddr = 0, not < 0
        elif mode == 4:
            d = rng.choice([(1 << 25) - 1, -(1 << 25), 0, 1, -1])
        elif mode == 5:
            d = sext(rng.next() & 0x3ffffff, 26)
        else:
            d = -(c // 4) - 1
        return base | (d & 0x3ffffff)
    for _ in range(n):
        ln = 1 + rng.below(14)
        ws = []
        for i in range(ln):
            k = rng.below(10)
            if k < 6:
                ws.append(rng.choice(plain))
            elif k < 9:
                ws.append(call(4 * i))
            else:
                ws.append(rng.choice(bad))
        if rng.chance(1, 4) and ws:
            ws += PRO
            if rng.chance(1, 3):
                ws += [rng.choice(plain), call(4 * len(ws))]
        hx = ' '.join(f'{w:#010x}' for w in ws)
        if rng.chance(2, 3):
            ops.append('c17.inner ' + hx)
        else:
            ops.append(f'c17.size {rng.below(2)} ' + hx)
    nop = '0xd503201f'
    ops.append('c17.inner ' + ' '.join([nop] * 1030))                      # the curLen > 4096 bound
    ops.append('c17.inner ' + ' '.join([nop] * 1024 + ['0x94000010']))     # call at offset 4096: still seen
    ops.append('c17.inner ' + ' '.join([nop] * 1025 + ['0x94000010']))     # call at offset 4100: not reached
    ops.append('c17.size 0 ' + ' '.join([nop] * 1100))
    ops.append('c17.inner ' + ' '.join(f'{w:#010x}' for w in PRO))         # prologue at offset 0 is decoded, not recognised
    return list(dict.fromkeys(ops))


def scan_words(op):
    t = op.split()
    return [int(x, 16) for x in (t[1:] if t[0] == 'c17.inner' else t[2:])]


# ------------------------------------------------------------------ sweep

def sweep_segments(tier, rng):
    if tier == 'thorough':
        order = list(range(16))
        for i in range(15, 0, -1):                     # seeded order of the 16 residue classes: a run cut short by the
            j = rng.below(i + 1)                       # time budget still covers the space uniformly
            order[i], order[j] = order[j], order[i]
        return [(ph, 1 << 32, 16) for ph in order], 'all 2^32 words as 16 interleaved passes (stride 16, every phase)'
    st = 211
    segs = [(rng.below(st), 1 << 32, st)]
    cst = 13
    for lo, hi in [(0x14000000, 0x18000000), (0x94000000, 0x98000000), (0x54000000, 0x55000000), (0x34000000, 0x38000000),
                   (0xb4000000, 0xb8000000)] + [(b << 24, (b + 1) << 24) for b in (0x10, 0x30, 0x50, 0x70, 0x90, 0xb0, 0xd0, 0xf0)] + \
                  [(0x18000000, 0x19000000), (0x58000000, 0x59000000), (0x98000000, 0x99000000), (0xd5080000, 0xd5090000)]:
        segs.append((lo + rng.below(cst), hi, cst if hi - lo > (1 << 16) else 1))
    return segs, f'whole space at stride {st} (seeded phase) + every branch/address class range at stride {cst} + the SYS space at stride 1'


def run_sweep(binary, segs, strcmp, budget_s, workers=None):
    outp = os.path.join(C.BUILD, 'c17.sweep.json')
    if os.path.exists(outp):
        os.remove(outp)
    env = {'VERIF_C17_SEGS': ','.join(f'{lo:#x}:{hi:#x}:{st}' for lo, hi, st in segs), 'VERIF_C17_STRCMP': '1' if strcmp else '0',
           'VERIF_C17_BUDGET_S': str(budget_s)}
    if workers:
        env['VERIF_C17_WORKERS'] = str(workers)
    t0 = time.time()
    rc, log = C.run_probe(binary, 'TestVerifC17Sweep', '/dev/null', outp, env=env, timeout=budget_s + 900)
    if rc != 0 or not os.path.exists(outp):
        raise C.Infra(f'sweep probe failed rc={rc}:\n{log[-2000:]}')
    res = json.load(open(outp))
    res['wall_s'] = round(time.time() - t0, 1)
    return res


# ------------------------------------------------------------------ main

def execute_words(bins, words, tag):
    """line mode: real decoder, then the model under the claimed-row oracle. -> ops, impl, model"""
    ops = [f'c17.dec {w:#010x}' for w in words]
    impl = run_lines(bins[0], 'TestVerifC17', ops, tag)
    mops = []
    for op, obs in zip(ops, impl):
        g = (obs or '').split(' ## ')[0]
        claim = gfields(g).get('row', '-') if g.startswith('row=') else '-'
        mops.append(f'{op} {claim}')
    model, derr = run_model(mops, tag)
    return ops, mops, impl, model, derr


def run(tier):
    out = C.Outcome('C17', tier)
    rng = C.Rng(C.seed()).fork('C17')
    dump_err = None
    try:
        changed, nrows, info = a64table.regen()
    except C.Infra as e:
        # the dumper no longer builds/runs against the tree (a table field or an interpreted argument kind disappeared): a broken
        # obligation, not an infrastructure problem; keep going on the last dumped table so that a failing input can still be found
        dump_err = str(e)
        old = os.path.join(C.BUILD, 'c17.tabledump')
        rows_, kinds_, ops_, rb_ = a64table.parse(open(old).read()) if os.path.exists(old) else ([], {}, {}, {})
        changed, nrows, info = False, len(rows_), {'rows': rows_}
    args_err, args_changed, args_summ = None, False, {}
    try:
        args_changed, args_summ = regen_args()
    except C.Infra as e:
        args_err = str(e)      # the translator rejects the source: a broken obligation (the stale Gen/A64Args.lean stays in place)
    proof = C.prove('C17', leanchecker=(tier == 'thorough'))
    if dump_err:
        proof['ok'] = False
        proof['failed'].append(('table-dumper', dump_err[-1500:]))
    if args_err:
        proof['ok'] = False
        proof['failed'].append(('a64args-translator', args_err[-1500:]))
    bins = build_probes()
    rows = info['rows']

    # ---- 1. line mode: real decoder vs model vs reference on structured words
    words = gen_words(tier, rng, rows)
    wl = list(words)
    ops, mops, impl, model, derr = execute_words(bins, wl, 'c17')
    bad = []
    for w, op, obs in zip(wl, ops, impl):
        why = oracle_word(w, obs)
        if why:
            bad.append((op, obs, why))
    for op, obs, why in bad[:3]:
        out.violation(f'{op}: {why}', {'kind': 'impl-oracle', 'ops': [op], 'observed': obs, 'why': why,
                                       'how': 'python3 check.py C17 --replay <this file>'})
    diffs = []
    lanes, nontrivial, rows_hit, refstate = {}, set(), set(), {}
    strdiff = 0
    if model is None:
        proof['failed'].append(('goomdrv', 'driver does not build: ' + derr[-500:]))
    for i, w in enumerate(wl):
        lanes[words[w]] = lanes.get(words[w], 0) + 1
        so = split_obs(impl[i])
        if so is None:
            continue
        g = so[0]
        refstate[w] = so[1]['state'] == 'ok'
        if g.startswith('row='):
            gf = gfields(g)
            rows_hit.add(gf['row'])
            nontrivial.add(g)
            if so[3] != so[4] and not allowed(w):
                strdiff += 1
        if model is not None and canon_pair(g, model[i]) != model[i] and len(diffs) < 20:
            diffs.append((i, mops[i], g, model[i]))

    # ---- 1b. the mechanically translated argument decoders / predicates (Gen/A64Args) against the real functions, and the
    #          oracle-free model `decodeFull` against the real Decode
    kinds_used = sorted({k for r in rows for k in r['args'] if k})
    by_kind = {}
    for r in rows:
        for k in r['args']:
            if k:
                by_kind.setdefault(k, []).append(r)
    per = 30 if tier == 'quick' else 400
    aops = []
    for k in kinds_used + [0, 9999]:
        for j in range(per):
            if k in by_kind and j % 4 != 3:
                r = by_kind[k][j % len(by_kind[k])]
                free = [b for b in range(32) if not (r['mask'] >> b) & 1]
                w = r['value'] | deposit(free, rng.next())
            else:
                w = rng.next() & M32
            aops.append(f'c17.arg {k} {w:#010x}')
    cops = []
    for r in rows:
        if r.get('cname', '-') != '-':
            free = [b for b in range(32) if not (r['mask'] >> b) & 1]
            for j in range(per * 2):
                cops.append(f'c17.cond {r["cname"]} {(r["value"] | deposit(free, rng.next())) & M32:#010x}')
            for p in patterns(len(free))[:80]:
                cops.append(f'c17.cond {r["cname"]} {(r["value"] | deposit(free, p)) & M32:#010x}')
    tops = list(dict.fromkeys(aops + cops))
    timpl = run_lines(bins[0], 'TestVerifC17', tops, 'c17.args')
    tmodel, _ = run_model(tops, 'c17.args')
    tdiffs, tbad, tuntr = [], [], 0
    tdist = {}
    for i, op in enumerate(tops):
        a, b = timpl[i], (tmodel[i] if tmodel else None)
        tdist[a] = tdist.get(a, 0) + 1
        if a and a.startswith('panic'):
            tbad.append((op, a))
        if b == 'untranslated':
            tuntr += 1
        elif tmodel is not None and a != b and len(tdiffs) < 20:
            tdiffs.append((i, op, a, b))
    for op, a in tbad[:2]:
        out.violation(f'{op}: the real function panicked: {a}', {'kind': 'impl-oracle', 'ops': [op], 'observed': a})
    fmops = [m.replace('c17.dec', 'c17.full', 1) for m in mops]
    fmodel, _ = run_model(fmops, 'c17.full')
    fdiffs = []
    if fmodel is not None:
        for i, w in enumerate(wl):
            g = (impl[i] or '').split(' ## ')[0]
            if canon_pair(g, fmodel[i]) != fmodel[i] and len(fdiffs) < 20:
                fdiffs.append((i, fmops[i], g, fmodel[i]))

    # ---- 2. scans of func_arm64.go (re-hosted) vs model vs the python statement of what they should return
    defs, _ = run_model([f'c17.def {w:#010x}' for w in wl], 'c17.def')
    plain, undec = [], []
    if defs is not None:
        for w, d in zip(wl, defs):
            if d.startswith('def row=') and not any(w & m == v for m, v in CALL.values()) and refstate.get(w):
                plain.append(w)
            elif d == 'def err:unknown' and refstate.get(w) is False:
                undec.append(w)
    sops, simpl, smodel, sbad, sdiffs, unmod = [], [], None, [], [], 0
    if plain and undec:
        sops = gen_scans(tier, rng, plain[:4000], undec[:500])
        simpl = run_lines(bins[1], 'TestVerifC17Func', sops, 'c17.scan')
        smodel, derr2 = run_model(sops, 'c17.scan')
        for i, op in enumerate(sops):
            ws = scan_words(op)
            # the prologue words / call words are not in `refstate` unless generated above: ask the line-mode probe lazily
            want = spec_inner(ws, known_ok_full(ws, refstate, bins)) if op.startswith('c17.inner') else spec_size(ws, known_ok_full(ws, refstate, bins))
            if simpl[i] != want:
                sbad.append((op, simpl[i], want))
            if smodel is not None:
                if smodel[i] == 'unmodelled':
                    unmod += 1
                elif smodel[i] != simpl[i] and len(sdiffs) < 20:
                    sdiffs.append((i, op, simpl[i], smodel[i]))
        for op, got, want in sbad[:2]:
            short = op if len(op) < 400 else op[:400] + ' …'
            out.violation(f'{short}: scan returned {got}, the extent/wrapper rule gives {want}',
                          {'kind': 'impl-oracle-scan', 'ops': [op], 'observed': got, 'expected': want})

    # ---- 3. sweep (execution, not proof)
    segs, seg_text = sweep_segments(tier, rng)
    budget = int(os.environ.get('VERIF_C17_BUDGET_S', '1300' if tier == 'thorough' else '150'))
    sweep_crash = None
    try:
        sw = run_sweep(bins[0], segs, strcmp=(tier == 'quick'), budget_s=budget)
    except C.Infra as e:
        # the process died (a Go `fatal error`, e.g. concurrent map writes inside Decode, cannot be recovered): look for a concrete word
        # with a single worker on a thinner sweep; if that passes, the crash itself is reported (no failing input)
        sweep_crash = str(e)
        sw = run_sweep(bins[0], [(lo, hi, st * 16) for lo, hi, st in segs], strcmp=False, budget_s=budget, workers=1)
    sweep_bad = []
    for key, what in (('Panic', 'Decode or Inst.String() panicked'), ('DiffDecodable', 'decodability differs from the reference'),
                      ('DiffOp', 'opcode differs from the reference'), ('DiffPcrel', 'PC-relative displacement differs from the reference')):
        for s in (sw.get(key) or [])[:40]:
            sweep_bad.append((int(s.split()[0], 16), what, s))
    if sweep_bad and not bad:
        # re-run the offending words in line mode so that the replay is self-contained
        ww = list(dict.fromkeys(w for w, _, _ in sweep_bad))[:20]
        o2, m2, i2, mod2, _ = execute_words(bins, ww, 'c17.sweepbad')
        shown = 0
        for w, op, obs in zip(ww, o2, i2):
            why = oracle_word(w, obs)
            if why and shown < 3:
                shown += 1
                out.violation(f'{op}: {why}', {'kind': 'impl-oracle', 'ops': [op], 'observed': obs, 'why': why, 'found_by': 'sweep'})
        if shown == 0:
            out.violation(f'sweep reported {sweep_bad[0][1]} for {sweep_bad[0][2]} but line mode does not reproduce it',
                          {'kind': 'sweep', 'ops': o2, 'sweep': sweep_bad[:10]}, no_failing_input=True)

    # ---- 4. correspondence / proof status when the oracle found nothing
    if not out.violations:
        if sweep_crash:
            out.violation('the sweep process was killed by the Go runtime while several goroutines called Decode (a fatal error is not recoverable); '
                          'a single-threaded sweep of the same ranges passes', {'kind': 'sweep-crash', 'error': sweep_crash[-3000:],
                          'broken': 'Decode is not safe to call concurrently / kills the process'}, no_failing_input=True)
        elif diffs:
            i, op, a, b = diffs[0]
            out.violation(f'real decoder and model disagree on `{op}`: impl `{a}` model `{b}`',
                          {'kind': 'correspondence', 'ops': [ops[i]], 'impl': a, 'model': b, 'n_disagreements_shown': len(diffs),
                           'broken': 'Model/A64Dec.lean (first-match search / interpreted argument decoders) vs arm64asm.Decode'}, no_failing_input=True)
        elif tdiffs:
            i, op, a, b = tdiffs[0]
            out.violation(f'translated argument decoder / predicate disagrees with the real function on `{op}`: impl `{a}` translation `{b}`',
                          {'kind': 'correspondence', 'ops': [op], 'impl': a, 'model': b, 'broken': 'tools/a64args translation (Gen/A64Args.lean) vs decodeArg / canDecode',
                           'n_disagreements_shown': len(tdiffs)}, no_failing_input=True)
        elif fdiffs:
            i, op, a, b = fdiffs[0]
            out.violation(f'real decoder and the oracle-free model disagree on `{op}`: impl `{a}` model `{b}`',
                          {'kind': 'correspondence', 'ops': [ops[i]], 'impl': a, 'model': b, 'broken': 'A64Dec.decodeFull (table + translated decoders) vs arm64asm.Decode',
                           'n_disagreements_shown': len(fdiffs)}, no_failing_input=True)
        elif sdiffs:
            i, op, a, b = sdiffs[0]
            out.violation(f'func_arm64.go scan and model disagree: impl `{a}` model `{b}`',
                          {'kind': 'correspondence', 'ops': [op], 'impl': a, 'model': b, 'broken': 'A64Dec.getInnerFunc/getFuncSize vs func_arm64.go'},
                          no_failing_input=True)
        elif not proof['ok']:
            out.violation('proof obligations of Props/C17.lean no longer check against the regenerated table and no failing input was found',
                          {'kind': 'proof', 'broken': proof['failed'], 'searched_words': len(wl) + sw['Words'], 'output': proof.get('output', '')[-3000:]},
                          no_failing_input=True)

    exhaustive = tier == 'thorough' and sw.get('Complete', False) and sw['Words'] == 1 << 32
    out.coverage = {
        'obligations': proof['obligations'], 'discharged': proof['discharged'],
        'checker_cmd': ' ; '.join(proof['cmds']),
        'trusted_base': ['Lean 4.33 kernel', 'axioms: ' + ', '.join(sorted({a for v in proof['axioms'].values() for a in v}) or ['none']),
                         'table dumper harness/c17/dump_probe_test.go + tools/a64table.py (the compiled instFormats, printed by an in-package probe)',
                         'hand transcription of 22 argument decoders and of the two func_arm64.go scans (validated against the real code on every evaluation below)',
                         'reference: toolchain copy of golang.org/x/arch/arm64/arm64asm',
                         'NOT proved: totality of the ~290 other argument decoders, the canDecode predicates and Inst.String(): executed only (sweep)'],
        'theorems': proof['axioms'], 'proof_failures': proof['failed'],
        'evaluations': len(wl) + len(sops) + len(tops) + sw['Words'],
        'distinct_nontrivial': len(nontrivial) + sum(1 for x in simpl if x and x.startswith('target=')),
        'traces_validated_against_impl': (len(wl) - len(diffs) if model is not None else 0) + (len(wl) - len(fdiffs) if fmodel is not None else 0) +
                                         (len(tops) - tuntr - len(tdiffs) if tmodel is not None else 0) + (len(sops) - unmod - len(sdiffs) if smodel is not None else 0),
        'exhaustive': exhaustive,
        'rule': 'line mode: one evaluation = one instruction word through goom Decode+String, the reference decoder and the model (under the oracle '
                'admitting the row the real decoder chose); non-trivial = distinct successful decode observation (row, op, interpreted args). '
                'scan: one evaluation = one code sequence through the re-hosted GetInnerFunc/GetFuncSize. sweep: one evaluation = one word through '
                'goom Decode+String and the reference, compared on decodability, opcode, every PCRel argument. The sweep is exhaustive execution '
                '(a test), not a proof.',
        'distribution': {
            'table_rows': nrows, 'gen_table_changed_this_run': changed, 'line_mode_words': len(wl), 'lanes': lanes,
            'table_rows_hit_by_real_decoder': len(rows_hit),
            'table_rows_never_chosen(shadowed, or canDecode always false)': sorted(set(range(nrows)) - {int(x) for x in rows_hit})[:64], 'line_mode_decodable': sum(1 for x in impl if x and x.startswith('row=')),
            'line_mode_string_text_differs_from_reference(not part of the property)': strdiff,
            'translator(a64args)': dict(args_summ, gen_changed_this_run=args_changed),
            'translated_fn_ops(real decodeArg / canDecode vs Gen.A64Args)': {'ops': len(tops), 'arg_ops': len(aops), 'cond_ops': len(cops), 'kinds': len(kinds_used),
                                                                             'outcomes': tdist, 'untranslated_skipped': tuntr, 'disagreements': len(tdiffs)},
            'oracle_free_model_vs_real_decoder': {'words': len(wl), 'disagreements': len(fdiffs)},
            'scan_ops': len(sops), 'scan_unmodelled(skipped in model comparison)': unmod,
            'scan_results': {k: sum(1 for x in simpl if x and x.split('=')[0] == k) for k in ('target', 'zero', 'err', 'size')},
            'sweep': {'segments': seg_text, 'words': sw['Words'], 'complete': sw.get('Complete'), 'fraction_of_2^32': round(sw['Words'] / (1 << 32), 4),
                      'budget_note': 'the sweep stops starting new blocks after VERIF_C17_BUDGET_S seconds (default 1300 thorough); passes are interleaved so a partial sweep is uniform; exhaustive is reported only when complete', 'wall_s': sw['wall_s'], 'goom_decodable': sw['GoomOK'],
                      'ref_decodable': sw['RefOK'], 'both_reject': sw['BothErr'], 'sys_alias_words(allowed difference)': sw['Allowed'],
                      'sys_alias_words_that_differ': sw['AllowedDiff'], 'words_with_pcrel': sw['PcrelWords'], 'pcrel_ops': sw['Ops'],
                      'string_compared': sw['StrCompared'], 'string_text_differs(not part of the property)': sw['StrDiff'],
                      'string_diff_samples': (sw.get('StrDiffSamples') or [])[:3], 'panics': len(sw.get('Panic') or []),
                      'reference_panics': len(sw.get('RefPanic') or [])},
        },
        'samples': [{'op': mops[i], 'impl': impl[i], 'model': model[i] if model else None} for i in (0, len(ops) // 3, len(ops) // 2, len(ops) - 1)] +
                   [{'op': sops[i][:200], 'impl': simpl[i], 'model': smodel[i] if smodel else None} for i in ((0, len(sops) // 2) if sops else ())],
    }
    out.assumptions = ['arm64 code cannot execute here: decoder and scans run as pure Go on amd64, func_arm64.go re-hosted as source',
                       'reference decoder = toolchain copy of x/arch arm64asm', 'SYS-alias space (AT/DC/IC/TLBI) excluded from the agreement clause']
    return out.finish()


_extra_ref = {}


def known_ok_full(ws, refstate, bins):
    """reference decodability for every word of a scan sequence (asks the line-mode probe for words not seen yet)"""
    need = [w for w in dict.fromkeys(ws + [0]) if w not in refstate and w not in _extra_ref]
    if need:
        impl = run_lines(bins[0], 'TestVerifC17', [f'c17.dec {w:#010x}' for w in need], 'c17.refq')
        for w, obs in zip(need, impl):
            so = split_obs(obs)
            _extra_ref[w] = bool(so and so[1]['state'] == 'ok')
    return lambda w: refstate[w] if w in refstate else _extra_ref.get(w, False)


def replay(body):
    bins = build_probes()
    ops = body.get('ops', [])
    rc = 0
    wops = [o for o in ops if o.startswith('c17.dec')]
    if wops:
        ww = [int(o.split()[1], 16) for o in wops]
        o2, m2, impl, model, _ = execute_words(bins, ww, 'c17-replay')
        for w, op, obs, i in zip(ww, m2, impl, range(len(ww))):
            why = oracle_word(w, obs)
            g = (obs or '').split(' ## ')[0]
            md = model[i] if model else None
            print(f'{op}\n  impl : {obs}\n  model: {md}\n  oracle: {why or "ok"}')
            if why or (md is not None and canon_pair(g, md) != md):
                rc = 1
    tops = [o for o in ops if o.startswith('c17.arg') or o.startswith('c17.cond')]
    if tops:
        timpl = run_lines(bins[0], 'TestVerifC17', tops, 'c17-replay.args')
        tmodel, _ = run_model(tops, 'c17-replay.args')
        for i, op in enumerate(tops):
            md = tmodel[i] if tmodel else None
            print(f'{op}\n  impl : {timpl[i]}\n  translation: {md}')
            if (timpl[i] or '').startswith('panic') or (md not in (None, 'untranslated') and md != timpl[i]):
                rc = 1
    sops = [o for o in ops if o.startswith('c17.inner') or o.startswith('c17.size')]
    if sops:
        simpl = run_lines(bins[1], 'TestVerifC17Func', sops, 'c17-replay.scan')
        smodel, _ = run_model(sops, 'c17-replay.scan')
        for i, op in enumerate(sops):
            ws = scan_words(op)
            ok = known_ok_full(ws, {}, bins)
            want = spec_inner(ws, ok) if op.startswith('c17.inner') else spec_size(ws, ok)
            print(f'{op[:300]}\n  impl : {simpl[i]}\n  model: {smodel[i] if smodel else None}\n  expected: {want}')
            if simpl[i] != want or (smodel and smodel[i] not in ('unmodelled', simpl[i])):
                rc = 1
    return rc


def regen_setup():
    changed, nrows, info = a64table.regen()
    regen_args()
    return nrows, changed
