"""C17 — the arm64 decoder is total and agrees with the reference on all 2^32 words.

PROVED (Lean, over the table regenerated from the compiled `instFormats` on every run, for EVERY behaviour of the
~290 argument decoders / 107 canDecode predicates the model does not interpret): every word of the classes B, BL, B.cond,
CBZ, CBNZ, TBZ, TBNZ, ADR, ADRP, LDR/LDRSW (literal) decodes to that opcode with the Arm ARM displacement; no decode
yields Op 0 and the zero word is undecodable (what GetFuncSize's stop conditions rest on); the target arithmetic of
GetInnerFunc; the extent returned by GetFuncSize.
EXECUTED, not proved (labelled a test): totality of Decode + Inst.String() and agreement with the toolchain's decoder on
decodability / opcode / every PCRel argument — all 2^32 words in the thorough tier, strided in the quick tier.
"""
import json
import os
import time

from vlib import common as C
from tools import a64table

META = {
    'property_id': 'C17',
    'technique': 'Lean 4 theorems about a first-match model over the decoding table regenerated from the compiled arm64asm.instFormats '
                 '(branch/address/emitted-instruction classes for all words of each class and all behaviours of the uninterpreted decoders; converse for B/BL; '
                 'an undecodable quarter of the space; GetInnerFunc first-ness; GetFuncSize extent and cache) and about a mechanical Go-AST translation of '
                 'decodeArg/canDecode (tools/a64args) + trace validation of the real decoder, the real argument decoders, the re-hosted func_arm64.go '
                 '(GetInnerFunc, GetFuncSize incl. cache, PrintInstf) against the model + exhaustive differential execution against the toolchain decoder',
    'level': 'proof',
    'level_text': 'Partial proof. Proved for all words and all oracles: 18 instruction classes (B, BL, B.cond, CBZ, CBNZ, TBZ, TBNZ, ADR, ADRP, LDR/LDRSW/PRFM literal incl. '
                  'FP, MOVZ/MOV-alias, MOVK, LDR unsigned offset, BR, BLR, RET, NOP) decode to the Arm ARM opcode and displacement; conversely a result "B"/"BL" with '
                  'a PCRel first argument comes only from a B/BL word and carries SignExtend(imm26:00); every word with op0=00xx (a quarter of the space) is rejected; '
                  'no decode has Op 0; argument decoding (translated from the Go AST) has no panic outcome for any row and word; GetInnerFunc returns '
                  'start+offset+displacement of the FIRST qualifying B/BL; GetFuncSize returns the first undecodable word / prologue and its cache returns the '
                  'same extent again; the six words goom emits decode to MOV/MOVK/LDR/BR as intended. NOT proved, only executed: that Decode and Inst.String() '
                  'never panic on the remaining words and that decodability/opcode/PCRel agree with the reference there (all 2^32 words in the thorough tier — '
                  'an incomplete sweep is a machinery error, not a pass; strided + complete narrow rows in quick).',
    'level_note': 'Trusted: Lean kernel (propext, Classical.choice, Quot.sound); the table dumper and tools/a64table.py; tools/a64args (Go AST -> Lean; its judgement '
                  'which operations can panic is NOT checked by the kernel, it is validated per run against the real decodeArg/canDecode and, statically, '
                  'definition by definition against the same translation of the reference); the hand transcription of 29 argument decoders, one predicate and '
                  'the func_arm64.go scans; the reference decoder (toolchain copy of x/arch arm64asm, same upstream lineage as goom\'s copy: common-mode errors '
                  'are visible only where an Arm ARM formula is stated independently). Allowed difference: words with w&0xfff8f000 in {0xd5087000,0xd5088000}. '
                  'Not modelled: termination of the handle_bitmasks/bit_count loops, operand values other than those named, Inst.String(), concurrency of Decode '
                  '(probed: first use from many goroutines in fresh processes). arm64 code cannot run here: func_arm64.go is re-hosted as source on amd64.',
}

M32 = 0xffffffff
PRO = [0xf9400b81, 0x910003e2, 0xeb01005f]
ALLOWED = [(0xfff8f000, 0xd5087000), (0xfff8f000, 0xd5088000)]
CALL = {'B': (0xfc000000, 0x14000000), 'BL': (0xfc000000, 0x94000000)}
# opcode and displacement per Arm ARM class: name -> (mask, value, op, field extractor)
FIXED = [0x00000000, 0xffffffff, 0xd503201f, 0xd65f03c0, 0x14000000, 0x17ffffff, 0x15ffffff, 0x16000000, 0x94000001, 0x97ffffff,
         0x54000000, 0x54ffffe0, 0x5400000f, 0x54000010, 0x34000000, 0xb5ffffff, 0x36000000, 0xb7ffffff, 0x3607ffe0, 0x10000000,
         0x70ffffff, 0x90000000, 0xf0ffffff, 0x9000001f, 0x18000000, 0x58ffffe1, 0x98000000, 0xd8000000, 0x1c000000,
         0xd50b7420, 0xd5087620, 0xd508871f, 0xd5080000, 0xd50fffff, 0xd5087800, 0xd5033fdf, 0x8b2063ff, 0x0a00040e]


def sext(v, bits):
    return v - (1 << bits) if v & (1 << (bits - 1)) else v


_i26 = lambda w: sext(w & 0x3ffffff, 26) * 4
_i19 = lambda w: sext((w >> 5) & 0x7ffff, 19) * 4
_i14 = lambda w: sext((w >> 5) & 0x3fff, 14) * 4
_adr = lambda w: sext((((w >> 5) & 0x7ffff) << 2) | ((w >> 29) & 3), 21)
# Arm ARM (DDI 0487 C6.2): class mask/value, mnemonic, position of the label operand, displacement
ARMARM = [('B', 0xfc000000, 0x14000000, 0, _i26), ('BL', 0xfc000000, 0x94000000, 0, _i26), ('B', 0xff000010, 0x54000000, 1, _i19),
          ('CBZ', 0x7f000000, 0x34000000, 1, _i19), ('CBNZ', 0x7f000000, 0x35000000, 1, _i19),
          ('TBZ', 0x7f000000, 0x36000000, 2, _i14), ('TBNZ', 0x7f000000, 0x37000000, 2, _i14),
          ('ADR', 0x9f000000, 0x10000000, 1, _adr), ('ADRP', 0x9f000000, 0x90000000, 1, lambda w: _adr(w) << 12),
          ('LDR', 0xbf000000, 0x18000000, 1, _i19), ('LDRSW', 0xff000000, 0x98000000, 1, _i19)]


def allowed(w):
    return any(w & m == v for m, v in ALLOWED)


def deposit(free_bits, val):
    w = 0
    for i, b in enumerate(free_bits):
        if (val >> i) & 1:
            w |= 1 << b
    return w


def patterns(n):
    """boundary patterns over an n-bit free field"""
    full = (1 << n) - 1
    ps = {0, full}
    for i in range(n):
        ps.add(1 << i)
        ps.add(full ^ (1 << i))
        ps.add((1 << i) - 1)
        ps.add(full ^ ((1 << i) - 1))
    return sorted(ps)


def gen_words(tier, rng, rows):
    """-> ordered dict word -> lane"""
    words = {}

    def add(w, lane):
        w &= M32
        if w not in words:
            words[w] = lane
    for w in FIXED:
        add(w, 'corpus')
    nrand = 2500 if tier == 'quick' else 40000
    for name, m, v in a64table.CLASSES:
        free = [b for b in range(32) if not (m >> b) & 1]
        for p in patterns(len(free)):
            add(v | deposit(free, p), 'class:' + name)
        for _ in range(nrand):
            add(v | deposit(free, rng.next()), 'class:' + name)
    per = 25 if tier == 'quick' else 300
    for r in rows:
        free = [b for b in range(32) if not (r['mask'] >> b) & 1]
        n = len(free)
        for p in (0, (1 << n) - 1):
            add(r['value'] | deposit(free, p), 'row')
        for _ in range(per):
            add(r['value'] | deposit(free, rng.next()), 'row')
    for m, v in ALLOWED:
        free = [b for b in range(32) if not (m >> b) & 1]
        for _ in range(300 if tier == 'quick' else 5000):
            add(v | deposit(free, rng.next()), 'sys-alias')
    ns = 30000 if tier == 'quick' else 400000
    stride = (1 << 32) // ns
    ph = rng.below(stride)
    for k in range(ns):
        add(ph + k * stride, 'strided')
    for _ in range(20000 if tier == 'quick' else 300000):
        add(rng.next() & M32, 'random')
    return words


def regen_args():
    """Re-translate decodeArg / the canDecode predicates (tools/a64args) into Gen/A64Args.lean. -> (changed, summary dict)"""
    exe = os.path.join(C.BUILD, 'a64args')
    rc, o, e = C.sh(['go', 'build', '-o', exe, '.'], cwd=os.path.join(C.VERIF, 'tools', 'a64args'), env=C.goenv())
    if rc != 0:
        raise C.Infra('building tools/a64args failed:\n' + e)
    tmp = os.path.join(C.BUILD, 'A64Args.lean')
    rc, o, e = C.sh([exe, '-repo', C.REPO, '-out', tmp])
    if rc != 0 or not os.path.exists(tmp):
        raise C.Infra('tools/a64args rejects internal/arch/arm64asm (decodeArg is no longer one switch over its first parameter, or the '
                      'package does not type-check):\n' + (o + e)[-2000:])
    dst = os.path.join(C.GEN_DIR, 'A64Args.lean')
    new = open(tmp).read()
    changed = not os.path.exists(dst) or open(dst).read() != new
    if changed:
        open(dst, 'w').write(new)
    head = o.splitlines()[0] if o else ''
    summ = {k: int(v) for k, v in (p.split('=') for p in head.split() if '=' in p)}
    summ['untranslated'] = [l[len('UNTRANSLATED '):] for l in o.splitlines() if l.startswith('UNTRANSLATED ')]
    return changed, summ


# differences between goom's copy and the toolchain's decoder that were reviewed and are covered by the ordinary lanes; only NEW
# differences direct the complete row sweeps below.  (translated definitions by Lean name; Go functions by "Recv.Name")
BASE_TRANSL_DIFF = {'f_sys_op_4', 'f_at_sys_cr_system_cond', 'f_dc_sys_cr_system_cond', 'f_ic_sys_cr_system_cond', 'f_tlbi_sys_cr_system_cond',
                    'arg_sysop_DC_SYS_CR_system', 'arg_sysop_TLBI_SYS_CR_system'}
BASE_FUNC_DIFF = {'Cond.String', 'Imm.String', 'Imm64.String', 'MemExtend.String', 'MemImmediate.String', 'RegExtshiftAmount.String',
                  'at_sys_cr_system_cond', 'dc_sys_cr_system_cond', 'ic_sys_cr_system_cond', 'tlbi_sys_cr_system_cond', 'sys_op_4', 'decodeArg'}


def _lean_defs(path):
    import re
    out = {}
    for m in re.finditer(r'^def (\S+) (.*?)(?=^\S|\Z)', open(path).read(), re.M | re.S):
        seen = {}

        def ren(mm):
            return seen.setdefault(mm.group(0), f'_{len(seen)}')
        out[m.group(1)] = re.sub(r'_\d+\b', ren, m.group(2))
    return out


def source_diff(rows):
    """Translate the REFERENCE decoder with the same translator and compare, definition by definition (SSA names normalised), with the
    translation of goom's; compare a content hash of every Go function of the two packages.  Returns the table rows whose argument
    decoders / predicate / operand printing differ from the reference in a way not in the reviewed baseline — these rows are then
    swept COMPLETELY — and a summary for the evidence.  A static comparison: it sees a change confined to a single word."""
    exe = os.path.join(C.BUILD, 'a64args')
    gl, gj = os.path.join(C.BUILD, 'A64Args.lean'), os.path.join(C.BUILD, 'a64args.goom.json')
    rl, rj = os.path.join(C.BUILD, 'A64Args.ref.lean'), os.path.join(C.BUILD, 'a64args.ref.json')
    rc1, o1, e1 = C.sh([exe, '-repo', C.REPO, '-out', gl, '-meta', gj])
    rc2, o2, e2 = C.sh([exe, '-repo', C.REPO, '-dir', os.path.join(C.BUILD, 'ref', 'refarm64'), '-out', rl, '-meta', rj])
    if rc1 != 0 or rc2 != 0:
        return [], {'error': (e1 + e2)[-500:]}
    g, r = _lean_defs(gl), _lean_defs(rl)
    tdiff = sorted(n for n in g if (n.startswith('arg_') or n.startswith('f_')) and g[n] != r.get(n))
    gm, rm = json.load(open(gj)), json.load(open(rj))
    fdiff = sorted(k for k in gm['funcs'] if gm['funcs'][k] != rm['funcs'].get(k))
    new_t = [n for n in tdiff if n not in BASE_TRANSL_DIFF]
    new_f = [n for n in fdiff if n not in BASE_FUNC_DIFF]
    # helpers that differ taint every definition that mentions them
    tainted = set(new_t)
    for h in [n for n in new_t if n.startswith('f_')]:
        tainted |= {n for n, body in g.items() if h + ' ' in body or h + ')' in body}
    kinds = {int(k) for k, v in gm['kinds'].items() if v['name'] in tainted}
    conds = {n[2:] for n in tainted if n.startswith('f_') and n.endswith('_cond')}
    types = {f.split('.')[0] for f in new_f if '.' in f}
    kinds |= {int(k) for k, v in gm['kinds'].items() if any(t in types or t.lstrip('*') in types for t in v['types'])}
    sel = [r_ for r_ in rows if any(k in kinds for k in r_['args']) or r_.get('cname') in conds]
    sel.sort(key=lambda r_: bin(r_['mask']).count('1'), reverse=True)    # narrow rows first
    same_cases = sum(1 for n in g if n.startswith('arg_') and g[n] == r.get(n))
    same_conds = sum(1 for n in g if n.startswith('f_') and n.endswith('_cond') and g[n] == r.get(n))
    return sel, {'translated_cases_identical_to_reference': same_cases, 'translated_predicates_identical_to_reference': same_conds,
                 'translation_differs': tdiff, 'go_functions_differ': fdiff, 'new_vs_baseline': new_t + new_f,
                 'rows_selected_for_complete_sweep': len(sel)}


def build_probes():
    refresh_reference()
    helpers = C.helper_pkgs()
    b1, err = C.overlay_build('c17-dec', 'internal/arch/arm64asm',
                              {'zz_verif_c17_test.go': os.path.join(C.HARNESS, 'c17', 'dec_probe_test.go')}, helpers, gcflags=None)
    if b1 is None:
        raise C.Infra('decoder probe does not build against the current tree:\n' + err[-3000:])
    pkg = 'internal/zzverif/a64func'
    extra = dict(helpers)
    extra[pkg] = {'zz_verif_c17_test.go': os.path.join(C.HARNESS, 'c17', 'func_probe_test.go'),
                  'func_a64.go': os.path.join(C.REPO, 'internal/bytecode/func_arm64.go'),
                  'func.go': os.path.join(C.REPO, 'internal/bytecode/func.go')}
    b2, err = C.overlay_build('c17-func', pkg, {}, extra)
    if b2 is None:
        raise C.Infra('re-hosted func_arm64.go probe does not build against the current tree:\n' + err[-3000:])
    return b1, b2


SCRUB = ('GOOM_DEBUG', 'GODEBUG', 'GOGC', 'GOMAXPROCS', 'GOTRACEBACK', 'GORACE')


def run_probe(binary, test, ops_path, out_path, env=None, timeout=7200):
    """C.run_probe with goom / Go runtime knobs removed from the environment (an odd environment must not change the verdict), a
    generous timeout, and ONE retry when the process was killed or timed out (a crash that reproduces is reported, one that does
    not is not)."""
    saved = {k: os.environ.pop(k) for k in SCRUB if k in os.environ}
    try:
        last = None
        for attempt in (1, 2):
            try:
                rc, log = C.run_probe(binary, test, ops_path, out_path, env=env, timeout=timeout)
            except Exception as e:  # subprocess timeout
                rc, log = -9, f'probe timed out / could not run: {e}'
            if rc == 0:
                return rc, log
            last = (rc, log)
            C.log(f'C17: probe {test} failed (rc={rc}), attempt {attempt}')
        return last
    finally:
        os.environ.update(saved)


def run_lines(binary, test, ops, tag):
    p = os.path.join(C.BUILD, tag + '.ops')
    open(p, 'w').write('\n'.join(ops) + '\n')
    outp = os.path.join(C.BUILD, tag + '.impl')
    rc, log = run_probe(binary, test, p, outp)
    if rc != 0:
        raise C.Infra(f'probe {test} failed twice rc={rc}:\n{log[-2000:]}')
    res = C.read_indexed(outp, len(ops))
    if ops and sum(1 for x in res if x is not None) < 0.9 * len(ops):   # floor: a lane that silently observed nothing is a machinery error
        raise C.Infra(f'probe {test} produced {sum(1 for x in res if x is not None)} observations for {len(ops)} operations')
    return res


def refresh_reference():
    """vlib.helper_pkgs copies the toolchain decoder only when the file is absent: after a toolchain change the copy in build/ref would
    be stale or mixed.  Re-copy whatever differs from $GOROOT; record the toolchain in the evidence."""
    srcd = os.path.join(C.goroot(), 'src/cmd/vendor/golang.org/x/arch/arm64/arm64asm')
    dstd = os.path.join(C.BUILD, 'ref', 'refarm64')
    os.makedirs(dstd, exist_ok=True)
    n = 0
    for f in sorted(os.listdir(srcd)):
        if f.endswith('.go') and not f.endswith('_test.go'):
            a = open(os.path.join(srcd, f), 'rb').read()
            d = os.path.join(dstd, f)
            if not os.path.exists(d) or open(d, 'rb').read() != a:
                open(d, 'wb').write(a)
                n += 1
    rc, o, _ = C.sh(['go', 'version'], env=C.goenv())
    return {'go': o.strip(), 'files_refreshed': n}


def run_model(ops, tag):
    exe, err = C.build_driver()
    if exe is None:
        return None, err
    p = os.path.join(C.BUILD, tag + '.mops')
    open(p, 'w').write('\n'.join(ops) + '\n')
    return C.run_driver(exe, p, os.path.join(C.BUILD, tag + '.model')), ''


def split_obs(obs):
    """impl line -> (goom part, ref dict, goom pcrel, gstr, rstr)"""
    parts = (obs or '').split(' ## ')
    if len(parts) < 5:
        return None
    g, r = parts[0], parts[1]
    rt = r.split()
    ref = {'state': rt[0].split(':', 1)[1] if rt else '?'}
    for t in rt[1:]:
        if '=' in t:
            k, v = t.split('=', 1)
            ref[k] = v
    return g, ref, parts[2].split('=', 1)[1], parts[3].split('=', 1)[1], parts[4].split('=', 1)[1]


def gfields(g):
    d = {}
    for t in g.split():
        if '=' in t:
            k, v = t.split('=', 1)
            d[k] = v
    return d


def oracle_word(w, obs):
    """The property on what the implementation did with word w (independent of the model)."""
    so = split_obs(obs)
    if so is None:
        return 'no observation (probe crashed?)'
    g, ref, gp, gstr, rstr = so
    if g.startswith('panic:'):
        return f'decoder or Inst.String() panicked: {g}'
    if not (g.startswith('row=') or g.startswith('err:')):
        return f'unexpected observation {g}'
    if allowed(w) or ref['state'] == 'panic':
        return None
    g_ok, r_ok = g.startswith('row='), ref['state'] == 'ok'
    if g_ok != r_ok:
        return f'decodability differs: goom {"decodes" if g_ok else "rejects"}, reference {"decodes" if r_ok else "rejects"} ({rstr or "-"})'
    if g_ok:
        gf = gfields(g)
        if gf.get('op') != ref.get('op'):
            return f'opcode differs: goom {gf.get("op")}, reference {ref.get("op")}'
        if gp != ref.get('pcrel'):
            return f'PC-relative displacement differs: goom {gp}, reference {ref.get("pcrel")}'
        # Arm ARM formulas for the branch/address classes, independent of both decoders
        for name, m, v, pos, f in ARMARM:
            if w & m == v and (gf.get('op') != name or gp != f'{pos}:{f(w)}'):
                return f'{name} word decoded as {gf.get("op")} pcrel {gp}, the Arm ARM says {name} with displacement {f(w)}'
    return None


def canon_pair(g, m):
    """mask the argument positions the model does not interpret"""
    if g.startswith('row=') and m and m.startswith('row='):
        gf, mf = gfields(g), gfields(m)
        ga, ma = gf.get('args', '-').split(','), mf.get('args', '-').split(',')
        if len(ga) == len(ma):
            ga = ['?' if y == '?' else x for x, y in zip(ga, ma)]
            g = f'row={gf.get("row")} op={gf.get("op")} args={",".join(ga)}' + (' !' + g.split(' !', 1)[1] if ' !' in g else '')
    return g


# ------------------------------------------------------------------ scans

def spec_inner(ws, ref_ok):
    c = 0
    mem = lambda o: ws[o // 4] if o // 4 < len(ws) else 0
    while True:
        w = mem(c)
        if not ref_ok(w):
            return 'err'
        for m, v in CALL.values():
            if w & m == v:
                d = sext(w & 0x3ffffff, 26) * 4
                if d >= 0 or c + d < 0:
                    return f'target={c + d}'
        c += 4
        if [mem(c), mem(c + 4), mem(c + 8)] == PRO:
            return 'zero'
        if c > 4096:
            return 'zero'


def spec_size(ws, ref_ok):
    c = 0
    mem = lambda o: ws[o // 4] if o // 4 < len(ws) else 0
    while True:
        if not ref_ok(mem(c)):
            return f'size={c}'
        c += 4
        if [mem(c), mem(c + 4), mem(c + 8)] == PRO:
            return f'size={c}'


def gen_scans(tier, rng, plain, bad):
    """plain: env-independent decodable non-call words; bad: env-independent undecodable words"""
    ops = []
    n = 3000 if tier == 'quick' else 40000

    def call(c):
        base = rng.choice([0x14000000, 0x94000000])
        mode = rng.below(7)
        if mode == 0:
            d = rng.below(64)                       # forward
        elif mode == 1:
            d = -rng.below(c // 4 + 1)              # backward, stays inside [start, …): skipped unless 0
        elif mode == 2:
            d = -(c // 4) - 1 - rng.below(8)        # backward, before start
        elif mode == 3:
            d = -(c // 4)                           # exactly start: curLen+rAddr = 0, not < 0
        elif mode == 4:
            d = rng.choice([(1 << 25) - 1, -(1 << 25), 0, 1, -1])
        elif mode == 5:
            d = sext(rng.next() & 0x3ffffff, 26)
        else:
            d = -(c // 4) - 1
        return base | (d & 0x3ffffff)
    for _ in range(n):
        ln = 1 + rng.below(14)
        ws = []
        for i in range(ln):
            k = rng.below(10)
            if k < 6:
                ws.append(rng.choice(plain))
            elif k < 9:
                ws.append(call(4 * i))
            else:
                ws.append(rng.choice(bad))
        if rng.chance(1, 4) and ws:
            ws += PRO
            if rng.chance(1, 3):
                ws += [rng.choice(plain), call(4 * len(ws))]
        hx = ' '.join(f'{w:#010x}' for w in ws)
        if rng.chance(2, 3):
            ops.append('c17.inner ' + hx)
        else:
            ops.append(f'c17.size {rng.below(2)} ' + hx)
    nop = '0xd503201f'
    ops.append('c17.inner ' + ' '.join([nop] * 1030))                      # the curLen > 4096 bound
    ops.append('c17.inner ' + ' '.join([nop] * 1024 + ['0x94000010']))     # call at offset 4096: still seen
    ops.append('c17.inner ' + ' '.join([nop] * 1025 + ['0x94000010']))     # call at offset 4100: not reached
    ops.append('c17.size 0 ' + ' '.join([nop] * 1100))
    ops.append('c17.inner ' + ' '.join(f'{w:#010x}' for w in PRO))         # prologue at offset 0 is decoded, not recognised
    return list(dict.fromkeys(ops))


def scan_words(op):
    t = op.split()
    return [int(x, 16) for x in (t[1:] if t[0] == 'c17.inner' else t[2:])]


# ------------------------------------------------------------------ sweep

def sweep_segments(tier, rng):
    if tier == 'thorough':
        order = list(range(16))
        for i in range(15, 0, -1):                     # seeded order of the 16 residue classes: a run cut short by the
            j = rng.below(i + 1)                       # time budget still covers the space uniformly
            order[i], order[j] = order[j], order[i]
        return [(ph, 1 << 32, 16) for ph in order], 'all 2^32 words as 16 interleaved passes (stride 16, every phase)'
    st = 211
    segs = [(rng.below(st), 1 << 32, st)]
    cst = 29
    for lo, hi in [(0x14000000, 0x18000000), (0x94000000, 0x98000000), (0x54000000, 0x55000000), (0x34000000, 0x38000000),
                   (0xb4000000, 0xb8000000)] + [(b << 24, (b + 1) << 24) for b in (0x10, 0x30, 0x50, 0x70, 0x90, 0xb0, 0xd0, 0xf0)] + \
                  [(0x18000000, 0x19000000), (0x58000000, 0x59000000), (0x98000000, 0x99000000), (0xd5080000, 0xd5090000)] + \
                  [(0x1c000000, 0x1d000000), (0x5c000000, 0x5d000000), (0x9c000000, 0x9d000000), (0xd8000000, 0xd9000000)]:
        segs.append((lo + rng.below(cst), hi, cst if hi - lo > (1 << 16) else 1))
    return segs, f'whole space at stride {st} (seeded phase) + every branch/address class range at stride {cst} + the SYS space at stride 1'


def run_sweep(binary, segs, strcmp, budget_s, workers=None, rows=None):
    outp = os.path.join(C.BUILD, 'c17.sweep.json')
    if os.path.exists(outp):
        os.remove(outp)
    env = {'VERIF_C17_SEGS': ','.join(f'{lo:#x}:{hi:#x}:{st}' for lo, hi, st in segs), 'VERIF_C17_STRCMP': '1' if strcmp else '0',
           'VERIF_C17_BUDGET_S': str(budget_s)}
    if workers:
        env['VERIF_C17_WORKERS'] = str(workers)
    if rows:
        env['VERIF_C17_ROWS'] = ','.join(f'{m:#x}:{v:#x}' for m, v in rows)
    t0 = time.time()
    rc, log = run_probe(binary, 'TestVerifC17Sweep', '/dev/null', outp, env=env, timeout=budget_s + 900)
    if rc != 0 or not os.path.exists(outp):
        raise C.Infra(f'sweep probe failed rc={rc}:\n{log[-2000:]}')
    res = json.load(open(outp))
    res['wall_s'] = round(time.time() - t0, 1)
    return res


# ------------------------------------------------------------------ main

def execute_words(bins, words, tag):
    """line mode: real decoder, then the model under the claimed-row oracle. -> ops, impl, model"""
    ops = [f'c17.dec {w:#010x}' for w in words]
    impl = run_lines(bins[0], 'TestVerifC17', ops, tag)
    mops = []
    for op, obs in zip(ops, impl):
        g = (obs or '').split(' ## ')[0]
        claim = gfields(g).get('row', '-') if g.startswith('row=') else '-'
        mops.append(f'{op} {claim}')
    model, derr = run_model(mops, tag)
    return ops, mops, impl, model, derr


def run(tier):
    out = C.Outcome('C17', tier)
    rng = C.Rng(C.seed()).fork('C17')
    dump_err = None
    try:
        changed, nrows, info = a64table.regen()
    except C.Infra as e:
        # the dumper no longer builds/runs against the tree (a table field or an interpreted argument kind disappeared): a broken
        # obligation, not an infrastructure problem; keep going on the last dumped table so that a failing input can still be found
        dump_err = str(e)
        old = os.path.join(C.BUILD, 'c17.tabledump')
        rows_, kinds_, ops_, rb_ = a64table.parse(open(old).read()) if os.path.exists(old) else ([], {}, {}, {})
        changed, nrows, info = False, len(rows_), {'rows': rows_}
    args_err, args_changed, args_summ = None, False, {}
    try:
        args_changed, args_summ = regen_args()
    except C.Infra as e:
        args_err = str(e)      # the translator rejects the source: a broken obligation (the stale Gen/A64Args.lean stays in place)
    proof = C.prove('C17', leanchecker=(tier == 'thorough'))
    if dump_err:
        proof['ok'] = False
        proof['failed'].append(('table-dumper', dump_err[-1500:]))
    if args_err:
        proof['ok'] = False
        proof['failed'].append(('a64args-translator', args_err[-1500:]))
    bins = build_probes()
    rows = info['rows']

    # ---- 1. line mode: real decoder vs model vs reference on structured words
    words = gen_words(tier, rng, rows)
    wl = list(words)
    ops, mops, impl, model, derr = execute_words(bins, wl, 'c17')
    bad = []
    for w, op, obs in zip(wl, ops, impl):
        why = oracle_word(w, obs)
        if why:
            bad.append((op, obs, why))
    for op, obs, why in bad[:3]:
        out.violation(f'{op}: {why}', {'kind': 'impl-oracle', 'ops': [op], 'observed': obs, 'why': why,
                                       'how': 'python3 check.py C17 --replay <this file>'})
    diffs = []
    lanes, nontrivial, rows_hit, refstate = {}, set(), set(), {}
    strdiff = 0
    if model is None:
        proof['ok'] = False
        proof['failed'].append(('goomdrv', 'driver does not build: ' + derr[-500:]))
    for i, w in enumerate(wl):
        lanes[words[w]] = lanes.get(words[w], 0) + 1
        so = split_obs(impl[i])
        if so is None:
            continue
        g = so[0]
        refstate[w] = so[1]['state'] == 'ok'
        if g.startswith('row='):
            gf = gfields(g)
            rows_hit.add(gf['row'])
            nontrivial.add(g)
            if so[3] != so[4] and not allowed(w):
                strdiff += 1
        if model is not None and canon_pair(g, model[i]) != model[i] and len(diffs) < 20:
            diffs.append((i, mops[i], g, model[i]))

    # ---- 1b. the mechanically translated argument decoders / predicates (Gen/A64Args) against the real functions, and the
    #          oracle-free model `decodeFull` against the real Decode
    kinds_used = sorted({k for r in rows for k in r['args'] if k})
    by_kind = {}
    for r in rows:
        for k in r['args']:
            if k:
                by_kind.setdefault(k, []).append(r)
    per = 30 if tier == 'quick' else 400
    aops = []
    for k in kinds_used + [0, 9999]:
        for j in range(per):
            if k in by_kind and j % 4 != 3:
                r = by_kind[k][j % len(by_kind[k])]
                free = [b for b in range(32) if not (r['mask'] >> b) & 1]
                w = r['value'] | deposit(free, rng.next())
            else:
                w = rng.next() & M32
            aops.append(f'c17.arg {k} {w:#010x}')
    cops = []
    for r in rows:
        if r.get('cname', '-') != '-':
            free = [b for b in range(32) if not (r['mask'] >> b) & 1]
            for j in range(per * 2):
                cops.append(f'c17.cond {r["cname"]} {(r["value"] | deposit(free, rng.next())) & M32:#010x}')
            for p in patterns(len(free))[:80]:
                cops.append(f'c17.cond {r["cname"]} {(r["value"] | deposit(free, p)) & M32:#010x}')
    tops = list(dict.fromkeys(aops + cops))
    timpl = run_lines(bins[0], 'TestVerifC17', tops, 'c17.args')
    tmodel, _ = run_model(tops, 'c17.args')
    tdiffs, tbad, tuntr = [], [], 0
    tdist = {}
    for i, op in enumerate(tops):
        a, b = timpl[i], (tmodel[i] if tmodel else None)
        tdist[a] = tdist.get(a, 0) + 1
        if a and a.startswith('panic'):
            tbad.append((op, a))
        if b == 'untranslated':
            tuntr += 1
        elif tmodel is not None and a != b and len(tdiffs) < 20:
            tdiffs.append((i, op, a, b))
    for op, a in tbad[:2]:
        out.violation(f'{op}: the real function panicked: {a}', {'kind': 'impl-oracle', 'ops': [op], 'observed': a})
    fmops = [m.replace('c17.dec', 'c17.full', 1) for m in mops]
    fmodel, _ = run_model(fmops, 'c17.full')
    fdiffs = []
    if fmodel is not None:
        for i, w in enumerate(wl):
            g = (impl[i] or '').split(' ## ')[0]
            if canon_pair(g, fmodel[i]) != fmodel[i] and len(fdiffs) < 20:
                fdiffs.append((i, fmops[i], g, fmodel[i]))

    # ---- 2. scans of func_arm64.go (re-hosted) vs model vs the python statement of what they should return
    # word population: a seeded sample over ALL lanes (any instruction the reference decodes, B/BL excluded) and any word it rejects
    refop = {}
    for i, w in enumerate(wl):
        so = split_obs(impl[i])
        if so and so[1]['state'] == 'ok':
            refop[w] = so[1].get('op')
    cand = [w for w in wl if refstate.get(w) and not any(w & m == v for m, v in CALL.values()) and not allowed(w)]
    und = [w for w in wl if refstate.get(w) is False and not allowed(w)]
    plain = [cand[rng.below(len(cand))] for _ in range(4000)] if cand else []
    undec = [und[rng.below(len(und))] for _ in range(500)] if und else []
    sops, simpl, smodel, sbad, sdiffs, unmod = [], [], None, [], [], 0
    pops, pimpl, pbad = [], [], []
    if not (plain and undec):
        raise C.Infra('scan lane has no words to build code sequences from (line mode produced no decodable / no rejected words)')
    sops = gen_scans(tier, rng, plain, undec)
    sops += [o.replace('c17.size ', 'c17.size2 ', 1) for o in sops if o.startswith('c17.size ')][: (300 if tier == 'quick' else 4000)]
    # reference decodability of every word that occurs in a scan and was not seen in line mode (the synthesised B/BL words): ONE probe run
    need = sorted({w for op in sops for w in scan_words(op)} - set(refstate))
    if need:
        for w, obs in zip(need, run_lines(bins[0], 'TestVerifC17', [f'c17.dec {w:#010x}' for w in need], 'c17.refq')):
            so = split_obs(obs)
            refstate[w] = bool(so and so[1]['state'] == 'ok')
            if refstate[w]:
                refop[w] = so[1].get('op')
    ref_ok = lambda w: refstate.get(w, False)
    simpl = run_lines(bins[1], 'TestVerifC17Func', sops, 'c17.scan')
    smodel, derr2 = run_model(sops, 'c17.scan')
    for i, op in enumerate(sops):
        ws = scan_words(op)
        if op.startswith('c17.inner'):
            want = spec_inner(ws, ref_ok)
        elif op.startswith('c17.size2'):
            z = spec_size(ws, ref_ok)
            want = f'{z} again={z.split("=")[1]} cached=True'.replace('True', 'true')
        else:
            want = spec_size(ws, ref_ok)
        if simpl[i] != want:
            sbad.append((op, simpl[i], want))
        if smodel is not None:
            if smodel[i] == 'unmodelled':
                unmod += 1
            elif smodel[i] != simpl[i] and len(sdiffs) < 20:
                sdiffs.append((i, op, simpl[i], smodel[i]))
    for op, got, want in sbad[:2]:
        short = op if len(op) < 400 else op[:400] + ' …'
        out.violation(f'{short}: scan returned {got}, the extent/wrapper rule gives {want}',
                      {'kind': 'impl-oracle-scan', 'ops': [op], 'observed': got, 'expected': want})
    if smodel is not None and sops and unmod > 0.2 * len(sops):
        raise C.Infra(f'{unmod} of {len(sops)} scan operations are outside the model: the scan correspondence lane is not exercising anything')

    # ---- 2b. PrintInstf (func_arm64.go:70, the one place goom prints a decoded instruction): byte strings of every length residue,
    #          the lines it logs must name, per word, the reference's opcode and the word's bytes; never a panic
    for _ in range(400 if tier == 'quick' else 6000):
        n = 1 + rng.below(12)
        ws = [plain[rng.below(len(plain))] if rng.below(5) else undec[rng.below(len(undec))] for _ in range(n)]
        nb = max(0, 4 * n - rng.below(5)) if rng.below(3) else 4 * n
        pops.append(f'c17.print {nb} ' + ' '.join(f'{w:#010x}' for w in ws))
    pops += ['c17.print 0 0xd503201f', 'c17.print 3 0xd503201f', 'c17.print 16 0xd503201f 0xd503201f 0xd503201f 0xd503201f',
             'c17.print 17 0xd503201f 0xd503201f 0xd503201f 0xd503201f 0xd65f03c0']
    pimpl = run_lines(bins[1], 'TestVerifC17Func', pops, 'c17.print')
    for op, got in zip(pops, pimpl):
        t = op.split()
        nb, ws = int(t[1]), [int(x, 16) for x in t[2:]]
        exp = []
        for pos in range(0, nb, 4):
            w = ws[pos // 4]
            if nb - pos < 4 or not ref_ok(w):
                exp.append(f'{pos}=err')
            else:
                exp.append(f'{pos}={refop.get(w)}/{w.to_bytes(4, "little").hex()}')
        want = 'printed:' + (','.join(exp) if exp else '-')
        if got != want:
            pbad.append((op, got, want))
    for op, got, want in pbad[:2]:
        out.violation(f'{op}: PrintInstf logged `{got}`, expected `{want}`', {'kind': 'impl-oracle-print', 'ops': [op], 'observed': got, 'expected': want})

    # ---- 2c. Decode on fewer than four bytes
    shops = [f'c17.short {w:#010x} {n}' for w in (FIXED[:12] + plain[:20]) for n in range(4)]
    shimpl = run_lines(bins[0], 'TestVerifC17', shops, 'c17.short')
    shmodel, _ = run_model(shops, 'c17.short')
    shbad = [(op, a) for op, a in zip(shops, shimpl) if a != 'err:short']
    for op, a in shbad[:2]:
        out.violation(f'{op}: Decode on a truncated slice returned `{a}`, the property wants the truncation error', {'kind': 'impl-oracle', 'ops': [op], 'observed': a})
    shdiffs = [(op, a, b) for op, a, b in zip(shops, shimpl, shmodel or []) if a != b]

    # ---- 2d. the FIRST Decode calls of a fresh process made by many goroutines at once (lazy initialisation must not be observable)
    byrow = {}
    for i, w in enumerate(wl):
        g = (impl[i] or '').split(' ## ')[0]
        if g.startswith('row=') and not allowed(w):
            byrow.setdefault(gfields(g)['row'], w)
    fwords = list(byrow.values())
    fops = [f'c17.dec {w:#010x}' for w in fwords]
    fresh_runs, fresh_bad = (16 if tier == 'quick' else 200), []
    fp = os.path.join(C.BUILD, 'c17.fresh.ops')
    open(fp, 'w').write('\n'.join(fops) + '\n')
    for k in range(fresh_runs):
        fo = os.path.join(C.BUILD, 'c17.fresh.out')
        rc, log = run_probe(bins[0], 'TestVerifC17Fresh', fp, fo, env={'VERIF_C17_G': str(16 + 16 * (k % 3))})
        if rc != 0:
            fresh_bad.append(f'process died: {log[-300:]}')
            continue
        line = (C.read_indexed(fo, 1)[0] or '')
        if ' mismatches=0' not in line:
            fresh_bad.append(line or 'no observation')
    if fresh_bad:
        out.violation('concurrent first use: ' + fresh_bad[0][:400], {'kind': 'fresh-concurrent', 'ops': fops, 'observed': fresh_bad[:5],
                      'runs': fresh_runs, 'bad_runs': len(fresh_bad), 'how': 'python3 check.py C17 --replay <this file>  (runs 40 fresh processes)'})

    # ---- 3. sweep (execution, not proof)
    segs, seg_text = sweep_segments(tier, rng)
    # quick: every table row whose encoding space is ≤ 2^17 words is enumerated COMPLETELY; so is every row whose argument decoders,
    # predicate or operand printing differ from the reference's source in a way not in the reviewed baseline (static diff, see source_diff)
    guided, srcsum = source_diff(rows)
    rowsweep, rw_words = [], 0
    if tier == 'quick':
        for r in rows:
            fb = 32 - bin(r['mask']).count('1')
            if fb <= 17:
                rowsweep.append((r['mask'], r['value']))
                rw_words += 1 << fb
    cap = (96 << 20) if tier == 'quick' else (1 << 40)
    gskipped = 0
    for r in guided:
        fb = 32 - bin(r['mask']).count('1')
        if (r['mask'], r['value']) in rowsweep:
            continue
        if tier == 'thorough':
            continue            # the complete sweep covers it
        if rw_words + (1 << fb) > cap:
            gskipped += 1
            continue
        rowsweep.append((r['mask'], r['value']))
        rw_words += 1 << fb
    srcsum['guided_rows_not_swept_completely(budget)'] = gskipped
    # the thorough tier is EXHAUSTIVE or it fails: no silent time cut-off (an explicit VERIF_C17_BUDGET_S turns it into a sample and the
    # evidence then says so)
    user_budget = os.environ.get('VERIF_C17_BUDGET_S')
    budget = int(user_budget) if user_budget else (6 * 3600 if tier == 'thorough' else 1800)
    sweep_crash = None
    try:
        sw = run_sweep(bins[0], segs, strcmp=(tier == 'quick'), budget_s=budget, rows=rowsweep)
    except C.Infra as e:
        # the process died (a Go `fatal error`, e.g. concurrent map writes inside Decode, cannot be recovered): look for a concrete word
        # with a single worker on a thinner sweep; if that passes, the crash itself is reported (no failing input)
        sweep_crash = str(e)
        sw = run_sweep(bins[0], [(lo, hi, st * 16) for lo, hi, st in segs], strcmp=False, budget_s=budget, workers=1)
    if not sw.get('Complete') and not user_budget and not sweep_crash:
        raise C.Infra(f'the sweep did not complete ({sw["JobsDone"]} of {sw["JobsTotal"]} blocks in {budget} s): the tier would not cover what it advertises')
    if sw['Words'] < (1 << 20):
        raise C.Infra(f'the sweep executed only {sw["Words"]} words')
    sweep_bad = []
    for key, what in (('Panic', 'Decode or Inst.String() panicked'), ('DiffDecodable', 'decodability differs from the reference'),
                      ('DiffOp', 'opcode differs from the reference'), ('DiffPcrel', 'PC-relative displacement differs from the reference')):
        for s in (sw.get(key) or [])[:40]:
            sweep_bad.append((int(s.split()[0], 16), what, s))
    if sweep_bad and not bad:
        # re-run the offending words in line mode so that the replay is self-contained
        ww = list(dict.fromkeys(w for w, _, _ in sweep_bad))[:20]
        o2, m2, i2, mod2, _ = execute_words(bins, ww, 'c17.sweepbad')
        shown = 0
        for w, op, obs in zip(ww, o2, i2):
            why = oracle_word(w, obs)
            if why and shown < 3:
                shown += 1
                out.violation(f'{op}: {why}', {'kind': 'impl-oracle', 'ops': [op], 'observed': obs, 'why': why, 'found_by': 'sweep'})
        if shown == 0:
            out.violation(f'sweep reported {sweep_bad[0][1]} for {sweep_bad[0][2]} but line mode does not reproduce it',
                          {'kind': 'sweep', 'ops': o2, 'sweep': sweep_bad[:10]}, no_failing_input=True)

    # ---- 4. correspondence / proof status when the oracle found nothing
    if not out.violations:
        if sweep_crash:
            out.violation('the sweep process was killed by the Go runtime while several goroutines called Decode (a fatal error is not recoverable); '
                          'a single-threaded sweep of the same ranges passes', {'kind': 'sweep-crash', 'error': sweep_crash[-3000:],
                          'broken': 'Decode is not safe to call concurrently / kills the process'}, no_failing_input=True)
        elif diffs:
            i, op, a, b = diffs[0]
            out.violation(f'real decoder and model disagree on `{op}`: impl `{a}` model `{b}`',
                          {'kind': 'correspondence', 'ops': [ops[i]], 'impl': a, 'model': b, 'n_disagreements_shown': len(diffs),
                           'broken': 'Model/A64Dec.lean (first-match search / interpreted argument decoders) vs arm64asm.Decode'}, no_failing_input=True)
        elif tdiffs:
            i, op, a, b = tdiffs[0]
            out.violation(f'translated argument decoder / predicate disagrees with the real function on `{op}`: impl `{a}` translation `{b}`',
                          {'kind': 'correspondence', 'ops': [op], 'impl': a, 'model': b, 'broken': 'tools/a64args translation (Gen/A64Args.lean) vs decodeArg / canDecode',
                           'n_disagreements_shown': len(tdiffs)}, no_failing_input=True)
        elif fdiffs:
            i, op, a, b = fdiffs[0]
            out.violation(f'real decoder and the oracle-free model disagree on `{op}`: impl `{a}` model `{b}`',
                          {'kind': 'correspondence', 'ops': [ops[i]], 'impl': a, 'model': b, 'broken': 'A64Dec.decodeFull (table + translated decoders) vs arm64asm.Decode',
                           'n_disagreements_shown': len(fdiffs)}, no_failing_input=True)
        elif shdiffs:
            op, a, b = shdiffs[0]
            out.violation(f'Decode on a short slice and the model disagree on `{op}`: impl `{a}` model `{b}`',
                          {'kind': 'correspondence', 'ops': [op], 'impl': a, 'model': b, 'broken': 'A64Dec.decodeSrc vs arm64asm.Decode'}, no_failing_input=True)
        elif sdiffs:
            i, op, a, b = sdiffs[0]
            out.violation(f'func_arm64.go scan and model disagree: impl `{a}` model `{b}`',
                          {'kind': 'correspondence', 'ops': [op], 'impl': a, 'model': b, 'broken': 'A64Dec.getInnerFunc/getFuncSize vs func_arm64.go'},
                          no_failing_input=True)
        elif not proof['ok']:
            out.violation('proof obligations of Props/C17.lean no longer check against the regenerated table and no failing input was found',
                          {'kind': 'proof', 'broken': proof['failed'], 'searched_words': len(wl) + sw['Words'], 'output': proof.get('output', '')[-3000:]},
                          no_failing_input=True)

    exhaustive = tier == 'thorough' and sw.get('Complete', False) and sw['Words'] >= 1 << 32 and not user_budget and not sweep_crash
    out.coverage = {
        'obligations': proof['obligations'], 'discharged': proof['discharged'],
        'checker_cmd': ' ; '.join(proof['cmds']),
        'trusted_base': ['Lean 4.33 kernel', 'axioms: ' + ', '.join(sorted({a for v in proof['axioms'].values() for a in v}) or ['none']),
                         'table dumper harness/c17/dump_probe_test.go + tools/a64table.py (the compiled instFormats, printed by an in-package probe)',
                         'hand transcription of 22 argument decoders and of the two func_arm64.go scans (validated against the real code on every evaluation below)',
                         'reference: toolchain copy of golang.org/x/arch/arm64/arm64asm',
                         'NOT proved: totality of the ~290 other argument decoders, the canDecode predicates and Inst.String(): executed only (sweep)'],
        'theorems': proof['axioms'], 'proof_failures': proof['failed'],
        'evaluations': len(wl) + len(sops) + len(tops) + len(pops) + len(shops) + fresh_runs * len(fops) + sw['Words'],
        'distinct_nontrivial': len(nontrivial) + sum(1 for x in simpl if x and x.startswith('target=')),
        'traces_validated_against_impl': (len(wl) - len(diffs) if model is not None else 0) + (len(wl) - len(fdiffs) if fmodel is not None else 0) +
                                         (len(tops) - tuntr - len(tdiffs) if tmodel is not None else 0) + (len(sops) - unmod - len(sdiffs) if smodel is not None else 0),
        'exhaustive': exhaustive,
        'rule': 'line mode: one evaluation = one instruction word through goom Decode+String, the reference decoder and the model (under the oracle '
                'admitting the row the real decoder chose); non-trivial = distinct successful decode observation (row, op, interpreted args). '
                'scan: one evaluation = one code sequence through the re-hosted GetInnerFunc/GetFuncSize. sweep: one evaluation = one word through '
                'goom Decode+String and the reference, compared on decodability, opcode, every PCRel argument. The sweep is exhaustive execution '
                '(a test), not a proof.',
        'distribution': {
            'table_rows': nrows, 'gen_table_changed_this_run': changed, 'line_mode_words': len(wl), 'lanes': lanes,
            'table_rows_hit_by_real_decoder': len(rows_hit),
            'table_rows_never_chosen(shadowed, or canDecode always false)': sorted(set(range(nrows)) - {int(x) for x in rows_hit})[:64], 'line_mode_decodable': sum(1 for x in impl if x and x.startswith('row=')),
            'line_mode_string_text_differs_from_reference(not part of the property)': strdiff,
            'translator(a64args)': dict(args_summ, gen_changed_this_run=args_changed),
            'translated_fn_ops(real decodeArg / canDecode vs Gen.A64Args)': {'ops': len(tops), 'arg_ops': len(aops), 'cond_ops': len(cops), 'kinds': len(kinds_used),
                                                                             'outcomes': tdist, 'untranslated_skipped': tuntr, 'disagreements': len(tdiffs)},
            'oracle_free_model_vs_real_decoder': {'words': len(wl), 'disagreements': len(fdiffs)},
            'source_diff_vs_reference': srcsum,
            'rows_swept_completely': {'rows': len(rowsweep), 'words': rw_words},
            'print_ops(PrintInstf)': {'ops': len(pops), 'bad': len(pbad)}, 'short_src_ops': len(shops),
            'fresh_process_concurrent_first_use': {'processes': fresh_runs, 'words_per_goroutine': len(fops), 'goroutines': '16/32/48', 'bad_runs': len(fresh_bad)},
            'scan_word_population': {'decodable_candidates': len(cand), 'rejected_candidates': len(und)},
            'scan_ops': len(sops), 'scan_unmodelled(skipped in model comparison)': unmod,
            'scan_results': {k: sum(1 for x in simpl if x and x.split('=')[0] == k) for k in ('target', 'zero', 'err', 'size')},
            'sweep': {'segments': seg_text, 'words': sw['Words'], 'complete': sw.get('Complete'), 'fraction_of_2^32': round(sw['Words'] / (1 << 32), 4),
                      'budget_note': 'no time cut-off by default: an incomplete sweep is a machinery error; an explicit VERIF_C17_BUDGET_S makes the thorough tier a sample (exhaustive: false)', 'wall_s': sw['wall_s'], 'goom_decodable': sw['GoomOK'],
                      'ref_decodable': sw['RefOK'], 'both_reject': sw['BothErr'], 'sys_alias_words(allowed difference)': sw['Allowed'],
                      'sys_alias_words_that_differ': sw['AllowedDiff'], 'words_with_pcrel': sw['PcrelWords'], 'pcrel_ops': sw['Ops'],
                      'string_compared': sw['StrCompared'], 'string_text_differs(not part of the property)': sw['StrDiff'],
                      'string_diff_samples': (sw.get('StrDiffSamples') or [])[:3], 'panics': len(sw.get('Panic') or []),
                      'reference_panics': len(sw.get('RefPanic') or [])},
        },
        'samples': [{'op': mops[i], 'impl': impl[i], 'model': model[i] if model else None} for i in (0, len(ops) // 3, len(ops) // 2, len(ops) - 1)] +
                   [{'op': sops[i][:200], 'impl': simpl[i], 'model': smodel[i] if smodel else None} for i in ((0, len(sops) // 2) if sops else ())],
    }
    out.assumptions = ['arm64 code cannot execute here: decoder and scans run as pure Go on amd64, func_arm64.go re-hosted as source',
                       'reference decoder = toolchain copy of x/arch arm64asm', 'SYS-alias space (AT/DC/IC/TLBI) excluded from the agreement clause']
    return out.finish()


_extra_ref = {}


def known_ok_full(ws, refstate, bins):
    """reference decodability for every word of a scan sequence (asks the line-mode probe for words not seen yet)"""
    need = [w for w in dict.fromkeys(ws + [0]) if w not in refstate and w not in _extra_ref]
    if need:
        impl = run_lines(bins[0], 'TestVerifC17', [f'c17.dec {w:#010x}' for w in need], 'c17.refq')
        for w, obs in zip(need, impl):
            so = split_obs(obs)
            _extra_ref[w] = bool(so and so[1]['state'] == 'ok')
    return lambda w: refstate[w] if w in refstate else _extra_ref.get(w, False)


def replay(body):
    bins = build_probes()
    ops = body.get('ops', [])
    rc = 0
    if body.get('kind') == 'fresh-concurrent':
        fp = os.path.join(C.BUILD, 'c17-replay.fresh.ops')
        open(fp, 'w').write('\n'.join(ops) + '\n')
        nbad = 0
        for k in range(40):
            fo = os.path.join(C.BUILD, 'c17-replay.fresh.out')
            rcp, log = run_probe(bins[0], 'TestVerifC17Fresh', fp, fo, env={'VERIF_C17_G': str(16 + 16 * (k % 3))})
            line = (C.read_indexed(fo, 1)[0] or '') if rcp == 0 else 'process died: ' + log[-200:]
            if ' mismatches=0' not in line:
                nbad += 1
                if nbad <= 3:
                    print('  ' + line[:400])
        print(f'fresh-process concurrent first use: {nbad} of 40 processes saw a decode that differs from the sequential answer')
        return 1 if nbad else 0
    wops = [o for o in ops if o.startswith('c17.dec')]
    if wops:
        ww = [int(o.split()[1], 16) for o in wops]
        o2, m2, impl, model, _ = execute_words(bins, ww, 'c17-replay')
        for w, op, obs, i in zip(ww, m2, impl, range(len(ww))):
            why = oracle_word(w, obs)
            g = (obs or '').split(' ## ')[0]
            md = model[i] if model else None
            print(f'{op}\n  impl : {obs}\n  model: {md}\n  oracle: {why or "ok"}')
            if why or (md is not None and canon_pair(g, md) != md):
                rc = 1
    tops = [o for o in ops if o.startswith('c17.arg') or o.startswith('c17.cond')]
    if tops:
        timpl = run_lines(bins[0], 'TestVerifC17', tops, 'c17-replay.args')
        tmodel, _ = run_model(tops, 'c17-replay.args')
        for i, op in enumerate(tops):
            md = tmodel[i] if tmodel else None
            print(f'{op}\n  impl : {timpl[i]}\n  translation: {md}')
            if (timpl[i] or '').startswith('panic') or (md not in (None, 'untranslated') and md != timpl[i]):
                rc = 1
    pops = [o for o in ops if o.startswith('c17.print') or o.startswith('c17.short')]
    if pops:
        pi = run_lines(bins[1], 'TestVerifC17Func', pops, 'c17-replay.print') if pops[0].startswith('c17.print') else run_lines(bins[0], 'TestVerifC17', pops, 'c17-replay.short')
        for op, got in zip(pops, pi):
            print(f'{op[:300]}\n  impl : {got}\n  expected: {body.get("expected", "err:short")}')
            if got != body.get('expected', 'err:short'):
                rc = 1
    sops = [o for o in ops if o.startswith('c17.inner') or o.startswith('c17.size')]
    if sops:
        simpl = run_lines(bins[1], 'TestVerifC17Func', sops, 'c17-replay.scan')
        smodel, _ = run_model(sops, 'c17-replay.scan')
        for i, op in enumerate(sops):
            ws = scan_words(op)
            ok = known_ok_full(ws, {}, bins)
            want = spec_inner(ws, ok) if op.startswith('c17.inner') else spec_size(ws, ok)
            if op.startswith('c17.size2'):
                want = f'{want} again={want.split("=")[1]} cached=true'
            print(f'{op[:300]}\n  impl : {simpl[i]}\n  model: {smodel[i] if smodel else None}\n  expected: {want}')
            if simpl[i] != want or (smodel and smodel[i] not in ('unmodelled', simpl[i])):
                rc = 1
    return rc


def regen_setup():
    changed, nrows, info = a64table.regen()
    regen_args()
    return nrows, changed
