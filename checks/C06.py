"""C06 — method mocks replace exactly the named method, for every instance.

Proof side: Props/C06.lean over Model/Method.lean (name construction, bracket rule, exact lookup over a symbol table
that is a parameter, builder caches, patch list, histories).  Tie X: a generated corpus of struct types (value and
pointer receivers, exported/unexported methods, prefix-related names, unexported types addressed by package+name,
same-named types in same-named packages, generic types instantiated at equal and different GC shapes) is compiled
as virtual packages into the goom module (go test -overlay), every history of builder calls is executed by the real
goom code, every method of every type is called on three instances before / during / after, and the same line is
answered by the Lean model (`goomdrv`), whose symbol table is the real one of the probe binary (`go tool nm`).
The oracle below states the property on the implementation's observations without the model.
"""
import collections
import os
import re
import shutil
import subprocess

from vlib import common as C

META = {
    'property_id': 'C06',
    'technique': 'Lean 4 theorems (name injectivity, exact lookup, cache soundness, last-writer/isolation by induction over '
                 'all builder histories incl. kept handles re-armed after Cancel/Reset, receiver = argument 0, refinement of the '
                 'patch-level model by the handle-level model) about a hand model of goom\'s method-mocking path, tied to the code '
                 'by differential execution of generated multi-step histories on a generated type corpus against the real binary symbol table',
    'level': 'proof',
    'level_text': 'Partial: proved for every symbol table, method set, history and receiver value that (1) the symbol names goom builds '
                  '(typeName + bracket rule + objName; ExportStruct) equal the linker form pkg.T.m / pkg.(*T).m and are injective in '
                  '(package, type, pointer?, method), so prefix-named methods, T/T2, equal names in other packages and different generic '
                  'shapes never collide; (2) lookup is exact-or-error; (3) the per-builder caches never hand out another type\'s mocker; '
                  '(4) after any history a method runs the callback of the last step that named exactly its code and every method no step '
                  'named keeps its original behaviour; (5) a mocked method enters the callback with the caller\'s receiver as argument 0 for '
                  'every instance; (6) for every history of the handle-level model (kept Struct(..).Method / ExportMethod / ExportStruct(..).Method '
                  'handles with Apply, Return, Returns, When..Return, As(..).Return, Cancel, re-arming, Reset) a method no lookup names is never '
                  'patched, Apply on a handle hits exactly its target, and on one-shot histories the handle-level model refines the patch-level one; '
                  '(7) a guard created with patch.InstanceMethod installs the callback given at creation whatever other guards are created in between; '
                  '(8) GetInnerFunc over an instruction list returns the first CALL that leaves the wrapper. '
                  'Observed, not proved: the linker\'s naming, reflect\'s method table, compiler wrappers / shape bodies / '
                  'devirtualisation, register preservation by the entry jump.',
    'level_note': 'Promoted methods of embedded structs are mocked through the outer type and called through its method set (a real '
                  'interface call); "method m of Outer" is the compiler-generated wrapper pkg.(*Outer).m, and a direct call o.m() is a call of '
                  'the embedded type\'s method (Go semantics; the wrapper falling through to the base method is observed, `callVia`). '
                  'Corpus obeys the README rule that the instance handed to Struct() has the receiver kind of the method (a value method '
                  'mocked through a pointer instance only patches the (*T).m wrapper). Instantiations of EQUAL GC shape share one body, so '
                  'mocking one mocks the other (the property only excludes different shapes). Known gaps recorded as findings: unexported '
                  'methods of generic instantiations cannot be mocked by name (C06-K1; histories that patch a generic wrapper by name and then mock the same method via Method() are checked by the oracle only, the model does not cover a patched wrapper). Since fix 79126f8 the callback of a generic method is called through an '
                  'adapter that drops the dictionary word: receiver AND arguments are checked exactly for generic instances too (register, stack-passed, '
                  'variadic and float parameters; big by-value receivers need repair F27). Origin(&placeholder) is exercised for ordinary types only '
                  '(a placeholder for a shape body would be entered without dictionary). Build uses -gcflags=all=-l.',
}

BASE = 'github.com/tencent/goom/internal/zzverif/c06'
VBASE = 'internal/zzverif/c06'
PKGS = {  # key -> (path, package name, import alias in the probe)
    'pa': (BASE + '/pa', 'pa', None),
    'xu': (BASE + '/x/util', 'util', 'xutil'),
    'yu': (BASE + '/y/util', 'util', 'yutil'),
    'ab': (BASE + '/a_b', 'a_b', 'pab'),
    'a': (BASE + '/a', 'a', 'pa2'),
    'yv': (BASE + '/y.v2', 'v2', 'yv2'),      # a dot in the last path element: the linker escapes it (y%2ev2)
}
PKGDIR = {'pa': 'pa', 'xu': 'x/util', 'yu': 'y/util', 'ab': 'a_b', 'a': 'a', 'yv': 'y.v2'}
LAYOUTS = {
    0: ('A int64', lambda a: f'A: {a}'),
    1: ('A int64; B string', lambda a: f'A: {a}, B: "s{a}"'),
    2: ('A int64; B string; C [3]int64; D float64', lambda a: f'A: {a}, B: "t{a}", C: [3]int64{{{a}, 2, 3}}, D: 1.5'),
    3: ('A int32; B int8; C int64', lambda a: f'A: {a}, B: 7, C: {a}9'),
    4: ('', lambda a: ''),
}
PARAMS = {0: ('', ''), 1: ('x int64', 'w.WantX'), 2: ('x int64, s string', 'w.WantX, w.WantS'),
          3: ('a [4]int64, b [4]int64', 'w.WantArr, w.WantArr2'),   # kind 3: stack-passed arguments
          4: ('c [16]int64', 'w.WantArr16'),                        # kind 4: big enough for runtime.duffcopy in a wrapper
          5: ('xs ...int64', 'w.WantX, w.WantX + 1'),               # kind 5: variadic
          6: ('f float64, x int64', 'w.WantF, w.WantX')}            # kind 6: a float register parameter in front of an integer one
NAMEPOOL = ['Get', 'GetX', 'GetXY', 'get', 'getX', 'Set', 'Se', 'set', 'G', 'g', 'Value', 'Val', 'value', 'M', 'm', 'mm', 'Getx', 'gET']
UNEXP_TYPES = ['t', 't2', 'tt', 'conn', 'conn2', 'connX', 'c', 'impl', 'implA', 'node', 'nodeList', 'n', 'state', 'st', 'e0', 'eE']
GEN_ARGS = [  # Go type argument, reflect spelling, shape
    ('int', 'int', 'go.shape.int'),
    ('MyInt', BASE + '/pa.MyInt', 'go.shape.int'),
    ('int64', 'int64', 'go.shape.int64'),
    ('string', 'string', 'go.shape.string'),
    ('*E0', '*' + BASE + '/pa.E0', 'go.shape.*uint8'),
    ('*E1', '*' + BASE + '/pa.E1', 'go.shape.*uint8'),
    ('uint8', 'uint8', 'go.shape.uint8'),
    ('MyStr', BASE + '/pa.MyStr', 'go.shape.string'),
]


# ------------------------------------------------------------------ corpus

class Ty:
    def __init__(self, pk, name, layout, methods, generic=None, embeds=None, outer=None):
        self.pk, self.name, self.layout, self.methods, self.generic = pk, name, layout, methods, generic
        self.embeds = embeds      # outer type: (base type name, 'A' | 'B' shape of the outer struct)
        self.outer = outer        # base type: an outer type through which its methods are also called directly
        self.exported = name[0].isupper()


def gen_corpus(tier, rng):
    """Returns (types, entries).  entries: list of dicts id,pk,pkg,T(reflect name),go(Go spelling),ptr,m,np,shape,K,layout,exported_type,generic"""
    n_exp, n_unexp, n_gen, n_inst = (22, 10, 3, 6) if tier == 'quick' else (40, 16, 4, 8)
    types = []

    def methods_for(policy, k):
        names = []
        pool = list(NAMEPOOL)
        # always include a prefix chain
        chain = rng.choice([['Get', 'GetX'], ['get', 'getX'], ['Se', 'Set'], ['m', 'mm'], ['G', 'Get'], ['Val', 'Value']])
        for nm in chain:
            names.append(nm)
        while len(names) < k:
            nm = rng.choice(pool)
            if nm not in names:
                names.append(nm)
        ms = []
        for nm in names:
            ptr = {'val': False, 'ptr': True}.get(policy)
            if ptr is None:
                ptr = rng.chance(1, 2)
            ms.append((nm, ptr, rng.below(4)))
        return ms

    for i in range(n_exp):
        lay = i % 5
        ms = methods_for(['val', 'ptr', 'mix'][i % 3], 4 + rng.below(3))
        if lay == 4:  # empty struct: keep bodies long enough for the 13-byte jump
            ms = [(nm, p, max(np_, 1)) for nm, p, np_ in ms]
        types.append(Ty('pa', f'E{i}', lay, ms))
    for i in range(n_unexp):
        lay = (i + 1) % 4
        types.append(Ty('pa', UNEXP_TYPES[i % len(UNEXP_TYPES)] + ('' if i < len(UNEXP_TYPES) else str(i)), lay,
                        methods_for(['ptr', 'val', 'mix'][i % 3], 4)))
    for pk in ('xu', 'yu'):
        for i in range(4):
            types.append(Ty(pk, f'T{i}', i % 4, [('Get', i % 2 == 1, 0), ('GetX', i % 2 == 1, 1), ('get', i % 2 == 1, 1), ('Set', True, 2)]))
        for i in range(3):
            types.append(Ty(pk, ['u', 'u2', 'uu'][i], i % 4, [('m', True, 1), ('mm', True, 0), ('v', False, 1), ('M', i == 1, 0)]))
    for i in range(2):
        types.append(Ty('yv', f'T{i}', i, [('Get', i == 1, 0), ('get', i == 1, 1), ('Set', True, 2), ('set', True, 0)]))
    types.append(Ty('yv', 'u', 1, [('m', True, 1), ('v', False, 0)]))
    types.append(Ty('ab', 'T', 1, [('m', False, 1), ('M', False, 0), ('p', True, 1)]))
    types.append(Ty('a', 'b_T', 1, [('m', False, 1), ('M', False, 0), ('p', True, 1)]))
    gens = []
    for g in range(n_gen):
        gm = [('Get', True, 0), ('GetX', True, 1), ('Val', False, 0), ('get', True, 0), ('Value', False, 2 if g % 2 else 1),
              ('Big', True, 3), ('BigV', False, 3), ('Var', True, 5), ('Flt', g % 2 == 0, 6)]      # stack-passed arguments: the CALL sits far into the instantiation wrapper
        gens.append((f'G{g}', gm, ''))
        for a in range(n_inst):
            go, refl, shape = GEN_ARGS[(a + g) % len(GEN_ARGS)] if tier != 'quick' else GEN_ARGS[a % len(GEN_ARGS)]
            types.append(Ty('pa', f'G{g}[{refl}]', 5, gm, generic=(f'G{g}', go, f'G{g}[{shape}]')))
    # generic types whose instantiation wrappers copy a big value receiver / parameter with runtime.duffcopy BEFORE calling the shape body
    for g in range(1 if tier == 'quick' else 2):
        gm = [('Get', True, 0), ('Val', False, 0), ('Arr', True, 4), ('ValX', False, 1)]
        gens.append((f'GB{g}', gm, 'Pad [16]int64'))
        for a in range(3 if tier == 'quick' else 5):
            go, refl, shape = GEN_ARGS[(a * 3 + g) % len(GEN_ARGS)]
            types.append(Ty('pa', f'GB{g}[{refl}]', 5, gm, generic=(f'GB{g}', go, f'GB{g}[{shape}]')))
    # embedding: a base struct with value and pointer methods, two different outer types sharing it
    for b in range(2 if tier == 'quick' else 4):
        bm = [('Name', True, 0), ('NameX', True, 1), ('Val', False, 0), ('name', True, 1), ('Big', True, 3), ('Value', False, 2)]
        types.append(Ty('pa', f'B{b}', b % 2, bm, outer=f'WA{b}'))
        types.append(Ty('pa', f'WA{b}', b % 2, [], embeds=(f'B{b}', 'A')))
        types.append(Ty('pa', f'WB{b}', b % 2, [], embeds=(f'B{b}', 'B')))
    entries = []
    byname = {}
    for t in types:
        for (m, ptr, np_) in t.methods:
            eid = len(entries)
            entries.append({'id': eid, 'pk': t.pk, 'pkg': PKGS[t.pk][0], 'T': t.name, 'ptr': ptr, 'm': m, 'np': np_,
                            'shape': t.generic[2] if t.generic else '-', 'K': 100000 + eid * 17, 'layout': t.layout,
                            'exported_type': t.exported, 'generic': t.generic, 'promoted': None, 'outer': t.outer,
                            'duff': bool(t.generic and t.generic[0].startswith('GB') and (not ptr or np_ == 4)),
                            'go': (f'{t.generic[0]}[{t.generic[1]}]' if t.generic else t.name)})
            byname[(t.pk, t.name, m)] = entries[-1]
        if t.embeds:
            # promoted methods: the method set of *Outer holds compiler-generated wrappers pkg.(*Outer).m, entered by interface
            # calls; mocking "method m of Outer" replaces exactly that wrapper.  Direct calls o.m() are calls of the base method.
            base = next(x for x in types if x.pk == t.pk and x.name == t.embeds[0])
            for (m, ptr, np_) in base.methods:
                if not m[0].isupper():
                    continue
                be = byname[(t.pk, base.name, m)]
                eid = len(entries)
                entries.append({'id': eid, 'pk': t.pk, 'pkg': PKGS[t.pk][0], 'T': t.name, 'ptr': True, 'm': m, 'np': np_, 'shape': '-',
                                'K': be['K'], 'layout': base.layout, 'exported_type': True, 'generic': None,
                                'promoted': (base.name, t.embeds[1]), 'base_id': be['id'], 'outer': None, 'go': t.name})
    return types, gens, entries


def sym_prefix(pkg):
    """cmd/internal/objabi.PathToPrefix: what the linker uses as the prefix of the package's symbols"""
    slash = pkg.rfind('/')
    return ''.join('%%%02x' % ord(c) if (ord(c) <= 32 or (c == '.' and i > slash) or c in '%"' or ord(c) >= 127) else c for i, c in enumerate(pkg))


def link_name(pkg, T, ptr, m):
    pkg = sym_prefix(pkg)
    return f'{pkg}.(*{T}).{m}' if ptr else f'{pkg}.{T}.{m}'


def call_sym(e):
    return link_name(e['pkg'], e['T'] if e['shape'] == '-' else e['shape'], e['ptr'], e['m'])


def go_type(e, frm):
    """Go spelling of e's receiver type as seen from package key `frm`."""
    if e['pk'] == frm:
        return e['go']
    return PKGS[e['pk']][2] + '.' + e['go']


def emit_sources(types, gens, entries, outdir):
    """Write the generated Go files; returns {virtual pkg dir: {file: real path}}."""
    shutil.rmtree(outdir, ignore_errors=True)
    files = collections.defaultdict(dict)
    by_pk = collections.defaultdict(list)
    for e in entries:
        by_pk[e['pk']].append(e)
    for pk, (path, pname, _) in PKGS.items():
        src = ['//go:build go1.18', '', f'package {pname}', '', 'import (', '\t"unsafe"', '', f'\t"{BASE}/w"', ')', '', 'var _ = unsafe.Pointer(nil)', '']
        if pk == 'pa':
            src += ['type MyInt int', 'type MyStr string', '']
            for gname, gm, extra in gens:
                src.append(f'type {gname}[T any] struct {{\n\tA int64\n\tV T\n\t{extra}\n}}\n')
                for (m, ptr, np_) in gm:
                    # K is per entry (instantiation); the body reads it from a per-instantiation table keyed by the dictionary-free
                    # receiver field KK, set by the call function
                    src.append(f'func (g {"*" if ptr else ""}{gname}[T]) {m}({PARAMS[np_][0]}) int64 {{ return g.A*1000003 + w.GenK{body_tail(np_)} }}')
                src.append('')
        done = set()
        for t in types:
            if t.pk != pk or t.generic:
                continue
            if t.name in done:
                continue
            done.add(t.name)
            if t.embeds:
                src.append(f'type {t.name} struct {{ Pad int64; {t.embeds[0]} }}' if t.embeds[1] == 'A' else
                           f'type {t.name} struct {{ {t.embeds[0]}; Tail string }}')
            else:
                src.append(f'type {t.name} struct {{ {LAYOUTS[t.layout][0]} }}')
            if t.outer:   # the method set through which promoted methods are called
                sigs = '; '.join(f'{m}({PARAMS[np_][0]}) int64' for (m, ptr, np_) in t.methods if m[0].isupper())
                src.append(f'type if{t.name} interface {{ {sigs} }}')
                for (m, ptr, np_) in t.methods:
                    if m[0].isupper():   # a real interface call (the caller cannot see the dynamic type, so no devirtualisation)
                        ps = PARAMS[np_][0]
                        an = ['', 'x', 'x, s', 'a, b'][np_]
                        src.append(f'func callIf{t.name}{m}(n if{t.name}{", " + ps if ps else ""}) int64 {{ return n.{m}({an}) }}')
        src.append('')
        for e in by_pk[pk]:
            if not e['generic'] and not e['promoted']:
                a = 'int64(t.A)*1000003 + ' if e['layout'] != 4 else ''
                src.append(f'func (t {"*" if e["ptr"] else ""}{e["T"]}) {e["m"]}({PARAMS[e["np"]][0]}) int64 {{ return {a}{e["K"]}{body_tail(e["np"], e["id"] % 3 == 1)} }}')
        src.append('')
        for e in by_pk[pk]:
            src.append(call_func(e))
        d = os.path.join(outdir, PKGDIR[pk])
        os.makedirs(d, exist_ok=True)
        fp = os.path.join(d, 'corpus_gen.go')
        open(fp, 'w').write('\n'.join(src) + '\n')
        files[f'{VBASE}/{PKGDIR[pk]}']['corpus_gen.go'] = fp
    # registry + mock closures (probe package pa, test file)
    reg = ['//go:build go1.18', '', 'package pa', '', 'import (', '\t"unsafe"', '', '\tmocker "github.com/tencent/goom"']
    for pk, (path, pname, alias) in PKGS.items():
        if alias:
            reg.append(f'\t{alias} "{path}"')
    reg += [f'\t"{BASE}/w"', ')', '', 'var _ = unsafe.Pointer(nil)', '']
    for pk, (path, pname, alias) in PKGS.items():
        if alias:
            first = next(e for e in by_pk[pk])
            reg.append(f'var _ = {alias}.CallE{first["id"]}')
    reg.append('')
    for e in entries:
        reg.append(mock_func(e))
    reg.append('var registry = []ent{')
    for e in entries:
        call = f'CallE{e["id"]}' if e['pk'] == 'pa' else f'{PKGS[e["pk"]][2]}.CallE{e["id"]}'
        reg.append(f'\t{{ID: {e["id"]}, Pkg: "{e["pkg"]}", T: "{e["T"]}", Ptr: {"true" if e["ptr"] else "false"}, M: "{e["m"]}", '
                   f'K: {e["K"]}, NP: {e["np"]}, Call: {call}, Look: lookE{e["id"]}, Cb: cbE{e["id"]}, StandIn: standInE{e["id"]}, '
                   f'Tmpl: {("tmplE%d" % e["id"]) if (e["pk"] == "pa" or e["exported_type"]) else "nil"}, '
                   f'Orig: {("origPtrE%d" % e["id"]) if has_origin(e) else "nil"}, CbO: {("cbOE%d" % e["id"]) if has_origin(e) else "nil"}}},')
    reg.append('}')
    d = os.path.join(outdir, 'pa')
    fp = os.path.join(d, 'reg_gen_test.go')
    open(fp, 'w').write('\n'.join(reg) + '\n')
    files[f'{VBASE}/pa']['reg_gen_test.go'] = fp
    files[f'{VBASE}/pa']['probe_test.go'] = os.path.join(C.HARNESS, 'c06', 'probe_test.go')
    files[f'{VBASE}/w']['w.go'] = os.path.join(C.HARNESS, 'c06', 'w', 'w.go')
    return dict(files)


def body_tail(np_, helper=False):
    """non-leaf variant: the multiplication goes through the (never inlined) helper w.Id, so the body contains a CALL"""
    if helper:
        return [' + w.Id(0)', ' + w.Id(x*31)', ' + w.Id(x*31) + int64(len(s))', ' + w.Id(a[0]*31) + b[3]', ' + w.Id(c[3]*31)',
                ' + w.Id(int64(len(xs))*31) + xs[0]', ' + w.Id(x*31) + int64(f*2)'][np_]
    return ['', ' + x*31', ' + x*31 + int64(len(s))', ' + a[0]*31 + b[3]', ' + c[3]*31', ' + int64(len(xs))*31 + xs[0]', ' + x*31 + int64(f*2)'][np_]


def inst_literal(e, a):
    if e['generic']:
        return f'{e["go"]}{{A: {a}}}'
    return f'{e["go"]}{{{LAYOUTS[e["layout"]][1](a)}}}'


def want_stmt(e, expr):
    """statements recording what the callback must see for receiver value `expr` (a struct value expression)"""
    if e['generic']:
        return f'w.WantA = {expr}.A'
    lay = e['layout']
    a = f'int64({expr}.A)' if lay != 4 else '0'
    return f'w.Want{lay} = w.Lay{lay}({expr}); w.WantA = {a}'


def outer_literal(outer, shape, base, lay, a, pad):
    inner = f'{base}{{{LAYOUTS[lay][1](a)}}}'
    return f'{outer}{{Pad: {pad}, {base}: {inner}}}' if shape == 'A' else f'{outer}{{{base}: {inner}, Tail: "tl{pad}"}}'


def call_func(e):
    args = PARAMS[e['np']][1]
    L = [f'// CallE{e["id"]} calls {e["go"]}.{e["m"]} on instance inst.', f'func CallE{e["id"]}(inst int) int64 {{']
    if e['promoted']:
        # a promoted method, called through the method set of *Outer (interface call -> compiler-generated wrapper)
        base, shape = e['promoted']
        L.append('\tswitch inst {')
        for inst, a in ((0, 111 + e['id'] % 5), (1, 2222), (2, 33333)):
            L += [f'\tcase {inst}:', f'\t\tp := &{outer_literal(e["T"], shape, base, e["layout"], a, inst + 3)}',
                  '\t\tw.WantPtr = unsafe.Pointer(p)', f'\t\tw.WantBasePtr = unsafe.Pointer(&p.{base})',
                  f'\t\tw.Want{e["layout"]} = w.Lay{e["layout"]}(p.{base})', '\t\tw.WantA = int64(p.A)',
                  f'\t\treturn callIf{base}{e["m"]}(p{", " + args if args else ""})']
        L += ['\t}', '\treturn 0', '}', '']
        return '\n'.join(L)
    if e['generic']:
        L.append(f'\tw.GenK = {e["K"]}')
    L.append('\tswitch inst {')
    for inst, a in ((0, 101 + e['id'] % 7), (1, 2002), (2, 30303)):
        if e['layout'] == 3:
            a = a % 20000
        L.append(f'\tcase {inst}:')
        if e.get('outer') and inst == 2:
            # the base method reached by a DIRECT call on an outer instance: o.m() is (&o.Base).m() / o.Base.m()
            lay = e['layout']
            L += [f'\t\to := &{outer_literal(e["outer"], "A", e["T"], lay, a, 9)}',
                  f'\t\tw.WantPtr = unsafe.Pointer(&o.{e["T"]})', '\t\tw.WantBasePtr = w.WantPtr', f'\t\t{want_stmt(e, "o." + e["T"])}',
                  f'\t\treturn o.{e["m"]}({args})']
        elif e['ptr']:
            if inst == 2:  # addressable value, auto-&
                L += [f'\t\tv := {inst_literal(e, a)}', f'\t\tw.WantPtr = unsafe.Pointer(&v)', '\t\tw.WantBasePtr = w.WantPtr', f'\t\t{want_stmt(e, "v")}',
                      f'\t\treturn v.{e["m"]}({args})']
            else:
                L += [f'\t\tp := &{inst_literal(e, a)}', f'\t\tw.WantPtr = unsafe.Pointer(p)', '\t\tw.WantBasePtr = w.WantPtr', f'\t\t{want_stmt(e, "(*p)")}',
                      f'\t\treturn p.{e["m"]}({args})']
        else:
            if inst == 2:  # pointer-held instance of a value-receiver method
                L += [f'\t\tp := &{inst_literal(e, a)}', f'\t\t{want_stmt(e, "(*p)")}', f'\t\treturn p.{e["m"]}({args})']
            else:
                L += [f'\t\tv := {inst_literal(e, a)}', f'\t\t{want_stmt(e, "v")}', f'\t\treturn v.{e["m"]}({args})']
    L += ['\t}', '\treturn 0', '}', '']
    return '\n'.join(L)


def has_origin(e):
    """entries for which the Origin(..) path is generated: real static types available, ordinary methods"""
    return (e['pk'] == 'pa' or e['exported_type']) and not e['generic'] and not e['promoted'] and e['layout'] != 4


def mock_func(e):
    """Per entry: tmplE<id> (template instance for Struct), lookE<id> (the lookup through the requested API path),
    cbE<id> (typed callback number k), standInE<id> (typed stand-in for As)."""
    ps = PARAMS[e['np']][0]
    pl = (', ' + ps) if ps else ''
    argok = ['true', 'x == w.WantX', 'x == w.WantX && s == w.WantS', 'a == w.WantArr && b == w.WantArr2', 'c == w.WantArr16',
             'len(xs) == 2 && xs[0] == w.WantX && xs[1] == w.WantX+1', 'f == w.WantF && x == w.WantX'][e['np']]
    lay = e['layout']
    i = e['id']
    visible = e['pk'] == 'pa' or e['exported_type']
    L = []
    real_cb = real_si = None
    if visible:
        T = go_type(e, 'pa')
        if e['promoted']:
            recv_ok = '(unsafe.Pointer(r) == w.WantPtr && int64(r.A) == w.WantA)'
            filled = outer_literal(T, e['promoted'][1], e['promoted'][0], lay, 5, 5)
        elif e['generic']:
            recv_ok = '(unsafe.Pointer(r) == w.WantPtr && r.A == w.WantA)' if e['ptr'] else '(r.A == w.WantA)'
            filled = f'{T}{{A: 5}}'
        elif e['ptr']:
            wp = 'w.WantBasePtr' if e.get('outer') else 'w.WantPtr'    # embedded base: the pointer to the embedded field
            recv_ok = f'(unsafe.Pointer(r) == {wp} && w.Lay{lay}(*r) == w.Want{lay})'
            filled = f'{T}{{{LAYOUTS[lay][1](5)}}}'
        else:
            recv_ok = f'(w.Lay{lay}(r) == w.Want{lay})'
            filled = f'{T}{{{LAYOUTS[lay][1](5)}}}'
        rt = ('*' if e['ptr'] else '') + T
        real_cb = f'func(r {rt}{pl}) int64 {{ w.Hit(k, {recv_ok}, {argok}); return w.Sentinel }}'
        real_si = f'func(_ {rt}{pl}) int64 {{ return 0 }}'
        L += [f'func tmplE{i}(tmpl string) interface{{}} {{', '\tswitch tmpl {']
        if e['ptr']:
            L += ['\tcase "n":', f'\t\treturn (*{T})(nil)', '\tcase "w":', f'\t\treturn new({T})', '\tcase "f":', f'\t\treturn &{filled}', '\t}',
                  f'\treturn &{T}{{}}', '}', '']
        else:
            L += ['\tcase "f":', f'\t\treturn {filled}', '\t}', f'\treturn {T}{{}}', '}', '']
    fake_cb = fake_si = None
    if e['promoted']:
        fake_cb, fake_si = real_cb, real_si        # same package: the by-name paths can use the real outer type
    elif not e['generic']:
        if e['ptr']:
            wp = 'w.WantBasePtr' if e.get('outer') else 'w.WantPtr'
            frecv, fok = f'*w.Lay{lay}', f'(unsafe.Pointer(r) == {wp} && *r == w.Want{lay})'
        else:
            frecv, fok = f'w.Lay{lay}', f'(r == w.Want{lay})'
        fake_cb = f'func(r {frecv}{pl}) int64 {{ w.Hit(k, {fok}, {argok}); return w.Sentinel }}'
        fake_si = f'func(_ {frecv}{pl}) int64 {{ return 0 }}'
    L += [f'func lookE{i}(b *mocker.Builder, via, pkg, raw, m, tmpl string) interface{{}} {{', '\tswitch via {']
    if visible:
        L += ['\tcase "SM":', f'\t\treturn b.Struct(tmplE{i}(tmpl)).Method(m)', '\tcase "SX":', f'\t\treturn b.Struct(tmplE{i}(tmpl)).ExportMethod(m)']
        if not e['ptr'] and not e['promoted']:
            # a VALUE method mocked through a POINTER instance (what README 1.2 shows for pointer methods)
            L += ['\tcase "SP":', f'\t\treturn b.Struct(&{go_type(e, "pa")}{{}}).Method(m)']
    if not e['generic']:
        L += ['\tcase "EC":', '\t\treturn b.ExportStruct(raw).Method(m)', '\tcase "ES":', '\t\treturn b.Pkg(pkg).ExportStruct(raw).Method(m)',
              '\tcase "EF":', '\t\treturn b.Pkg(pkg).ExportFunc(raw)     // raw = "(*T).m" | "T.m"']
    L += ['\t}', '\tpanic("probe: API path not generated for this entry")', '}', '']
    sp_cb = None
    if visible and not e['ptr'] and not e['promoted']:
        # if this ever runs for a call of the value method, the receiver was not handed over unchanged (types differ)
        sp_cb = f'func(r *{go_type(e, "pa")}{pl}) int64 {{ w.Hit(k, false, {argok}); return w.Sentinel }}'
    if has_origin(e):
        an = ['', 'x', 'x, s', 'a, b', 'c'][e['np']]
        want = f'w.WantA*1000003 + {e["K"]}' + ['', ' + x*31', ' + x*31 + int64(len(s))', ' + a[0]*31 + b[3]', ' + c[3]*31'][e['np']]
        rt = ('*' if e['ptr'] else '') + go_type(e, 'pa')
        L += [f'// origE{i} is the placeholder goom turns into "the original {e["go"]}.{e["m"]}" (Origin)',
              f'var origE{i} = func(r {rt}{pl}) int64 {{', '\tw.Id(1)', '\tw.Id(2)', '\tw.Id(3)', '\treturn w.Id(-1)', '}', '',
              f'func origPtrE{i}() interface{{}} {{ return &origE{i} }}', '',
              f'func cbOE{i}(k int) interface{{}} {{',
              f'\treturn func(r {rt}{pl}) int64 {{',
              f'\t\to := origE{i}(r{", " + an if an else ""})',
              f'\t\tw.Hit(k, {recv_ok}, {argok} && o == {want})', '\t\treturn w.Sentinel', '\t}', '}', '']
    for name, real, fake in ((f'cbE{i}(via string, k int)', real_cb, fake_cb), (f'standInE{i}(via string)', real_si, fake_si)):
        L.append(f'func {name} interface{{}} {{')
        if sp_cb and name.startswith('cbE'):
            L += ['\tif via == "SP" {', f'\t\treturn {sp_cb}', '\t}']
        if fake:
            L += ['\tif via == "ES" || via == "EC" || via == "EF" {', f'\t\treturn {fake}', '\t}']
        if real:
            L.append(f'\treturn {real}')
        else:
            L.append('\tpanic("probe: type not visible")')
        L += ['}', '']
    return '\n'.join(L)


# ------------------------------------------------------------------ operations

def step_tok(via, e, m=None, raw=None, pkg=None, tmpl=None):
    m = e['m'] if m is None else m
    pkg = e['pkg'] if pkg is None else pkg
    if via == 'EF':
        fn = (f'(*{e["T"]})' if e['ptr'] else e['T']) + '.' + m if raw is None else raw
        return f'EF~{pkg}~{fn}~{e["id"]}'
    if via == 'SP':
        return f'SP~{pkg}~{e["T"]}~1~{m}~{e["id"]}'
    if via in ('SM', 'SX'):
        return f'{via}~{pkg}~{e["T"]}~{1 if e["ptr"] else 0}~{m}~{e["id"]}' + (f'~{tmpl}' if tmpl else '')
    raw = (('*' if e['ptr'] else '') + e['T']) if raw is None else raw
    return f'{via}~{pkg}~{raw}~{m}~{e["id"]}'


def vias_for(e):
    """API paths that can name entry e from the probe package (README-conforming)."""
    v = []
    visible = e['pk'] == 'pa' or e['exported_type']
    if visible and e['m'][0].isupper():
        v.append('SM')
    if visible:
        v.append('SX')
    if not e['generic']:
        v.append('ES')
        if e['pk'] == 'pa':
            v.append('EC')
        v.append('EF')
    return v


def gen_hists(tier, rng, entries):
    """Histories (lists of step tokens) with a lane tag each."""
    H = []
    # lane 1: every entry through every applicable path, one mock per history
    for e in entries:
        for via in vias_for(e):
            H.append(('single', [step_tok(via, e)]))
    # lane 2: malformed names (prefix/extension/case/receiver kind/unknown type): must never touch anything
    by_type = collections.defaultdict(list)
    for e in entries:
        by_type[(e['pk'], e['T'])].append(e)
    mal = []
    real = {(e['pkg'], e['T'], e['ptr'], e['m']) for e in entries}
    for e in entries:
        if e['generic']:
            continue
        m = e['m']
        cands = [m[:-1] if len(m) > 1 else m + 'q', m + 'X', m + 'x', m.swapcase(), m.lower() if m[0].isupper() else m.capitalize()]
        sib = {x['m'] for x in by_type[(e['pk'], e['T'])]}
        for c in cands:
            if c and c not in sib:
                for via in vias_for(e):
                    if via == 'SM' and not c[0].isupper():
                        continue
                    mal.append(('malformed-method', [step_tok(via, e, m=c)]))
        # wrong receiver kind / wrong type text through ExportStruct
        for raw in (('' if e['ptr'] else '*') + e['T'], e['T'] + '2', e['T'][:-1] or 'z', '(*' + e['T'] + ')', e['T'] + '*'):
            if (e['pkg'], raw.lstrip('*'), raw.startswith('*'), e['m']) in real:
                continue    # the altered text names another real method: the callback's static types would not fit it
            mal.append(('malformed-type', [step_tok('ES', e, raw=raw)]))
        mal.append(('malformed-pkg', [step_tok('ES', e, pkg=e['pkg'] + 'x')]))
        mal.append(('malformed-pkg', [step_tok('ES', e, pkg=e['pkg'][:-1])]))
    nm = 150 if tier == 'quick' else 1500
    for _ in range(min(nm, len(mal))):
        H.append(mal.pop(rng.below(len(mal))))
    # lane 3: same-named types / key collisions inside ONE builder (both orders)
    def find(pk, T, m):
        return next(e for e in entries if e['pk'] == pk and e['T'] == T and e['m'] == m)
    for i in range(4):
        for m in ('Get', 'GetX', 'get', 'Set'):
            ex, ey = find('xu', f'T{i}', m), find('yu', f'T{i}', m)
            for via in vias_for(ex):
                H.append(('collide-pkgname', [step_tok(via, ex), step_tok(via, ey)]))
                H.append(('collide-pkgname', [step_tok(via, ey), step_tok(via, ex)]))
    for u in ('u', 'u2', 'uu'):
        for m in ('m', 'mm', 'v', 'M'):
            ex, ey = find('xu', u, m), find('yu', u, m)
            H.append(('collide-pkgname', [step_tok('ES', ex), step_tok('ES', ey)]))
    for m in ('m', 'M', 'p'):
        e1, e2 = find('ab', 'T', m), find('a', 'b_T', m)
        H.append(('collide-underscore', [step_tok('ES', e1), step_tok('ES', e2)]))
        H.append(('collide-underscore', [step_tok('ES', e2), step_tok('ES', e1)]))
    # lane 3b: two methods of ONE type in one builder (prefix / case related names first), same API path
    for (pk, T), es in by_type.items():
        pairs = [(a, b) for a in es for b in es if a['id'] < b['id'] and
                 (a['m'].startswith(b['m']) or b['m'].startswith(a['m']) or a['m'].lower() == b['m'].lower())]
        others = [(es[i], es[i + 1]) for i in range(len(es) - 1)]
        for a, b in (pairs + others)[:3 if tier == 'quick' else 8]:
            common = [v for v in vias_for(a) if v in vias_for(b) and not (a['generic'] and v == 'SX')]
            for via in common:
                H.append(('siblings', [step_tok(via, a), step_tok(via, b)]))
    # lane 4: random histories: 2..5 steps incl. re-mocks of the same method, siblings, resets, malformed steps
    nr = 120 if tier == 'quick' else 2500
    for _ in range(nr):
        steps = []
        focus = rng.choice(entries)
        for _ in range(2 + rng.below(4)):
            r = rng.below(10)
            if r < 4:
                e = rng.choice(by_type[(focus['pk'], focus['T'])])
            elif r < 8:
                e = rng.choice(entries)
            elif r == 8:
                steps.append('R')
                continue
            else:
                e = rng.choice(entries)
                if not e['generic']:
                    steps.append(step_tok('ES', e, m=e['m'] + 'Z'))
                continue
            # by-name steps on generic instantiations (known finding C06-K1) stay out of the multi-step lanes: they patch the
            # per-instantiation wrapper, after which a Method() mock of the same method cannot reach the shape body any more
            # (GetInnerFunc finds no CALL in the patched wrapper) — demonstrated in its own lane below, outside the model
            vs = [v for v in vias_for(e) if not (e['generic'] and v == 'SX')]
            if vs:
                steps.append(step_tok(rng.choice(vs), e))
        if steps:
            H.append(('random', steps))
    # lane 6: template instances handed to Struct(..): typed nil pointer, new(T), filled value (goom only looks at the type)
    tm = [e for e in entries if e['pk'] == 'pa' or e['exported_type']]
    for e in tm[::(5 if tier == 'quick' else 2)]:
        for tmpl in (('n', 'w', 'f') if e['ptr'] else ('f',)):
            for via in [v for v in vias_for(e) if v in ('SM', 'SX') and not (e['generic'] and v == 'SX')]:
                other = rng.choice(entries)
                ov = [v for v in vias_for(other) if not (other['generic'] and v == 'SX')]
                steps = [step_tok(via, e, tmpl=tmpl)]
                if ov and other['id'] != e['id'] and call_sym(other) != call_sym(e):
                    steps.append(step_tok(rng.choice(ov), other))      # a second mock that the final Reset must remove, too
                H.append(('template', steps))
                H.append(('template', [f'L~0~{step_tok(via, e, tmpl=tmpl)}', 'A~0', 'C~0', 'T~0~9000001' if via == 'SM' or not e['generic'] else 'A~0']))
    # lane 7: kept handles, realistic multi-step use of ONE method mocker
    val = lambda n: str(9000000 + n)
    def hlanes(e, via):
        lk = f'L~0~{step_tok(via, e)}'
        P = [
            ('rearm-after-cancel', [lk, f'T~0~{val(1)}', 'C~0', f'T~0~{val(2)}']),
            ('rearm-after-reset', [lk, f'T~0~{val(1)}', 'R', f'T~0~{val(2)}']),
            ('rearm-apply', [lk, 'A~0', 'C~0', 'A~0']),
            ('return-apply-return', [lk, f'T~0~{val(3)}', 'A~0', f'T~0~{val(4)}']),
            ('apply-return-cancel', [lk, 'A~0', f'T~0~{val(5)}', 'C~0']),
            ('returns-seq', [lk, f'S~0~{val(6)}~{val(7)}']),
            ('return-return', [lk, f'T~0~{val(8)}', f'T~0~{val(9)}']),
            ('relookup', [lk, f'T~0~{val(10)}', f'L~1~{step_tok(via, e)}', 'A~1', f'L~2~{step_tok(via, e)}', f'T~2~{val(11)}']),
            ('reset-rearm-apply', [lk, 'A~0', 'R', f'S~0~{val(12)}~{val(13)}', 'A~0']),
        ]
        if via == 'SM' and e['np'] in (1, 2):
            P += [
                ('returns-when', [lk, f'SW~0~{val(20)}~{val(21)}~1~{val(22)}']),
                ('returns-when-nomatch', [lk, f'SW~0~{val(23)}~{val(24)}~0~{val(25)}']),
                ('when-only', [lk, f'W~0~1~{val(26)}']),
                ('return-when', [lk, f'T~0~{val(27)}', f'W~0~0~{val(28)}', f'W~0~1~{val(29)}']),
                ('when-cancel-when', [lk, f'W~0~1~{val(30)}', 'C~0', f'W~0~1~{val(31)}']),
                ('returns-then-when', [lk, f'S~0~{val(32)}~{val(33)}', f'W~0~1~{val(34)}', 'C~0', f'SW~0~{val(35)}~{val(36)}~1~{val(37)}']),
            ]
        return P
    cand = [(e, via) for e in entries for via in vias_for(e) if not (e['generic'] and via != 'SM')]
    take = cand[::(7 if tier == 'quick' else 2)]
    for e, via in take:
        for tag, steps in hlanes(e, via):
            H.append(('handle:' + tag, steps))
    # lane 8: random handle histories on up to three different methods (one kept handle per method; no one-shot on them)
    nh = 150 if tier == 'quick' else 3000
    for _ in range(nh):
        picks = []
        while len(picks) < 1 + rng.below(3):
            e, via = rng.choice(cand)
            if all(call_sym(e) != call_sym(o) for o, _ in picks):
                picks.append((e, via))
        steps = [f'L~{h}~{step_tok(via, e)}' for h, (e, via) in enumerate(picks)]
        has_default = [False] * len(picks)
        for _ in range(2 + rng.below(6)):
            h = rng.below(len(picks))
            e, via = picks[h]
            r = rng.below(10)
            n = 100 + len(steps) * 3
            if r < 2:
                steps.append(f'A~{h}'); has_default[h] = False
            elif r < 4:
                steps.append(f'T~{h}~{val(n)}'); has_default[h] = True
            elif r == 4:
                steps.append(f'S~{h}~{val(n)}~{val(n + 1)}'); has_default[h] = True
            elif r == 5:
                steps.append(f'C~{h}'); has_default[h] = False
            elif r == 6:
                steps.append('R'); has_default = [False] * len(picks)
            elif via == 'SM' and e['np'] in (1, 2):
                if r == 7:
                    steps.append(f'W~{h}~1~{val(n)}')
                elif r == 8 and has_default[h]:
                    steps.append(f'W~{h}~0~{val(n)}')
                elif r == 9:
                    steps.append(f'SW~{h}~{val(n)}~{val(n + 1)}~{rng.below(2)}~{val(n + 2)}'); has_default[h] = True
            else:
                o = rng.choice(entries)     # an unrelated one-shot mock in between
                ov = [v for v in vias_for(o) if not (o['generic'] and v == 'SX')]
                if ov and all(call_sym(o) != call_sym(pe) for pe, _ in picks):
                    steps.append(step_tok(rng.choice(ov), o))
        H.append(('handle:random', steps))
    # lane 9: ONE mocker object made with the exported constructors (mocker.go NewUnexportedMethodMocker / NewMethodMocker),
    # pointed at successive method names with Method(..)
    def um_tok(op, h, e):
        return f'{op}~{h}~UM~{e["pkg"]}~{"(*" + e["T"] + ")" if e["ptr"] else e["T"]}~{e["m"]}~{e["id"]}'
    def mm_tok(op, h, e, tmpl=None):
        return f'{op}~{h}~MM~{e["pkg"]}~{e["T"]}~{1 if e["ptr"] else 0}~{e["m"]}~{e["id"]}' + (f'~{tmpl}' if tmpl else '')
    nre = 0
    for (pk, T), es in by_type.items():
        if es[0]['generic'] and False:
            continue
        for ptr in (True, False):
            same = [e for e in es if e['ptr'] == ptr]
            ums = [e for e in same if not e['generic']]
            mms = [e for e in same if e['m'][0].isupper() and (e['pk'] == 'pa' or e['exported_type'])]
            for tokf, grp in ((um_tok, ums), (mm_tok, mms)):
                if len(grp) < 2:
                    continue
                nre += 1
                if tier == 'quick' and nre % 2:
                    continue
                a, b2 = grp[0], grp[1]
                c = grp[2] if len(grp) > 2 else grp[0]
                H.append(('reuse:apply-cancel-apply', [tokf('D', 0, a), 'A~0', 'C~0', tokf('RD', 0, b2), 'A~0']))
                H.append(('reuse:return-cancel-return', [tokf('D', 0, a), f'T~0~{val(40)}', 'C~0', tokf('RD', 0, b2), f'T~0~{val(41)}']))
                H.append(('reuse:three', [tokf('D', 0, a), 'A~0', 'C~0', tokf('RD', 0, b2), f'T~0~{val(42)}', 'C~0', tokf('RD', 0, c), 'A~0',
                                          step_tok(rng.choice([v for v in vias_for(a) if not (a['generic'] and v == 'SX')] or ['SM']), a)
                                          if c['id'] != a['id'] and [v for v in vias_for(a) if not (a['generic'] and v == 'SX')] else 'R']))
                H.append(('reuse:two-objects', [tokf('D', 0, a), tokf('D', 1, b2), 'A~0', 'A~1', 'C~0', tokf('RD', 0, c), 'R', 'A~0' if c['id'] != b2['id'] else 'R']))
    # lane 11: a value method mocked through a pointer instance (known finding C06-K2: only the (*T).m wrapper is patched)
    spe = [e for e in entries if not e['ptr'] and not e['promoted'] and e['m'][0].isupper() and (e['pk'] == 'pa' or e['exported_type'])]
    for e in spe[::(4 if tier == 'quick' else 1)]:
        H.append(('value-via-pointer', [step_tok('SP', e)]))
    # lane 12: the package given with a shorter path (only the package name, a path suffix): must be an error, never a match
    for e in [x for x in entries if x['pk'] in ('xu', 'yu', 'yv') and not x['generic']][::(3 if tier == 'quick' else 1)]:
        parts = e['pkg'].split('/')
        for cut in (len(parts) - 1, len(parts) - 2, 1, 3):
            H.append(('malformed-pkg-suffix', [step_tok('ES', e, pkg='/'.join(parts[cut:]))]))
    # lane 14: two live mocker objects on ONE method (different API paths), the displaced one cancelled
    two = [e for e in entries if not e['generic'] and (e['pk'] == 'pa' or e['exported_type']) and e['m'][0].isupper() and not e['promoted']]
    for e in two[::(9 if tier == 'quick' else 2)]:
        a, b2 = f'L~0~{step_tok("SM", e)}', f'L~1~{step_tok("ES", e)}'
        H.append(('two-mockers', [a, b2, 'A~0', 'A~1', 'C~0']))
        H.append(('two-mockers', [a, b2, 'A~0', 'A~1', 'C~1']))
        H.append(('two-mockers', [a, b2, 'A~1', f'T~0~{val(60)}', 'C~1', 'A~1']))
    # lane 13: Origin(&placeholder): the mock goes through the trampoline path and the callback calls the original through it
    oe = [(e, via) for e in entries if has_origin(e) for via in vias_for(e) if via in ('SM', 'SX')]
    for e, via in oe[::(6 if tier == 'quick' else 2)]:
        lk = f'L~0~{step_tok(via, e)}'
        H.append(('origin', [lk, 'O~0', 'A~0']))
        H.append(('origin', [lk, 'O~0', 'A~0', 'C~0', 'A~0']))
        H.append(('origin', [lk, 'A~0', 'C~0', 'O~0', 'A~0']))
    # lane 10: the patch package used directly — guards created first, applied / unpatched later, interleaved
    gable = [e for e in entries if e['m'][0].isupper() and (e['pk'] == 'pa' or e['exported_type'])]
    gn = lambda h, e: f'GN~{h}~{e["pkg"]}~{e["T"]}~{1 if e["ptr"] else 0}~{e["m"]}~{e["id"]}'
    for _ in range(120 if tier == 'quick' else 1500):
        n = 2 + rng.below(3)
        es = []
        while len(es) < n:
            e = rng.choice(gable)
            if all(call_sym(e) != call_sym(o) for o in es):
                es.append(e)
        steps = [gn(h, e) for h, e in enumerate(es)]          # all guards first ...
        order = list(range(n))
        for i in range(n - 1, 0, -1):
            j = rng.below(i + 1)
            order[i], order[j] = order[j], order[i]
        steps += [f'GA~{h}' for h in order]                   # ... applied in a random order ...
        for _ in range(rng.below(3)):                         # ... some unpatched / re-applied / re-created afterwards
            h = rng.below(n)
            steps.append(rng.choice([f'GU~{h}', f'GA~{h}', gn(h, es[h])]))
        H.append(('guards', steps))
    # lane 5: the C06-K1 follow-up, oracle only (the Lean model does not cover a patched generic wrapper)
    gex = [e for e in entries if e['generic'] and e['m'][0].isupper() and not e.get('duff')]
    for e in gex[:4 if tier == 'quick' else 20]:
        H.append(('k1-poison', [step_tok('SX', e), step_tok('SM', e)]))
    # histories on methods whose wrapper calls runtime.duffcopy crash the probe process on a tree without repair F27 (one
    # restart each): keep a bounded number of them (spread over the lanes), all others are unaffected
    duff_ids = {str(e['id']) for e in entries if e.get('duff')}
    cap, kept, out = (8 if tier == 'quick' else 150), collections.Counter(), []
    for lane, steps in H:
        if any(tok.rsplit('~', 2)[-1] in duff_ids or tok.rsplit('~', 2)[-2] in duff_ids for tok in steps if '~' in tok and tok.split('~')[0] not in ('A', 'T', 'S', 'W', 'SW', 'C', 'GA', 'GU')):
            if sum(kept.values()) >= cap or kept[lane] >= 2:
                continue
            kept[lane] += 1
        out.append((lane, steps))
    return out


def parse_obs(obs):
    """'r=a,b hit=<tok>,.. after=clean' -> (results, {entry id: {'t': [t0,t1,t2], 'rok':.., 'aok':..}}, after).
    hit token: `i:k:r+:a+` (callback k on all three instances) or `i:t0/t1/t2` with t = o | k<k> | s<v> | p | x."""
    if obs is None or not obs.startswith('r='):
        return None
    m = re.match(r'^r=(\S*) hit=(\S*) after=(\S+)$', obs)
    if not m:
        return None
    res = m.group(1).split(',') if m.group(1) else []
    hits = {}
    for h in filter(None, m.group(2).split(',')):
        f = h.split(':')
        if len(f) == 4:
            hits[int(f[0])] = {'t': ['k' + f[1]] * 3, 'rok': f[2] == 'r+', 'aok': f[3] == 'a+'}
        else:
            hits[int(f[0])] = {'t': f[1].split('/'), 'rok': True, 'aok': True}
    return res, hits, m.group(3)


def step_target(tok, entries, index):
    """Which entry does a lookup NAME according to the property (independent of the Lean model)?  None for malformed."""
    f = tok.split('~')
    if f[0] == 'SP':      # Struct(&T{}).Method(m) for a VALUE method m of T: the user names T.m
        return index.get((f[1], f[2], False, f[4])) if f[4][:1].isupper() else None
    if f[0] in ('SM', 'SX'):
        key = (f[1], f[2], f[3] == '1', f[4])
        e = index.get(key)
        if e and f[0] == 'SM' and not f[4][0].isupper():
            return None
        return e
    if f[0] in ('ES', 'EC'):
        raw = f[2]
        ptr = raw.startswith('*')
        return index.get((f[1], raw[1:] if ptr else raw, ptr, f[3]))
    if f[0] == 'EF':
        m = re.match(r'^\(\*([^()]+)\)\.([^.]+)$', f[2])
        if m:
            return index.get((f[1], m.group(1), True, m.group(2)))
        t, _, mm = f[2].rpartition('.')
        return index.get((f[1], t, False, mm))
    return None


def guard_oracle(steps, res, hits, after, entries, index, name):
    """patch-level guards: a method runs the callback given when the guard that was applied last to it was CREATED."""
    made = {}        # guard variable -> (entry, creation step)
    live = {}        # call symbol -> (entry id, callback)
    for k, tok in enumerate(steps):
        f = tok.split('~')
        if f[0] == 'GN':
            e = index.get((f[2], f[3], f[4] == '1', f[5])) if f[5][:1].isupper() else None
            if e is None:
                continue
            if res[k] != 'ok':
                return f'step {k} `{tok}` names an existing method with the right receiver kind but was answered {res[k]}'
            made[f[1]] = (e, k)
            live.pop(call_sym(e), None)       # replaceFunc unpatches an earlier patch of the same entry
        elif f[1] in made:
            e, k0 = made[f[1]]
            if res[k] != 'ok':
                return f'step {k} `{tok}` was answered {res[k]}'
            if f[0] == 'GA':
                live[call_sym(e)] = (e['id'], k0)
            elif live.get(call_sym(e), (None, None))[1] == k0:
                live.pop(call_sym(e), None)
    for i, h in hits.items():
        e = entries[i]
        a = live.get(call_sym(e)) or (live.get(call_sym(entries[e['base_id']])) if e.get('promoted') else None)
        if a is None:
            return f'{name(e)} does not run its original body ({"/".join(h["t"])}) although no applied guard names it (steps: {" ; ".join(steps)})'
        if h['t'] != ['k%d' % a[1]] * 3:
            return f'{name(e)} shows {"/".join(h["t"])}, but the guard applied to it was created with the callback of step {a[1]}'
        if not h['rok']:
            return f'callback {a[1]} for {name(e)} did not receive the caller\'s receiver unchanged as first argument'
    for sym, (i, k0) in live.items():
        if i not in hits:
            return f'{name(entries[i])}: the guard created in step {k0} was applied but the method still runs its original body'
    if after != 'clean':
        return 'after unpatching every guard some method does not run its original body'
    return None


def lookup_of(tok):
    """the lookup text inside a step token (None for steps without one) and its API path"""
    f = tok.split('~')
    if f[0] in ('SM', 'SX', 'ES', 'EC', 'SP', 'EF'):
        return f
    if f[0] == 'L':
        return f[2:]
    return None


def oracle(steps, obs, entries, index):
    """`oracle_core` plus the attribution of a failure to a RECORDED defect class: only when the failing method / step is
    itself in that class (or the process died in a history that exercises it)."""
    why, key, notes = oracle_core(steps, obs, entries, index)
    if why is None or key is not None:
        return why, key, notes
    name = lambda e: f'{e["pkg"]}.{e["go"]}.{e["m"]}'
    died = why.startswith('no usable observation') or 'Reset' in why
    for tok in steps:
        f = tok.split('~')
        lk = lookup_of(tok)
        e = None
        if lk:
            e = step_target('~'.join(lk), entries, index)
        elif f[0] in ('D', 'RD') and f[2] == 'UM':
            sn = f[4]
            ptr = sn.startswith('(*')
            e = index.get((f[3], sn[2:-1] if ptr else sn, ptr, f[5]))
        elif f[0] in ('D', 'RD', 'GN'):
            o = 3 if f[0] != 'GN' else 2
            e = index.get((f[o], f[o + 1], f[o + 2] == '1', f[o + 3]))
        if e is None:
            continue
        concerns = died or name(e) in why or tok in why
        byname = (lk and lk[0] in ('SX', 'ES', 'EC', 'EF')) or (f[0] in ('D', 'RD') and f[2] == 'UM')
        if concerns and lk and lk[0] == 'SP':
            return why, 'value-method-via-pointer', notes
        if concerns and e.get('duff'):
            return why, 'generic-duffcopy', notes
        if concerns and e['pk'] == 'yv' and byname:
            return why, 'dotted-package-byname', notes
    return why, None, notes


def oracle_core(steps, obs, entries, index):
    """The property on the implementation's observation, by a property-level reading of the history that does not use the
    Lean model: a method is *currently mocked* by the last arming call (Apply / Return / Returns / When..Return) on a lookup
    that names it, until its handle is cancelled or the builder reset; everything else runs its original body; after the
    final Reset everything does.  Returns (why | None, finding key | None, notes)."""
    p = parse_obs(obs)
    if p is None:
        return f'no usable observation: {obs}', None, {}
    res, hits, after = p
    notes = collections.Counter()
    if len(res) != len(steps):
        return f'result list does not match the steps: {obs[:200]}', None, notes
    name = lambda e: f'{e["pkg"]}.{e["go"]}.{e["m"]}'
    if steps and steps[0].startswith('GN~'):
        return guard_oracle(steps, res, hits, after, entries, index, name), None, notes
    armed = {}        # call symbol -> {'kind': 'cb'|'stub', 'k': step, 'vals': set, 'targets': set(entry ids)}
    handles = {}      # handle -> entry or None
    direct = set()    # handles of mockers made with the exported constructors
    with_origin = set()   # handles with an Origin placeholder set (Cancel forgets it)
    gaps = []         # (step, entry): by-name step on a generic instantiation (known finding C06-K1)
    byname_generic = set()
    for k, tok in enumerate(steps):
        f = tok.split('~')
        op = f[0]
        if op == 'R':
            if res[k] != 'ok':
                return f'builder Reset answered {res[k]}', None, notes
            armed = {sy: a for sy, a in armed.items() if a.get('h') in direct}    # the builder does not know directly constructed mockers
            with_origin = {h for h in with_origin if h in direct}
            continue
        if op in ('D', 'RD'):
            if f[2] == 'UM':
                sn = f[4]
                ptr = sn.startswith('(*') and sn.endswith(')')
                e = index.get((f[3], sn[2:-1] if ptr else sn, ptr, f[5]))
            else:
                e = index.get((f[3], f[4], f[5] == '1', f[6])) if f[6][:1].isupper() else None
            if op == 'D':
                direct.add(f[1])
            handles[f[1]] = e if res[k] == 'ok' else None
            if e is not None and res[k] != 'ok':
                return f'step {k} `{tok}` names an existing method with the right receiver kind but was answered {res[k]}', None, notes
            continue
        if op == 'L':
            e = step_target('~'.join(f[2:]), entries, index)
            handles[f[1]] = e if res[k] == 'ok' else None
            if e is not None and res[k] != 'ok':
                return f'step {k} `{tok}` looks up an existing method with the right receiver kind but was answered {res[k]}', None, notes
            continue
        if op == 'O':
            if handles.get(f[1]) is not None:
                if res[k] != 'ok':
                    return f'step {k} `{tok}` (Origin) on a handle of {name(handles[f[1]])} was answered {res[k]}', None, notes
                with_origin.add(f[1])
            continue
        if op in ('A', 'T', 'S', 'W', 'SW', 'C'):
            e = handles.get(f[1])
            if e is None:
                continue
            if op == 'C':
                with_origin.discard(f[1])
            sym = call_sym(e)
            if res[k] != 'ok':
                return f'step {k} `{tok}` on a handle of {name(e)} was answered {res[k]}', None, notes
            cur = armed.get(sym)
            if op == 'C':
                armed.pop(sym, None)
            elif op == 'A':
                armed[sym] = {'kind': 'cb', 'k': k, 'vals': set(), 'targets': {e['id']}, 'h': f[1], 'origin': f[1] in with_origin}
            else:
                if op == 'T':
                    vals = f[2:3]
                elif op == 'S':
                    vals = f[2:4]
                elif op == 'W':
                    vals = f[3:4] if f[2] == '1' else []
                else:
                    vals = f[2:4] + (f[5:6] if f[4] == '1' else [])
                if cur is not None and cur['kind'] == 'stub' and cur['k_handle'] == f[1]:
                    cur['vals'].update(vals)
                else:
                    armed[sym] = {'kind': 'stub', 'k': k, 'vals': set(vals), 'targets': {e['id']}, 'k_handle': f[1], 'h': f[1]}
            continue
        # one-shot: lookup + Apply(callback k)
        e = step_target(tok, entries, index)
        if e is None:
            continue
        if e['generic'] and op not in ('SM', 'SP'):
            gaps.append((k, e))
            byname_generic.add(e['id'])
            continue
        if res[k] != 'ok':
            return f'step {k} `{tok}` names an existing method with the right receiver kind but was answered {res[k]}', None, notes
        armed[call_sym(e)] = {'kind': 'cb', 'k': k, 'vals': set(), 'targets': {e['id']}}
    for i, h in hits.items():
        e = entries[i]
        a = armed.get(call_sym(e))
        via_base = False
        if a is None and e.get('promoted'):
            # Go semantics: the wrapper pkg.(*Outer).m calls the embedded type's method, so a mock of the base method shows
            a = armed.get(call_sym(entries[e['base_id']]))
            via_base = a is not None
        if a is None:
            return (f'{name(e)} does not run its original body ({"/".join(h["t"])}) although no step currently mocks it '
                    f'(steps: {" ; ".join(steps)})'), None, notes
        if a['kind'] == 'cb':
            if h['t'] != ['k%d' % a['k']] * 3:
                return f'{name(e)} shows {"/".join(h["t"])} on its three instances, but it is currently mocked by the callback of step {a["k"]}', None, notes
            if not h['rok']:
                return f'callback {a["k"]} for {name(e)} did not receive the caller\'s receiver unchanged as first argument', None, notes
            if not h['aok'] and a.get('origin'):
                return (f'callback {a["k"]} for {name(e)} called the Origin placeholder and did not get the result of the original method '
                        f'(or saw other arguments)'), None, notes
            if not h['aok']:
                notes['dictshift' if e['generic'] else 'args-differ'] += 1
        else:
            badv = [t for t in h['t'] if not (t.startswith('s') and t[1:] in a['vals'])]
            if badv:
                return (f'{name(e)} shows {"/".join(h["t"])} on its three instances, but it is currently stubbed (step {a["k"]}) '
                        f'to return one of {sorted(a["vals"])}'), None, notes
        if i not in a['targets'] and not via_base:
            if not (e['generic'] and any(call_sym(entries[j]) == call_sym(e) for j in a['targets'])):
                return f'{name(e)} is replaced but was not named', None, notes
            notes['same-shape-sibling-mocked'] += 1
    for sym, a in armed.items():
        for i in a['targets']:
            if i not in hits:
                e = entries[i]
                poisoned = e['generic'] and i in byname_generic
                return (f'{name(e)} currently mocked by step {a["k"]} still runs its original body',
                        'generic-byname' if poisoned else None, notes)
    if after != 'clean':
        return 'after Reset some method does not run its original body (or Reset itself failed)', None, notes
    for k, e in gaps:
        h = hits.get(e['id'])
        if not (h and h['t'] == ['k%d' % k] * 3):
            return f'by-name mock of a method of a generic instantiation does not replace it: {steps[k]}', 'generic-byname', notes
    return None, None, notes


# ------------------------------------------------------------------ running

def build(tier, rng):
    types, gens, entries = gen_corpus(tier, rng)
    gdir = os.path.join(C.BUILD, 'c06', 'gen')
    extra = emit_sources(types, gens, entries, gdir)
    hp = C.helper_pkgs()
    extra.update(hp)
    b, err = C.overlay_build('c06', f'{VBASE}/pa', {}, extra)
    if b is None:
        raise C.Infra('C06 probe does not build against the current tree:\n' + err[-4000:])
    return b, types, entries


def read_syms(binary):
    rc, out, err = C.sh(['go', 'tool', 'nm', binary], env=C.goenv())
    if rc != 0:
        raise C.Infra('go tool nm failed: ' + err[-500:])
    syms, dropped = [], 0
    for line in out.splitlines():
        f = line.split(None, 2)
        if len(f) == 3 and f[1] in 'Tt' and '/zzverif/c06/' in f[2]:
            if any(c in f[2] for c in ' ~|'):
                dropped += 1
                continue
            syms.append((int(f[0], 16), f[2]))
    syms.sort()
    return [s for _, s in syms], dropped


def entry_tok(e):
    # np on the wire = ordinary parameters passed in REGISTERS (the ones a shape body's dictionary displaces); kind 3 has none
    return (f'{e["pkg"]}~{e["T"]}~{1 if e["ptr"] else 0}~{e["m"]}~{e["shape"]}~{0 if e["np"] >= 3 else e["np"]}'
            f'~{e["base_id"] if e.get("promoted") else "-"}')


PROBE_ENV = {'GOOM_DEBUG': '', 'GOTRACEBACK': 'single', 'GODEBUG': '', 'GOGC': ''}   # scrub goom / runtime knobs of the caller
PROBE_TIMEOUT = 7200       # typical wall time of the whole stream: 5-60 s


def probe_once(binary, ops_path, outp, start):
    """One run of the probe from op `start`; a timeout is retried once and is never an observation."""
    for attempt in (0, 1):
        try:
            rc, log = C.run_probe(binary, 'TestVerifC06', ops_path, outp, env=dict(PROBE_ENV, VERIF_C06_FROM=str(start)), timeout=PROBE_TIMEOUT)
        except subprocess.TimeoutExpired:
            rc, log = -1, 'test timed out (killed by the check)'
        if 'test timed out' not in log:
            return rc, log
        C.log(f'C06: probe timed out from op {start} (attempt {attempt + 1})')
    raise C.Infra('C06 probe timed out twice (machine overloaded?); nothing can be said about the property')


def run_impl(binary, ops_path, n, tag, ops=None):
    """Run the probe; a crash loses only the op it happened in.  An op whose answer is a crash or `before=dirty` (a leak of
    the op before it) is run again alone in a fresh process: only what reproduces there is reported for it."""
    impl = [None] * n
    outp = os.path.join(C.BUILD, f'{tag}.impl')
    start, crashes = 0, 0
    while start < n:
        rc, log = probe_once(binary, ops_path, outp, start)
        got = C.read_indexed(outp, n)
        last = start - 1
        for i in range(start, n):
            if got[i] is not None:
                impl[i] = got[i]
                last = i
        if rc == 0:
            break
        crashes += 1
        C.log(f'C06: probe died at op {last + 1} ({crashes} so far)')
        sig = re.search(r'(SIGSEGV|SIGBUS|SIGILL|SIGTRAP|fatal error: [^\n]*|panic: [^\n]*)', log)
        if last + 1 < n:
            impl[last + 1] = 'crash:' + (sig.group(1)[:60].replace(' ', '-') if sig else f'rc{rc}')
        start = last + 2
        if crashes > max(400, n // 4):
            raise C.Infra('C06 probe keeps crashing:\n' + log[-2000:])
    if ops is not None:
        suspects = [i for i in range(n) if impl[i] is not None and (impl[i].startswith('crash:') or impl[i].startswith('before=dirty'))]
        for i in suspects[:20]:
            one = os.path.join(C.BUILD, f'{tag}.one.ops')
            open(one, 'w').write(ops[i] + '\n')
            rc, log = probe_once(binary, one, outp + '.one', 0)
            again = C.read_indexed(outp + '.one', 1)[0]
            if again is not None:
                impl[i] = again                      # did not reproduce in isolation (or gives its real answer)
            elif rc == 0:
                raise C.Infra('C06 probe answered nothing for a single op')
    missing = [i for i in range(n) if impl[i] is None]
    if missing:
        raise C.Infra(f'C06 probe left {len(missing)} of {n} operations unanswered (first: {missing[0]})')
    return impl


def execute(hists, entries, syms, binary, tag='c06'):
    tail = ' | ' + ' '.join(entry_tok(e) for e in entries) + ' | ' + ' '.join(syms)
    # '@' abbreviates the common import-path prefix BASE on the wire (expanded again by the probe and by the driver)
    ops = [(('c06.guard ' if steps and steps[0].startswith('GN~') else 'c06.hist ') + ' '.join(steps) + tail).replace(BASE, '@') for steps in hists]
    ops_path = os.path.join(C.BUILD, f'{tag}.ops')
    open(ops_path, 'w').write('\n'.join(ops) + '\n')
    impl = run_impl(binary, ops_path, len(ops), tag, ops)
    exe, err = C.build_driver()
    model = C.run_driver(exe, ops_path, os.path.join(C.BUILD, f'{tag}.model')) if exe else None
    return impl, model, err


def gen_inner(tier, rng):
    """Wrappers for bytecode.GetInnerFunc: filler instructions, CALLs forward / backward out of the wrapper / backward inside it,
    padding and the next function's prologue; every sequence ends in padding followed by code."""
    ops = []
    for _ in range(300 if tier == 'quick' else 6000):
        toks, cur = [], 0
        for _ in range(rng.below(14)):
            r = rng.below(10)
            if r < 6:
                n = 1 + rng.below(8)
                toks.append(f'n{n}')
                cur += n
            elif r == 6:
                toks.append(f'c{-rng.below(cur + 1)}' if cur else 'n1')      # backward, stays inside the wrapper
                cur += 5 if toks[-1][0] == 'c' else 1
            elif r == 7:
                toks.append(f'c{rng.below(1 << rng.below(24))}')               # forward
                cur += 5
            elif r == 8:
                toks.append(f'c{-(cur + 1 + rng.below(1 << rng.below(24)))}')  # backward, in front of the wrapper
                cur += 5
            elif toks:
                toks.append(rng.choice(['i', 'p']))
                cur += 1
        ops.append('c06.inner ' + ' '.join(toks + ['i', 'n1']))
    return list(dict.fromkeys(ops))


def inner_expect(op):
    """first CALL that leaves the wrapper, before any padding / next prologue"""
    cur, pad = 0, False
    for t in op.split()[1:]:
        if t == 'p':
            return 'inner=none'
        if t == 'i':
            pad, cur = True, cur + 1
            continue
        if pad:
            return 'inner=none'
        if t[0] == 'n':
            cur += int(t[1:])
        else:
            rel = int(t[1:])
            if rel >= 0 or cur + rel < 0:
                return f'inner={cur + rel + 5}'
            cur += 5
    return 'inner=none'


def run_inner(tier, rng, out):
    ops = gen_inner(tier, rng)
    if len(ops) < 50:
        raise C.Infra('C06 inner-function lane generated nothing')
    b, err = C.overlay_build('c06-inner', 'internal/bytecode', {'zz_verif_c06_test.go': os.path.join(C.HARNESS, 'c06', 'inner_probe_test.go')},
                             C.helper_pkgs())
    if b is None:
        raise C.Infra('C06 inner-function probe does not build against the current tree:\n' + err[-3000:])
    ops_path = os.path.join(C.BUILD, 'c06-inner.ops')
    open(ops_path, 'w').write('\n'.join(ops) + '\n')
    outp = os.path.join(C.BUILD, 'c06-inner.impl')
    rc, log = C.run_probe(b, 'TestVerifC06Inner', ops_path, outp, env=PROBE_ENV, timeout=PROBE_TIMEOUT)
    impl = C.read_indexed(outp, len(ops))
    if rc != 0 or any(x is None for x in impl):
        rc, log = C.run_probe(b, 'TestVerifC06Inner', ops_path, outp, env=PROBE_ENV, timeout=PROBE_TIMEOUT)     # once more before saying anything
        impl = C.read_indexed(outp, len(ops))
        if rc != 0 or any(x is None for x in impl):
            i = next((j for j, x in enumerate(impl) if x is None), 0)
            out.violation(f'GetInnerFunc crashed or did not answer on `{ops[i]}`', {'kind': 'inner', 'ops': [ops[i]], 'log': log[-1500:]})
            return {'inner_wrappers': len(ops), 'inner_ok': 0}
    exe, derr = C.build_driver()
    model = C.run_driver(exe, ops_path, os.path.join(C.BUILD, 'c06-inner.model')) if exe else None
    shown = 0
    for i, op in enumerate(ops):
        want = inner_expect(op)
        if impl[i] != want and shown < 2:
            shown += 1
            out.violation(f'GetInnerFunc on `{op}`: {impl[i]}, but the first CALL that leaves the wrapper gives {want}',
                          {'kind': 'inner', 'ops': [op], 'observed': impl[i], 'expected': want})
        elif model is not None and model[i] != impl[i] and shown < 2:
            shown += 1
            out.violation(f'model and GetInnerFunc disagree on `{op}`', {'kind': 'inner-correspondence', 'ops': [op], 'impl': impl[i], 'model': model[i]},
                          no_failing_input=True)
    kinds = collections.Counter('none' if x == 'inner=none' else ('forward' if not x[6:].startswith('-') else 'backward') for x in impl)
    return {'inner_wrappers': len(ops), 'inner_results': dict(kinds)}


def spec_check(entries, syms):
    """Model validation: the linker-name SPEC against the real symbol table."""
    ss = set(syms)
    return [call_sym(e) for e in entries if call_sym(e) not in ss]


def run(tier):
    out = C.Outcome('C06', tier)
    rng = C.Rng(C.seed()).fork('C06')
    proof = C.prove('C06', leanchecker=(tier == 'thorough'))
    binary, types, entries = build(tier, rng.fork('corpus'))
    syms, dropped = read_syms(binary)
    missing = spec_check(entries, syms)
    index = {(e['pkg'], e['T'], e['ptr'], e['m']): e for e in entries}
    lanes = gen_hists(tier, rng.fork('hist'), entries)
    hists = [s for _, s in lanes]
    lane_floor = collections.Counter(l.split(':')[0] for l, _ in lanes)
    for need in ('origin', 'value-via-pointer', 'malformed-pkg-suffix', 'single', 'malformed-method', 'malformed-type', 'malformed-pkg', 'collide-pkgname', 'siblings', 'random', 'template', 'handle',
                 'reuse', 'guards', 'k1-poison'):
        if lane_floor[need] < 3:
            raise C.Infra(f'C06 generator produced no `{need}` histories: the corpus/generator is broken, nothing was checked')
    impl, model, derr = execute(hists, entries, syms, binary)
    bad, notes = [], collections.Counter()
    for i, steps in enumerate(hists):
        why, key, nt = oracle(steps, impl[i], entries, index)
        notes.update(nt)
        if why:
            bad.append((i, why, key))
    seen_keys = set()
    shown = 0
    for i, why, key in bad:
        if key is not None:
            if key in seen_keys:
                continue
            seen_keys.add(key)
        elif shown >= 3:
            continue
        else:
            shown += 1
        out.violation(why, {'kind': 'impl-oracle', 'steps': hists[i], 'lane': lanes[i][0], 'observed': impl[i], 'why': why,
                            'tier': tier, 'corpus_seed': C.seed(), 'how': 'python3 check.py C06 --replay <this file>'}, key=key)
    hard = [b for b in bad if b[2] is None]
    if model is None:
        proof['failed'].append(('goomdrv', 'driver does not build: ' + derr[-500:]))
    known_keys = {kf.get('match', {}).get('key') for kf in C.known_findings('C06') if kf.get('status') == 'known'}
    known_idx = {i for i, why, key in bad if key in known_keys}      # the model describes the repaired code there
    def same_modulo_known(i):
        # while C06-K4 is an unrepaired known finding the code spells names in the dotted package unescaped
        return ('dotted-package-byname' in known_keys and '%2e' in model[i]
                and impl[i] is not None and impl[i] == model[i].replace('%2e', '.'))
    diffs = [(i, hists[i], impl[i], model[i]) for i in range(len(hists))
             if model is not None and impl[i] != model[i] and lanes[i][0] != 'k1-poison' and i not in known_idx and not same_modulo_known(i)]
    if missing and not hard:
        rc_, gv, _ = C.sh(['go', 'version'], env=C.goenv())
        if ' go1.23' not in gv:
            # the shape spellings (go.shape.*) and the wrapper scheme written into the corpus are those of go1.23: with another
            # toolchain a missing symbol says something about the check, not about goom
            raise C.Infra(f'C06 corpus is written for go1.23 symbol naming, found `{gv.strip()}`: {missing[0]} not in the binary')
        out.violation(f'linker-name SPEC of the model is wrong for this toolchain: {missing[0]} is not a symbol of the probe binary',
                      {'kind': 'model-validation', 'missing': missing[:10]}, no_failing_input=True)
    if not hard:
        if diffs:
            i, steps, a, b = diffs[0]
            out.violation(f'model and implementation disagree on history `{" ; ".join(steps)}`',
                          {'kind': 'correspondence', 'steps': steps, 'impl': a, 'model': b, 'tier': tier, 'corpus_seed': C.seed(),
                           'broken': 'Model/Method.lean step/run vs goom builder+mocker+proxy+patch on the generated corpus',
                           'n_disagreements': len(diffs)}, no_failing_input=True)
        elif not proof['ok']:
            out.violation('proof obligations of Props/C06.lean no longer check and no failing input was found in the search',
                          {'kind': 'proof', 'broken': proof['failed'], 'searched': len(hists), 'output': proof.get('output', '')[-3000:]},
                          no_failing_input=True)
    inner_stats = run_inner(tier, rng.fork('inner'), out)
    lane_count = collections.Counter(l for l, _ in lanes)
    res_classes = collections.Counter()
    nontrivial = set()
    mocked_entries = set()
    for i, steps in enumerate(hists):
        p = parse_obs(impl[i])
        if p:
            for r in p[0]:
                res_classes[r.split(':')[0] if not r.startswith('nf:') else 'nf'] += 1
            if p[1]:
                nontrivial.add((tuple(s.rsplit('~', 1)[0] for s in steps), impl[i].split(' hit=')[1]))
                mocked_entries.update(p[1].keys())
    ntypes = len({(e['pk'], e['T']) for e in entries})
    out.coverage = {
        'obligations': proof['obligations'], 'discharged': proof['discharged'], 'checker_cmd': ' ; '.join(proof['cmds']),
        'trusted_base': ['Lean 4.33 kernel', 'axioms: ' + ', '.join(sorted({a for v in proof['axioms'].values() for a in v}) or ['none']),
                         'SPEC linkName (pkg.T.m / pkg.(*T).m) — compared with `go tool nm` of the probe binary on every run '
                         f'({len(entries) - len(missing)}/{len(entries)} method symbols found)',
                         'reflect method tables, compiler wrappers and shape bodies, devirtualisation (observed through the corpus, -gcflags=all=-l)',
                         'entry jump preserves argument registers (C01/C15)', 'probe + generator (distribution below)'],
        'theorems': proof['axioms'], 'proof_failures': proof['failed'],
        'evaluations': len(hists), 'distinct_nontrivial': len(nontrivial),
        'traces_validated_against_impl': len(hists) - len(diffs),
        'rule': 'one evaluation = one history of builder calls on a fresh builder, with every method of every corpus type called on 3 instances '
                '(2 values + 1 pointer-held, or 2 pointers + 1 addressable value) before, during and after; non-trivial = at least one method '
                'replaced, distinct by (steps, set of replaced methods with callback numbers)',
        'distribution': {'types': ntypes, 'declared_methods': len(entries), 'methods_replaced_at_least_once': len(mocked_entries),
                         'calls_per_evaluation': len(entries) * 9, 'symbols_in_table': len(syms), 'symbols_dropped_unprintable': dropped,
                         'lanes': dict(lane_count), 'GetInnerFunc_lane': inner_stats, 'step_results': dict(res_classes), 'oracle_notes': dict(notes),
                         'generic_instantiations': len({e['T'] for e in entries if e['generic']}),
                         'pointer_receiver_methods': sum(1 for e in entries if e['ptr']), 'value_receiver_methods': sum(1 for e in entries if not e['ptr']),
                         'unexported_methods': sum(1 for e in entries if not e['m'][0].isupper()),
                         'unexported_types': len({(e['pk'], e['T']) for e in entries if not e['exported_type']})},
        'explanation': 'observed only: linker naming, reflect method table, wrappers/shape bodies/devirtualisation, register preservation; '
                       'equal-shape instantiations share a body (mocking one mocks the other); '
                       f'callbacks whose arguments differed from the call: {notes.get("dictshift", 0) + notes.get("args-differ", 0)}',
        'samples': [{'steps': hists[i], 'impl': impl[i], 'model': model[i] if model else None}
                    for i in (0, len(hists) // 3, len(hists) // 2, len(hists) - 1)],
    }
    out.assumptions = ['README rule: Struct() instance has the receiver kind of the mocked method', '-gcflags=all=-l',
                       'pclntab function names equal the ELF symbol names printed by go tool nm']
    return out.finish()


def replay(body):
    if body.get('kind', '').startswith('inner'):
        out = C.Outcome('C06', 'replay')
        ops = body['ops']
        b, err = C.overlay_build('c06-inner', 'internal/bytecode', {'zz_verif_c06_test.go': os.path.join(C.HARNESS, 'c06', 'inner_probe_test.go')},
                                 C.helper_pkgs())
        ops_path = os.path.join(C.BUILD, 'c06-inner-replay.ops')
        open(ops_path, 'w').write('\n'.join(ops) + '\n')
        outp = os.path.join(C.BUILD, 'c06-inner-replay.impl')
        C.run_probe(b, 'TestVerifC06Inner', ops_path, outp, env=PROBE_ENV)
        impl = C.read_indexed(outp, len(ops))
        rc = 0
        for i, op in enumerate(ops):
            print(f'{op}\n  impl: {impl[i]}\n  expected: {inner_expect(op)}')
            rc |= impl[i] != inner_expect(op)
        return int(rc)
    tier = body.get('tier', 'quick')
    os.environ['VERIF_SEED'] = str(body.get('corpus_seed', C.seed()))
    rng = C.Rng(C.seed()).fork('C06')
    binary, types, entries = build(tier, rng.fork('corpus'))
    syms, _ = read_syms(binary)
    index = {(e['pkg'], e['T'], e['ptr'], e['m']): e for e in entries}
    steps = body.get('steps', [])
    impl, model, _ = execute([steps], entries, syms, binary, tag='c06-replay')
    why, key, _ = oracle(steps, impl[0], entries, index)
    print(' ; '.join(steps))
    p = parse_obs(impl[0])
    if p:
        for i, h in p[1].items():
            e = entries[i]
            print(f'  replaced: #{i} {e["pkg"]}.{("(*" + e["go"] + ")") if e["ptr"] else e["go"]}.{e["m"]} -> {h}')
    print(f'  impl : {impl[0]}\n  model: {model[0] if model else None}\n  oracle: {why or "ok"}' + (f' [known-finding key {key}]' if key else ''))
    known = key is not None and any(kf.get('status') == 'known' and kf.get('match', {}).get('key') == key for kf in C.known_findings('C06'))
    if known:
        print(f'KNOWN-FINDING: property=C06 (key {key})')
        return 0
    return 1 if (why or (model and impl[0] != model[0])) else 0
