"""C07 — interface-variable mocks: per-method dispatch, not-implemented panic, retention, independence, restore.

Proof: Props/C07.lean over Model/Iface.lean (transcription of builder.go Interface, cache.go CachedInterfaceMocker, iface.go,
internal/proxy/interface.go, internal/iface/make_interface.go) quantified over all histories by induction.
Tie X: generated Go interface types (1..12 methods, shuffled declaration order, unexported and embedded methods) are compiled
into the root package as an overlay test file; whole histories (apply / As+Return / When / reset / re-mock / drop builder / GC
with heap churn and finalizer probes) run on the real goom code and on the model driver; the observations are compared and the
property oracle below is applied to the implementation's observations independently of the model.
"""
import json
import os
import re

from vlib import common as C

META = {
    'property_id': 'C07',
    'technique': 'Lean 4 theorems by induction over all histories of a transcribed model of the interface mocker (slot index, '
                 'fake itab, per-builder cache, backup/restore, retention graph) + differential run of generated interface '
                 'types x histories on the real goom code with GC/finalizer probes',
    'level': 'proof',
    'level_text': 'Partial proof (the real collector is observed, not modelled). Proved for all histories of builder-API operations over the model: a mocked method dispatches to its own latest '
                  'replacement at the index of the method in the sorted method set, an unmocked one reaches the panicking routine, '
                  'variables are independent, Reset restores the two words, and while a variable holds the fake interface every '
                  'object whose address exists only in stub machine code or in the unscanned itab word is reachable from the '
                  'variable through GC-visible pointers. The model is tied to the code by differential execution.',
    'level_note': 'Partial: the real garbage collector, the runtime\'s itab/method-set layout, reflect.MakeFunc and the Go ABI are '
                  'trusted/observed (finalizer probes + calls after forced GC with heap churn), not modelled; arguments are '
                  'three signature classes. Theorems quantify over builder-API histories (mock with fitting or rejected '
                  'callbacks, per-method Cancel, Reset, drop, assignments by the test); handles kept across Reset are modelled '
                  'and run but outside Reachable. Recorded defects of the unchanged code that the run reproduces as KNOWN-FINDING: '
                  'F25 kept handle re-mocks, F27 same-named foreign unexported method, F28 two builders on one variable, '
                  'F29 second Reset clobbers an assigned variable. Trusted: Lean kernel, harness, generators.',
}

PKG = 'github.com/tencent/goom'
UPPER = 'ABCDEFGHIJKLMNOPQRSTUVWXYZ'
LOWER = 'abcdefghijklmnopqrstuvwxyz_'
ALNUM = 'abcdefghijklmnopqrstuvwxyzABCDEFGHIJKLMNOPQRSTUVWXYZ0123456789_'
GO_KEYWORDS = {'break', 'case', 'chan', 'const', 'continue', 'default', 'defer', 'else', 'fallthrough', 'for', 'func', 'go', 'goto', 'if',
               'import', 'interface', 'map', 'package', 'range', 'return', 'select', 'struct', 'switch', 'type', 'var', '_', 'id'}
NVAR = 4


# ------------------------------------------------------------------ generated interface types

UPPER_U = 'ΩÄÉЖΣÑ'          # non-ASCII upper-case first letters: exported although byte-wise greater than every ASCII name
LOWER_U = 'αβñжéω'
ALNUM_U = ALNUM + 'äéωжΩ'


def gen_name(rng, exported):
    while True:
        uni = rng.below(6) == 0
        n = rng.choice((UPPER_U if uni else UPPER) if exported else (LOWER_U if uni else LOWER))
        for _ in range(rng.below(4)):
            n += rng.choice(ALNUM_U if uni or rng.below(8) == 0 else ALNUM)
        if n not in GO_KEYWORDS and n not in ('String', 'Error'):
            return n


def gen_types(rng, n):
    """Each type: dict(id, decl=[(name,sig)] in declaration order (embedded interfaces flattened in place), src=Go text)."""
    types = []
    for tid in range(n):
        nm = 1 + rng.below(12) if tid >= 12 else tid + 1          # every size 1..12 is present
        mode = rng.below(5)                                       # 0 all exported, 1 mixed, 2 mostly unexported, 3,4 mixed + embeds
        names = {}
        while len(names) < nm:
            exp = True if mode == 0 else (rng.below(4) == 0 if mode == 2 else rng.below(2) == 0)
            names.setdefault(gen_name(rng, exp), rng.below(2))
        decl = list(names.items())
        if mode >= 3 and rng.below(2) == 0 and len(decl) < 12:
            decl.insert(rng.below(len(decl) + 1), ('String', 2))          # via embedded fmt.Stringer
        if mode == 4 and rng.below(2) == 0 and len(decl) < 12:
            decl.insert(rng.below(len(decl) + 1), ('Error', 2))           # via embedded error
        # split off an embedded same-package interface (a contiguous run of the declaration)
        emb = None
        if mode >= 3 and len(decl) >= 3:
            a = rng.below(len(decl) - 1)
            b = a + 1 + rng.below(min(3, len(decl) - a - 1))
            if all(s != 2 for _, s in decl[a:b]):
                emb = (a, b)
        types.append({'id': tid, 'decl': decl, 'emb': emb})
    return types


def gen_wide_types(rng, n, first_id):
    """Interfaces with 100..130 methods (beyond 99, well inside hack.MaxMethod)."""
    types = []
    for i in range(n):
        nm = 100 + rng.below(31)
        names = {}
        while len(names) < nm:
            names.setdefault(gen_name(rng, rng.below(3) > 0) + str(len(names)), rng.below(2))
        types.append({'id': first_id + i, 'decl': list(names.items()), 'emb': None})
    return types


SIG_DECL = {0: '(x int) int', 1: '(x int, s string) int', 2: '() string'}


def gen_twin_types(rng, npairs, first_id):
    """Pairs of DIFFERENT interface types with the same package path and the same name (function-local types of two
    functions): reflect's String()/PkgPath() cannot tell them apart.  Both contain a shared method name at different
    positions of their method sets."""
    types = []
    for p_ in range(npairs):
        shared = [(gen_name(rng, rng.below(2) == 0) + 'S', rng.below(2)) for _ in range(1 + rng.below(2))]
        for half in range(2):
            names = dict(shared)
            extra = 1 + rng.below(5)
            while len(names) < len(shared) + extra:
                names.setdefault(gen_name(rng, rng.below(2) == 0), rng.below(2))
            decl = list(names.items())
            for i in range(len(decl) - 1, 0, -1):
                j = rng.below(i + 1)
                decl[i], decl[j] = decl[j], decl[i]
            types.append({'id': first_id + 2 * p_ + half, 'decl': decl, 'emb': None, 'local': f'c07L{p_}', 'twin': first_id + 2 * p_ + 1 - half})
    return types


def go_types_source(types):
    o = ['// GENERATED by checks/C07.py — interface zoo for the C07 probe.', 'package mocker', '',
         'import (', '\t"fmt"', '\t"reflect"', '\t"unsafe"', ')', '', 'var _ fmt.Stringer', '']
    for t in types:
        tid, decl, emb = t['id'], t['decl'], t['emb']
        local = t.get('local')
        store = 'local' if local else ('array', 'heap', 'field')[tid % 3]      # where the mocked variables live
        lines = []
        i = 0
        while i < len(decl):
            if emb and i == emb[0] and not local:
                o.append(f'type c07E{tid} interface {{')
                for n, sg in decl[emb[0]:emb[1]]:
                    o.append(f'\t{n}{SIG_DECL[sg]}')
                o.append('}')
                lines.append(f'\tc07E{tid}')
                i = emb[1]
                continue
            n, sg = decl[i]
            if n == 'String':
                lines.append('\tfmt.Stringer')
            elif n == 'Error':
                lines.append('\terror')
            else:
                lines.append(f'\t{n}{SIG_DECL[sg]}')
            i += 1
        tname = local or f'c07T{tid}'
        tdecl = [f'type {tname} interface {{'] + lines + ['}']
        if not local:
            o += tdecl
        o.append(f'type c07I{tid} struct{{ id int }}')
        for n, sg in decl:
            if sg == 2:
                o.append(f'func (p *c07I{tid}) {n}() string {{ return c07implS(p.id) }}')
            elif sg == 1:
                o.append(f'func (p *c07I{tid}) {n}(x int, s string) int {{ return c07impl(p.id, "{n}", x, s) }}')
            else:
                o.append(f'func (p *c07I{tid}) {n}(x int) int {{ return c07impl(p.id, "{n}", x, "") }}')
        if store == 'array':
            o.append(f'var c07V{tid} [{NVAR}]{tname}')
            vx = f'c07V{tid}'
        elif store == 'heap':
            o.append(f'var c07V{tid} = new([{NVAR}]{tname})')
            vx = f'c07V{tid}'
        elif store == 'field':
            o.append(f'var c07V{tid} = &struct {{\n\tpad [3]int\n\tv   [{NVAR}]{tname}\n}}{{}}')
            vx = f'c07V{tid}.v'
        else:
            vx = 'vv'
        o.append('func init() {')
        if local:
            o += ['\t' + l for l in tdecl]
            o.append(f'\tvv := new([{NVAR}]{tname})')
        o.append(f'\tc07Types[{tid}] = &c07Type{{')
        o.append(f'\t\trt: reflect.TypeOf((*{tname})(nil)).Elem(), nvar: {NVAR},')
        o.append(f'\t\tptr: func(s int) interface{{}} {{ return &{vx}[s] }},')
        o.append(f'\t\tset: func(s, id int) {{ if id == 0 {{ {vx}[s] = nil }} else {{ {vx}[s] = &c07I{tid}{{id}} }} }},')
        o.append(f'\t\twords: func(s int) [2]uintptr {{ return *(*[2]uintptr)(unsafe.Pointer(&{vx}[s])) }},')
        o.append(f'\t\timpl: func(s int) int {{ if p, ok := {vx}[s].(*c07I{tid}); ok {{ return p.id }}; return 0 }},')
        o.append(f'\t\tcall: func(s int, name string, x int) string {{')
        o.append(f'\t\t\tv := {vx}[s]')
        o.append(f'\t\t\tswitch name {{')
        for n, sg in decl:
            if sg == 2:
                o.append(f'\t\t\tcase "{n}": return v.{n}()')
            elif sg == 1:
                o.append(f'\t\t\tcase "{n}": return c07ri(v.{n}(x, "ab"))')
            else:
                o.append(f'\t\t\tcase "{n}": return c07ri(v.{n}(x))')
        o.append('\t\t\t}')
        o.append('\t\t\treturn "no-such-method"')
        o.append('\t\t},')
        o.append('\t}')
        o.append('}')
        o.append('')
    return '\n'.join(o)


# ------------------------------------------------------------------ reference facts about a type (spec side, not the model)

def is_exported(n):
    return n[0].isupper()


OWN_PKG = 'github.com/tencent/goom'


def sorted_methods(decl):
    """Go's method-set order: exported names first, then by name (bytes), then by package path.  An unexported method
    that came in with an embedded interface of another package is written name@pkgpath."""
    def key(q):
        n, _, pk = q.partition('@')
        return (not is_exported(n), n.encode(), (pk or OWN_PKG).encode())
    return sorted((n for n, _ in decl), key=key)


def hname(n):
    return sum(n.encode()) % 97


def T_tok(t):
    return 'T:%d:%s' % (t['id'], ','.join(f'{n}/{s}' for n, s in t['decl']))


# ------------------------------------------------------------------ histories

def gen_history(rng, types, lane):
    """One history line.  lane: 'plain' | 'gc' | 'malformed' | 'kept' | 'kept-multi'.
    'kept*': some variables are mocked only through the CachedInterfaceMocker handle kept from the first Interface(&v);
    after a Reset such a variable is re-mocked once ('kept') or several times ('kept-multi', the known finding F14)."""
    ta = rng.choice(types)
    tys = [ta]
    if lane == 'twin':
        tys.append(next(t for t in types if t['id'] == ta['twin']))
    elif rng.below(2):
        tys.append(rng.choice(types))
    nv = (2 if lane == 'twin' else 1) + rng.below(3 if lane == 'twin' else 4)
    vars_ = []
    per_type = {}
    for i in range(nv):
        t = tys[0] if (i < 2 and rng.below(3) > 0) else rng.choice(tys)     # same-type pairs are common
        if lane == 'twin' and i < 2:
            t = tys[i]
        if per_type.get(t['id'], 0) >= NVAR:
            t = tys[0]
            if per_type.get(t['id'], 0) >= NVAR:
                break
        per_type[t['id']] = per_type.get(t['id'], 0) + 1
        vars_.append((t, 0 if rng.below(2) else 1 + rng.below(9), 0 if rng.below(4) else 1))   # type, init, owner builder
    kept = lane.startswith('kept')
    handle = [kept and (v == 0 or rng.below(2) == 0) for v in range(len(vars_))]
    toks = [T_tok(t) for t in {t['id']: t for t in tys}.values()] + [f'V:{t["id"]}:{init}' for t, init, _ in vars_]
    ops = []
    k = 0
    dropped = set()
    life = {}          # (v, method) -> its mocker has a When (since its last Apply / Reset)
    canceled = {}      # handle-mode var -> number of re-mocks since its context was canceled (None: context live)
    applied = set()    # (v, method) successfully mocked since the variable was last restored
    holds = {}         # v -> the variable currently holds the fake interface
    kindof = {}        # (v, method) -> kind of its current replacement
    nops = 3 + rng.below(12)

    def observe_all():
        for v in range(len(vars_)):
            ops.append(f'ca:{v}')
            if rng.below(2) == 0:
                ops.append(f'wd:{v}')

    def try_pc(alive):
        # schedules: another goroutine keeps calling an already mocked method while further methods are mocked
        nonlocal k
        cc = [(v, m) for (v, m) in sorted(applied) if holds.get(v) and not handle[v] and kindof.get((v, m)) in ('ap', 'rt')
              and vars_[v][2] in alive and len(vars_[v][0]['decl']) >= 2]
        if not cc:
            return False
        v, called = rng.choice(cc)
        t, _, b = vars_[v]
        others = [m for m in sorted_methods(t['decl']) if m != called]
        names = [rng.choice(others) for _ in range(1 + rng.below(4))]
        ops.append(f'pc:{b}:{v}:{called}:{k}:{",".join(names)}')
        for m2 in names:
            life[(v, m2, b)] = False
            applied.add((v, m2))
            kindof[(v, m2)] = 'ap'
        k += len(names)
        observe_all()
        return True

    if rng.below(3) == 0:
        ops.append(f'od:{ta["id"]}')
    if rng.below(4) == 0:
        observe_all()
    for _ in range(nops):
        r = rng.below(100)
        alive = [b for b in (0, 1) if b not in dropped]
        if lane == 'conc' and rng.below(3) == 0 and try_pc(alive):
            continue
        cand = [v for v, (_, _, ow) in enumerate(vars_) if ow in alive]
        if r < (60 if kept else 70) and cand:
            v = rng.choice(cand)
            t, _, b = vars_[v]
            if lane == 'twob' and v == 0:
                b = rng.choice(alive)              # variable 0 is mocked through both builders (known finding F28)
            if handle[v] and canceled.get(v) is not None and canceled[v] >= (3 if lane == 'kept-multi' else 1):
                continue
            h = 'h' if handle[v] else ''
            srt = sorted_methods(t['decl'])
            sig = dict(t['decl'])
            if lane == 'malformed' and rng.below(4) == 0:
                m = rng.choice(['Nope', '', 'zz9', srt[0] + 'x'])
                if m in sig:
                    m = 'Nope'
                ops.append(f'{h}ap:{b}:{v}:{m}:{k}')
                k += 1
                continue
            m = rng.choice(srt)
            if rng.below(12 if lane != 'malformed' else 3) == 0 and not life.get((v, m, b)):
                # a callback whose signature does not fit: must be rejected and must leave no trace
                ops.append(f'{h}{rng.choice(["apx", "apx", "rtx"])}:{b}:{v}:{m}:{k}')
                k += 1
                if rng.below(2) == 0:
                    observe_all()
                continue
            kinds = ['ap', 'ap', 'rt', 'wn'] if not life.get((v, m, b)) else ['ap']
            kind = rng.choice(kinds)
            if kind == 'wn' and sig[m] == 2:
                kind = 'rt'
            if kind == 'wn':
                x = 7 + srt.index(m)
                a = x if rng.below(3) else x + 1 + rng.below(3)
                ops.append(f'{h}wn:{b}:{v}:{m}:{k}:{a}')
            else:
                ops.append(f'{h}{kind}:{b}:{v}:{m}:{k}')
            life[(v, m, b)] = kind != 'ap'            # Apply drops the When (iface.go:94)
            applied.add((v, m))
            holds[v] = True
            kindof[(v, m)] = kind
            if handle[v] and canceled.get(v) is not None:
                canceled[v] += 1
            k += 1
            if rng.below(3) == 0:
                observe_all()
        elif r < 76 and cand and not kept and lane != 'twob':
            # Cancel through ONE method's handle: restores the whole variable if that method is mocked, else a no-op;
            # later lookups re-mock the same and the other methods
            v = rng.choice(cand)
            t, _, b = vars_[v]
            srt = sorted_methods(t['decl'])
            m = rng.choice(srt) if rng.below(10) else rng.choice(['Nope', ''])
            if m in ('Nope', '') and m in dict(t['decl']):
                m = ''
            ops.append(f'cn:{b}:{v}:{m}')
            if m in srt:
                if (v, m) in applied:
                    holds[v] = False
                    for key in [key for key in life if key[0] == v]:
                        del life[key]
                    applied.difference_update({key for key in applied if key[0] == v})
                else:
                    life.pop((v, m, b), None)
            if rng.below(2) == 0:
                observe_all()
            for _ in range(rng.below(4)):           # reconfigure right away through new lookups
                m2 = rng.choice(srt)
                kind = rng.choice(['ap', 'rt'] if not life.get((v, m2, b)) else ['ap'])
                ops.append(f'{kind}:{b}:{v}:{m2}:{k}')
                life[(v, m2, b)] = kind != 'ap'
                applied.add((v, m2))
                holds[v] = True
                kindof[(v, m2)] = kind
                k += 1
            observe_all()
        elif r < 82 and alive:
            b = rng.choice(alive)
            ops.append(f'rs:{b}')
            for v_ in range(len(vars_)):
                if vars_[v_][2] == b:
                    holds[v_] = False
            applied.difference_update({key for key in applied if vars_[key[0]][2] == b})
            for key in [key for key in life if key[2] == b]:
                del life[key]
            for v, (_, _, ow) in enumerate(vars_):
                if ow == b and handle[v]:
                    canceled[v] = 0
            observe_all()
        elif r < 87 and lane != 'twob':
            # the test assigns the variable itself (nil or a real implementation), mocked or not
            free = [v for v in range(len(vars_)) if not handle[v]]
            if free:
                va = rng.choice(free)
                ops.append(f'as:{va}:{rng.below(3) and 1 + rng.below(9)}')
                holds[va] = False
            if rng.below(2) == 0:
                observe_all()
        elif r < 89 and lane in ('plain', 'gc'):
            try_pc(alive)
        elif r < 90:
            observe_all()
        elif lane == 'gc' or (kept and rng.below(3) == 0):
            if alive and rng.below(2):
                b = rng.choice(alive)
                ops.append(f'dr:{b}')
                dropped.add(b)
            ops.append('gc')
            observe_all()
    if lane == 'gc':
        for b in (0, 1):
            if b not in dropped and rng.below(2):
                ops.append(f'dr:{b}')
                dropped.add(b)
        ops.append('gc')
    observe_all()
    for v in range(len(vars_)):
        if f'wd:{v}' != ops[-1]:
            ops.append(f'wd:{v}')
    if rng.below(2) == 0:                       # Reset at the very end must restore every variable of a live builder
        for b in (0, 1):
            if b not in dropped:
                ops.append(f'rs:{b}')
        for v in range(len(vars_)):
            ops.append(f'wd:{v}')
    return 'c07.hist ' + ' '.join(toks + ops)


def twin_sweep(t1, t2):
    """Same-named local types: every shared method name mocked on a variable of the first, then of the second type."""
    shared = [n for n, _ in t1['decl'] if n in dict(t2['decl'])]
    line = f'c07.hist {T_tok(t1)} {T_tok(t2)} V:{t1["id"]}:0 V:{t2["id"]}:0 od:{t1["id"]} od:{t2["id"]}'
    k = 0
    for v in (0, 1):
        for n in shared:
            line += f' ap:0:{v}:{n}:{k}'
            k += 1
        line += ' ca:0 ca:1'
    return line + ' rs:0 wd:0 wd:1'


def deep_line(t, rng, n):
    """Many mocks in ONE context — every method of a wide interface once, then re-mocks up to `n` in total (so that any
    bounded / re-allocated callback store has long dropped the older live ones) — builder dropped, GC, every method called."""
    srt = sorted_methods(t['decl'])
    pos = list(range(len(srt)))
    for i in range(len(pos) - 1, 0, -1):
        j = rng.below(i + 1)
        pos[i], pos[j] = pos[j], pos[i]
    seq = pos + [pos[rng.below(len(pos) // 3)] for _ in range(max(0, n - len(pos)))]    # re-mocks hit only a third of the methods
    line = f'c07.hist {T_tok(t)} V:{t["id"]}:0'
    for k, p_ in enumerate(seq[:max(n, len(pos))]):
        line += f' ap:0:0:{srt[p_]}:{k}'
    return line + ' ca:0 dr:0 gc ca:0 wd:0'


def wide_sweep(t, rng):
    """Wide interface: mocks at low / middle / around 99 / last positions, every method called."""
    srt = sorted_methods(t['decl'])
    n = len(srt)
    pos = sorted(p_ for p_ in {0, 1, n // 2, 97, 98, 99, 100, n - 2, n - 1, rng.below(n), rng.below(n)} if p_ < n)
    line = f'c07.hist {T_tok(t)} V:{t["id"]}:0 V:{t["id"]}:6 mx ca:1'
    k = 0
    for p_ in pos:
        kind = rng.choice(['ap', 'rt'])
        line += f' {kind}:0:0:{srt[p_]}:{k}'
        k += 1
    line += ' ca:0 ca:1 wd:0 rs:0 wd:0 wd:1'
    line += f' ap:0:0:{srt[n - 1]}:{k} ca:0 rs:0 wd:0'
    return line


def kind_of(tok):
    """(kept handle?, kind, fits?) of a mock token"""
    kd = tok
    via = kd.startswith('h')
    if via:
        kd = kd[1:]
    fits = not kd.endswith('x')
    if not fits:
        kd = kd[:-1]
    return via, kd, fits


MOCKS = {'ap', 'rt', 'wn', 'apx', 'rtx', 'hap', 'hrt', 'hwn', 'hapx', 'hrtx'}


def parse_line(line):
    toks = line.split()[1:]
    decls, vars_, ops = {}, [], []
    for tk in toks:
        f = tk.split(':')
        if f[0] == 'T':
            decls[int(f[1])] = [(d.rsplit('/', 1)[0], int(d.rsplit('/', 1)[1])) for d in f[2].split(',')] if f[2] else []
        elif f[0] == 'V':
            vars_.append((int(f[1]), int(f[2])))
        else:
            ops.append(f)
    return decls, vars_, ops


def fmt_res(kind, k, sig, x, a=None):
    if kind == 'ap':
        return f's{k}' if sig == 2 else f'r{k * 100000 + x * 10 + (2 if sig == 1 else 0)}'
    if kind == 'wn' and a != x:
        return 'panic:nomatch'
    return f's{k}' if sig == 2 else f'r{k * 100000 + 99}'


def spec_expect(line):
    """The property itself, per observable op of a history: list of (op tokens, expected observation or a predicate).
    Mocks are per variable; a method's replacement is its latest mock since the variable was last restored; unmocked
    methods of a mocked variable panic 'not implements'; a mock (re-)installs all the variable's mocks even if the test
    assigned the variable in between; Reset (or Cancel of a mocked method) puts back the value the variable held when
    it was first mocked since its last restore; nothing needed is ever collected."""
    decls, vars_, ops = parse_line(line)
    mocked = [dict() for _ in vars_]          # method -> (kind,k,a)
    cur = [('val', init) for _, init in vars_]   # current words: ('val', id) or ('fake',)
    saved = [None] * len(vars_)                # value to restore; None = not in a mocking round
    owner = {}                                 # var -> builder that mocked it
    exp = []

    def restore(v):
        cur[v] = ('val', saved[v])
        saved[v] = None
        mocked[v] = {}
        owner.pop(v, None)

    for f in ops:
        o = f[0]
        if o in MOCKS:
            b, v, m, k = int(f[1]), int(f[2]), f[3], int(f[4])
            _, o, fits = kind_of(o)
            decl = dict(decls[vars_[v][0]])
            if m == '':
                exp.append((f, 'panic:method-is-empty'))
            elif m not in decl:
                exp.append((f, 'panic:nomethod'))
            elif not fits:
                exp.append((f, 'panic:applyerr'))       # rejected: nothing may change
            else:
                mocked[v][m] = (o, k, int(f[5]) if o == 'wn' else None)
                if saved[v] is None:
                    saved[v] = cur[v][1]
                cur[v] = ('fake',)
                owner[v] = b
                exp.append((f, 'ok'))
        elif o == 'pc':
            b, v, k = int(f[1]), int(f[2]), int(f[4])
            for i_, m in enumerate(f[5].split(',')):
                mocked[v][m] = ('ap', k + i_, None)
            if saved[v] is None:
                saved[v] = cur[v][1]
            cur[v] = ('fake',)
            owner[v] = b
            exp.append((f, 'ok'))               # every concurrent call returned the called method's replacement
        elif o == 'as':
            cur[int(f[1])] = ('val', int(f[2]))
            exp.append((f, 'ok'))
        elif o == 'cn':
            v, m = int(f[2]), f[3]
            decl = dict(decls[vars_[v][0]])
            if m == '':
                exp.append((f, 'panic:method-is-empty'))
            elif m not in decl:
                exp.append((f, 'panic:nomethod'))
            else:
                if saved[v] is not None and m in mocked[v]:       # the context is shared: the whole variable is restored
                    restore(v)
                exp.append((f, 'ok'))
        elif o == 'rs':
            b = int(f[1])
            for v in range(len(vars_)):
                if owner.get(v) == b and saved[v] is not None:
                    restore(v)
            exp.append((f, 'ok'))
        elif o == 'dr':
            exp.append((f, 'ok'))
        elif o == 'gc':
            need = sorted(kk for v in range(len(vars_)) if cur[v] == ('fake',) for (kd, kk, _) in mocked[v].values() if kd == 'ap')
            exp.append((f, ('gc', need)))
        elif o == 'ca':
            v = int(f[1])
            tid = vars_[v][0]
            srt = sorted_methods(decls[tid])
            sig = dict(decls[tid])
            rs = []
            for mi, m in enumerate(srt):
                x = 7 + mi
                if sig[m] == 9:
                    continue                      # foreign method the test package cannot call
                if cur[v] == ('fake',):
                    if m in mocked[v]:
                        kd, kk, a = mocked[v][m]
                        rs.append(f'{m}=' + fmt_res(kd, kk, sig[m], x, a))
                    else:
                        rs.append(f'{m}=panic:notimpl')
                elif cur[v][1] == 0:
                    rs.append(f'{m}=panic:nilderef')
                elif sig[m] == 2:
                    rs.append(f'{m}=impl{cur[v][1]}')
                else:
                    rs.append(f'{m}=r-{cur[v][1] * 100000 + hname(m) * 1000 + x * 10 + (2 if sig[m] == 1 else 0)}')
            exp.append((f, '|'.join(rs)))
        elif o == 'wd':
            v = int(f[1])
            exp.append((f, 'fake' if cur[v] == ('fake',) else ('nil' if cur[v][1] == 0 else f'impl{cur[v][1]}')))
        elif o == 'od':
            exp.append((f, ','.join(sorted_methods(decls[int(f[1])]))))
        elif o == 'mx':
            exp.append((f, ('any',)))
    return exp


def two_builder_pattern(line):
    """One variable is mocked through two different builders in one history (known finding F28)."""
    _, _, ops = parse_line(line)
    owner = {}
    for f in ops:
        if f[0] in MOCKS or f[0] in ('cn', 'pc'):
            v, b = int(f[2]), int(f[1])
            if owner.setdefault(v, b) != b:
                return True
    return False


def reset_again_pattern(line):
    """A variable is restored (Reset / Cancel), then assigned by the test, then its builder is Reset again (or the method
    cancelled again) without a new mock in between: the stale cancelled mocker restores the old value again (finding F29)."""
    _, _, ops = parse_line(line)
    owner, stale, armed = {}, {}, set()
    for f in ops:
        if f[0] in MOCKS or f[0] == 'pc':
            v = int(f[2])
            owner[v] = int(f[1])
            stale.pop(v, None)
            armed.discard(v)
        elif f[0] == 'as':
            if int(f[1]) in stale:
                armed.add(int(f[1]))
        elif f[0] == 'rs':
            for v, b in owner.items():
                if b == int(f[1]):
                    if v in armed:
                        return True
                    stale[v] = True
        elif f[0] == 'cn':
            v = int(f[2])
            if v in armed:
                return True
            if v in owner:
                stale[v] = True
    return False


def shadow_pattern(line):
    """A mocked method name is shared by an unexported method of another package in the same method set (finding F27)."""
    decls, vars_, ops = parse_line(line)
    for f in ops:
        if f[0] in MOCKS:
            names = [n for n, _ in decls[vars_[int(f[2])][0]]]
            if any(q != f[3] and q.partition('@')[0] == f[3] for q in names):
                return True
    return False


def f14_pattern(line):
    """History re-mocks >= 2 different methods of one variable through a kept handle after a Reset (known finding F14)."""
    _, _, ops = parse_line(line)
    since = {}      # var -> set of methods h-mocked since the last reset of a canceled context
    armed = set()
    owner = {}
    for f in ops:
        if f[0] in MOCKS:
            via, _, fits = kind_of(f[0])
            v = int(f[2])
            owner[v] = int(f[1])
            if via and fits and v in armed:
                since.setdefault(v, set()).add(f[3])
                if len(since[v]) >= 2:
                    return True
        elif f[0] == 'rs':
            for v, b in owner.items():
                if b == int(f[1]):
                    armed.add(v)
                    since[v] = set()
    return False


def oracle(line, obs):
    """None if the implementation's observation satisfies the property, else (why, finding-hint)."""
    if obs is None or obs in ('crash', 'timeout'):
        return 'the process crashed while running this history (call through a mocked interface variable after GC?)', 'crash'
    exp = spec_expect(line)
    got = obs.split(';')
    if len(got) != len(exp):
        return f'observation has {len(got)} entries, history has {len(exp)} observable ops ({obs[:80]})', 'shape'
    for (f, want), g in zip(exp, got):
        op = ':'.join(f)
        if isinstance(want, tuple) and want[0] == 'any':
            continue
        if isinstance(want, tuple):
            fin = [int(x) for x in g.split('=', 1)[1].split(',') if x] if '=' in g else None
            if fin is None:
                return f'{op}: unexpected observation {g}', 'shape'
            lost = sorted(set(fin) & set(want[1]))
            if lost:
                return f'{op}: callbacks {lost} were garbage-collected while a variable still dispatches to them', 'retention'
        elif g != want:
            return f'{op}: observed {g}, the property requires {want}', f[0]
    return None


def same(impl, model):
    """Correspondence of one history: equal except that for `gc` the implementation may collect only what the model's
    retention graph allows (finalized ⊆ collectable; the real collector may keep more)."""
    if impl is None or model is None:
        return False
    a, b = impl.split(';'), model.split(';')
    if len(a) != len(b):
        return False
    for x, y in zip(a, b):
        if y.startswith('collectable='):
            if not x.startswith('fin='):
                return False
            fin = {k for k in x[4:].split(',') if k}
            col = {k for k in y[12:].split(',') if k}
            if not fin <= col:
                return False
        elif x != y:
            return False
    return True


# ------------------------------------------------------------------ running

def build_probe(types, tag='c07'):
    d = os.path.join(C.BUILD, 'c07')
    os.makedirs(d, exist_ok=True)
    p = os.path.join(d, f'{tag}_types_gen_test.go')
    open(p, 'w').write(go_types_source(types))
    b, err = C.overlay_build(tag, '', {'zz_verif_c07_test.go': os.path.join(C.HARNESS, 'c07', 'probe_test.go'),
                                        'zz_verif_c07_types_test.go': p}, C.helper_pkgs())
    if b is None:
        raise C.Infra('C07 probe does not build against the current tree:\n' + err[-3000:])
    return b


SCRUB_ENV = {'GOOM_DEBUG': '', 'GODEBUG': '', 'GOTRACEBACK': 'single', 'GOMAXPROCS': '', 'GOGC': '50'}


def run_impl(binary, ops, tag='c07', chunk=60):
    """Run the histories on the real code in parallel child processes.  A line without an observation (crash, kill, timeout)
    is re-run ONCE alone: only a crash that reproduces is an observation ('crash' / 'timeout') of that line."""
    import concurrent.futures as cf
    ops_path = os.path.join(C.BUILD, f'{tag}.ops')
    open(ops_path, 'w').write('\n'.join(ops) + '\n')
    n = len(ops)
    impl = [None] * n
    crashlog = {}

    def probe(start, end, suffix, timeout):
        outp = os.path.join(C.BUILD, f'{tag}.{start}.{end}.{suffix}.impl')
        env = dict(SCRUB_ENV)
        env.update({'VERIF_START': str(start), 'VERIF_END': str(end)})
        timed_out = False
        try:
            rc, log = C.run_probe(binary, 'TestVerifC07', ops_path, outp, env=env, timeout=timeout)
        except Exception as e:  # subprocess timeout
            rc, log, timed_out = 99, str(e), True
        if 'test timed out' in log:
            timed_out = True
        got = C.read_indexed(outp, n)
        if os.path.exists(outp):
            os.remove(outp)
        return rc, log, got, timed_out

    def work(lo, hi):
        res = {}
        start = lo
        tries = 0
        while start < hi and tries < (hi - lo) + 5:
            tries += 1
            rc, log, got, _ = probe(start, hi, 'a', 1800)         # typical chunk: 1-3 s
            last = start - 1
            for i in range(start, hi):
                if got[i] is not None:
                    res[i] = got[i]
                    last = i
                else:
                    break
            if rc == 0 and last == hi - 1:
                break
            if last + 1 < hi:
                bad = last + 1
                rc2, log2, got2, to2 = probe(bad, bad + 1, 'b', 900)    # once more, alone
                if got2[bad] is not None:
                    res[bad] = got2[bad]                           # did not reproduce: machine load, not the code
                else:
                    res[bad] = 'timeout' if to2 else 'crash'
                    crashlog[bad] = (log2 or log)[-1500:]
            start = last + 2
        return res

    with cf.ThreadPoolExecutor(max_workers=max(2, C.NCPU - 2)) as ex:
        futs = [ex.submit(work, lo, min(n, lo + chunk)) for lo in range(0, n, chunk)]
        for fu in futs:
            for i, v in fu.result().items():
                impl[i] = v
    return impl, ops_path, crashlog


def run_model(ops_path, tag='c07'):
    exe, err = C.build_driver()
    if exe is None:
        return None, err
    return C.run_driver(exe, ops_path, os.path.join(C.BUILD, f'{tag}.model')), ''


CORPUS = [  # minimised past failures (F11, F9) and hand-written shapes, always run first; their types are added to the zoo
    # F11: second variable of the same type in one builder
    'c07.hist T:9000:M/0,JOT/0,Ek1/1 V:9000:0 V:9000:5 ap:0:0:JOT:0 ap:0:1:M:1 ca:0 ca:1 wd:0 wd:1 rs:0 wd:0 wd:1 ca:1',
    # F9: two As().Return() on one variable, GC with the builder alive
    'c07.hist T:9000:M/0,JOT/0,Ek1/1 V:9000:0 rt:0:0:M:0 rt:0:0:JOT:1 ca:0 gc ca:0',
    # F9: plain Apply callbacks, builder dropped, GC
    'c07.hist T:9000:M/0,JOT/0,Ek1/1 V:9000:0 ap:0:0:M:0 ap:0:0:JOT:1 ca:0 dr:0 gc ca:0',
    # re-mock after reset, variable that held a real implementation, unexported + embedded methods
    'c07.hist T:9001:b/0,String/2,_x/1,Zed/0 V:9001:4 od:9001 ca:0 wn:0:0:_x:0:9 ap:0:0:String:1 ca:0 rs:0 wd:0 ca:0 rt:0:0:Zed:2 ca:0 rs:0 wd:0',
    # two builders, variables of the same type owned by different builders
    'c07.hist T:9000:M/0,JOT/0,Ek1/1 V:9000:0 V:9000:2 ap:0:0:M:0 ap:1:1:M:1 ca:0 ca:1 rs:1 ca:0 ca:1 wd:1 dr:0 gc ca:0',
    # kept handle after Reset: only the re-mocked method is mocked, the old replacements are gone; next Reset restores
    'c07.hist T:9000:M/0,JOT/0,Ek1/1 V:9000:4 hap:0:0:M:0 hrt:0:0:JOT:1 hap:0:0:Ek1:2 ca:0 rs:0 wd:0 hap:0:0:JOT:3 ca:0 wd:0 rs:0 wd:0 ca:0',
    # rejected Apply (signature does not fit) then Reset, with a correctly mocked second variable
    'c07.hist T:9000:M/0,JOT/0,Ek1/1 V:9000:0 V:9000:7 apx:0:0:M:0 wd:0 ap:0:1:JOT:1 rtx:0:0:Ek1:2 ca:0 ca:1 rs:0 wd:0 wd:1 ca:1',
    'c07.hist T:9000:M/0,JOT/0,Ek1/1 V:9000:3 apx:0:0:JOT:0 rs:0 wd:0 ca:0',
    # Cancel through one method's handle (restores the whole variable), then fresh lookups re-mock the other and the same method
    'c07.hist T:9000:M/0,JOT/0,Ek1/1 V:9000:4 ap:0:0:M:0 rt:0:0:JOT:1 ca:0 cn:0:0:M wd:0 ca:0 rt:0:0:JOT:2 ap:0:0:M:3 ca:0 ap:0:0:JOT:4 ca:0 rs:0 wd:0',
    'c07.hist T:9000:M/0,JOT/0,Ek1/1 V:9000:0 V:9000:0 ap:0:0:M:0 ap:0:0:JOT:1 ap:0:1:M:2 cn:0:0:Ek1 ca:0 cn:0:0:JOT ca:0 ca:1 ap:0:0:Ek1:3 ap:0:0:M:4 ca:0 ca:1',
    # the test assigns the variable while mocked (next mock re-installs every mock) and between rounds (Reset restores the newer value)
    'c07.hist T:9000:M/0,JOT/0,Ek1/1 V:9000:0 ap:0:0:M:0 as:0:7 ca:0 ap:0:0:JOT:1 ca:0 wd:0 rs:0 wd:0 as:0:5 rt:0:0:M:2 ca:0 rs:0 wd:0 ca:0',
    'c07.hist T:9000:M/0,JOT/0,Ek1/1 V:9000:3 V:9000:0 ap:0:0:M:0 ap:0:1:M:1 as:0:0 cn:0:0:M wd:0 as:1:4 ap:0:1:JOT:2 ca:1 rs:0 wd:0 wd:1',
    # F27: crypto/ecdh.Curve brings an unexported `ecdh` of another package next to the own `ecdh`
    'c07.hist T:7000:GenerateKey/9,NewPrivateKey/9,NewPublicKey/9,Zz/0,ecdh@crypto/ecdh/9,ecdh/0,privateKeyToPublicKey@crypto/ecdh/9 V:7000:0 od:7000 ap:0:0:Zz:0 ca:0 ap:0:0:ecdh:1 ca:0 rs:0 wd:0',
    # F28: one variable mocked through two builders
    'c07.hist T:9000:M/0,JOT/0,Ek1/1 V:9000:0 ap:0:0:M:0 ap:1:0:JOT:1 ca:0 rs:0 rs:1 wd:0 ca:0',
    # exported non-ASCII names sort before unexported ASCII ones although byte-wise greater
    'c07.hist T:9002:ab/0,Ωmega/0,zz/1,Ärger/0,αβ/0,ñ/1,Éa/2 V:9002:0 V:9002:2 od:9002 ap:0:0:ab:0 ca:0 rt:0:0:zz:1 wn:0:0:ñ:2:13 ap:0:0:Ωmega:3 ca:0 ca:1 rs:0 wd:0 ap:0:1:αβ:4 ca:1',
]


def classify(hint, why):
    if hint in ('crash', 'retention'):
        return 'F9'
    return None


def run(tier):
    out = C.Outcome('C07', tier)
    rng = C.Rng(C.seed()).fork('C07')
    proof = C.prove('C07', leanchecker=(tier == 'thorough'))
    ntypes, per = (200, 6) if tier == 'quick' else (1500, 20)
    types = gen_types(rng.fork('types'), ntypes)
    wide = gen_wide_types(rng.fork('wide'), 3 if tier == 'quick' else 12, 8000)
    twins = gen_twin_types(rng.fork('twin'), 6 if tier == 'quick' else 40, 8500)
    binary = build_probe(types + wide + twins + types_from_lines(CORPUS))
    hr = rng.fork('hist')
    ops = list(CORPUS)
    lanes = {'corpus': len(CORPUS)}
    for t in types[:12]:                      # every method-set size: order + full single-variable sweep
        srt = sorted_methods(t['decl'])
        sig = dict(t['decl'])
        base = f'c07.hist {T_tok(t)} V:{t["id"]}:0 V:{t["id"]}:3 od:{t["id"]} ca:0 ca:1'
        k = 0
        for m in reversed(srt):
            base += f' ap:0:1:{m}:{k} ca:1 ca:0'
            k += 1
        base += ' wd:0 wd:1 rs:0 wd:0 wd:1 ca:1'
        ops.append(base)
        lanes['sweep'] = lanes.get('sweep', 0) + 1
    for t in wide:                             # wide interfaces: positions below / at / above 99, last; calls of unmocked high slots
        for _ in range(2):
            ops.append(wide_sweep(t, hr))
            lanes['wide'] = lanes.get('wide', 0) + 1
    for t in wide[:1 if tier == 'quick' else 4]:   # many live mocks in one context, builder dropped, GC (retained must not be bounded)
        for n_ in ((300,) if tier == 'quick' else (150, 300, 700)):
            ops.append(deep_line(t, hr, n_))
            lanes['deep'] = lanes.get('deep', 0) + 1
    for i in range(0, len(twins), 2):          # same-named local types
        ops.append(twin_sweep(twins[i], twins[i + 1]))
        ops.append(twin_sweep(twins[i + 1], twins[i]))
        lanes['twin-sweep'] = lanes.get('twin-sweep', 0) + 2
    for i in range(ntypes * per):
        r = hr.below(40)
        lane = ('gc' if r < 10 else 'malformed' if r < 16 else 'kept' if r < 24 else 'twin' if r < 27 else 'twob' if r < 29
                else 'kept-multi' if r == 29 and hr.below(2) == 0 else 'conc' if r < 33 else 'plain')
        sub = twins if lane == 'twin' else (types if hr.below(4) else types[:24])
        ops.append(gen_history(hr, sub, lane))
        lanes[lane] = lanes.get(lane, 0) + 1
    floors = {'conc': 5, 'plain': 50, 'gc': 50, 'kept': 30, 'malformed': 20, 'twin': 5, 'twob': 5, 'wide': 2, 'deep': 1, 'twin-sweep': 2, 'sweep': 12}
    short = {k_: lanes.get(k_, 0) for k_, v_ in floors.items() if lanes.get(k_, 0) < v_}
    if short:
        raise C.Infra(f'C07 generator produced too few histories in lanes {short}')
    ops = list(dict.fromkeys(ops))
    impl, ops_path, crashlog = run_impl(binary, ops)
    model, derr = run_model(ops_path)
    if sum(1 for x in impl if x) < len(ops) or (model is not None and len(model) < len(ops)):
        raise C.Infra('C07: some histories produced no observation at all (probe or driver did not run them)')
    nbad = sum(1 for m_ in (model or []) if m_ in ('bad-op', 'unmodelled', 'type-mismatch')) + sum(1 for x in impl if x in ('bad-op', 'type-mismatch'))
    if nbad:
        raise C.Infra(f'C07: {nbad} generated histories were rejected as bad-op/unmodelled/type-mismatch by the probe or the driver')
    # 1. the property on the implementation's observations
    bad = []
    for i, line in enumerate(ops):
        r = oracle(line, impl[i])
        if r:
            bad.append((i, r))
    seen = set()
    known_n = 0
    for i, (why, hint) in bad:
        if hint in ('ca', 'wd', 'rs', 'retention') and two_builder_pattern(ops[i]):
            # one variable mocked through two builders: each builder has its own context and itab, the second wipes the first
            known_n += 1
            out.violation(why, {'kind': 'impl-oracle', 'ops': [ops[i]], 'observed': impl[i], 'why': why}, key='two-builders-one-variable')
            continue
        if hint in ('ca', 'wd') and reset_again_pattern(ops[i]):
            # the cancelled mocker stays in Builder.mockers: the next Reset writes its old backup over the value assigned since
            known_n += 1
            out.violation(why, {'kind': 'impl-oracle', 'ops': [ops[i]], 'observed': impl[i], 'why': why}, key='reset-again-clobbers-assigned-variable')
            continue
        if hint in MOCKS | {'ca'} and shadow_pattern(ops[i]):
            # methodIndexOf compares names only: an embedded foreign unexported method of the same name is chosen
            known_n += 1
            out.violation(why, {'kind': 'impl-oracle', 'ops': [ops[i]], 'observed': impl[i], 'why': why}, key='same-name-foreign-unexported-method')
            continue
        if hint in ('ca', 'wd') and f14_pattern(ops[i]):
            # several methods re-mocked through a kept handle after Reset: each Apply on the canceled context builds a fresh itab
            known_n += 1
            out.violation(why, {'kind': 'impl-oracle', 'ops': [ops[i]], 'observed': impl[i], 'why': why}, key='kept-handle-multi-remock')
            continue
        if hint in seen:
            continue
        seen.add(hint)
        line = shrink(binary, ops[i], hint)
        out.violation(f'{why}', {'kind': 'impl-oracle', 'ops': [line], 'observed': impl[i] if line == ops[i] else None,
                                 'why': why, 'class': hint, 'crash_log': crashlog.get(i, ''),
                                 'seed_types': [C.seed(), ntypes],
                                 'how': 'python3 check.py C07 --replay <this file>'})
    # 2. correspondence
    diffs = []
    if model is not None:
        diffs = [(i, ops[i], impl[i], model[i]) for i in range(len(ops)) if not same(impl[i], model[i] if i < len(model) else None)]
    else:
        proof['failed'].append(('goomdrv', 'driver does not build: ' + derr[-500:]))
    if len(bad) == known_n:
        if diffs:
            i, op, a, b = diffs[0]
            out.violation('model and implementation disagree on a history', {'kind': 'correspondence', 'ops': [op], 'impl': a, 'model': b,
                          'broken': 'correspondence Model/Iface.lean (Cfg.fixed) vs the interface mocker', 'n_disagreements': len(diffs),
                          'seed_types': [C.seed(), ntypes]}, no_failing_input=True)
        elif not proof['ok']:
            out.violation('proof obligations of Props/C07.lean no longer check and no failing input was found in the search',
                          {'kind': 'proof', 'broken': proof['failed'], 'searched': len(ops), 'output': proof.get('output', '')[-3000:]},
                          no_failing_input=True)
    # evidence
    dist = {'lanes': lanes, 'types': ntypes}
    opk, sizes, nmeth_mocked = {}, {}, {}
    res_classes = {}
    notcollected = collected = 0
    for i, line in enumerate(ops):
        decls, vars_, hops = parse_line(line)
        for f in hops:
            opk[f[0]] = opk.get(f[0], 0) + 1
        for tid, d in decls.items():
            sizes[len(d)] = sizes.get(len(d), 0) + 1
        if impl[i]:
            for tok in re.split(r'[;|]', impl[i]):
                c = tok.split('=', 1)[-1]
                c = 'result' if re.match(r'^(r-?\d+|s\d+|impl\d+)$', c) else c
                if tok.startswith('fin='):
                    c = 'gc'
                    collected += len([x for x in tok[4:].split(',') if x])
                if not (c.startswith('panic:') or c in ('ok', 'nil', 'fake', 'crash', 'gc', 'result', 'torn')):
                    c = 'number' if c.isdigit() else 'method-order'
                res_classes[c] = res_classes.get(c, 0) + 1
    dist.update({'op_kinds': opk, 'method_set_sizes': dict(sorted(sizes.items())), 'observation_classes': res_classes,
                 'unexported_methods_in_zoo': sum(1 for t in types for n, _ in t['decl'] if not is_exported(n)),
                 'types_with_embedded': sum(1 for t in types if t['emb'] or any(s == 2 for _, s in t['decl'])),
                 'callbacks_finalized_total': collected, 'crashed_histories': sum(1 for x in impl if x == 'crash')})
    nontrivial = len({impl[i] for i in range(len(ops)) if impl[i] and 'fake' in impl[i] or (impl[i] and 'notimpl' in impl[i])})
    out.coverage = {
        'obligations': proof['obligations'], 'discharged': proof['discharged'],
        'checker_cmd': ' ; '.join(proof['cmds']),
        'trusted_base': ['Lean 4.33 kernel', 'axioms: ' + ', '.join(sorted({a for v in proof['axioms'].values() for a in v}) or ['none']),
                         'hand-written model Model/Iface.lean (tied by differential execution of every history below)',
                         'the real garbage collector and runtime itab layout (observed by finalizer probes and calls after forced GC, not modelled)',
                         'reflect.MakeFunc / Go ABI / the stub machine code (C15 proves the stub emitter)',
                         'Python spec oracle (per-variable latest-mock semantics) and the generators'],
        'theorems': proof['axioms'], 'proof_failures': proof['failed'],
        'evaluations': len(ops), 'distinct_nontrivial': nontrivial,
        'traces_validated_against_impl': len(ops) - len(diffs),
        'rule': 'one evaluation = one whole history (types, variables, ops) run on the real goom code in the root package and on the model; '
                'non-trivial = a history in which a variable held a fake interface or an unmocked method was called, distinct by full observation',
        'distribution': dist,
        'samples': [{'op': ops[i], 'impl': impl[i], 'model': model[i] if model else None} for i in (0, len(ops) // 3, len(ops) // 2, len(ops) - 1)],
    }
    out.assumptions = ['garbage collector behaviour is observed, not modelled', 'signature classes (int)int, (int,string)int, ()string stand for the ABI; C13/C15 cover sizes and the stub bytes']
    return out.finish()


def shrink(binary, line, hint):
    """Delta-debugging over the ops of one history (keeping callback ids consecutive)."""
    head = [t for t in line.split()[1:] if t[:2] in ('T:', 'V:')]
    ops = [t for t in line.split()[1:] if t[:2] not in ('T:', 'V:')]

    def renum(ops):
        k = 0
        res = []
        for t in ops:
            f = t.split(':')
            if f[0] in MOCKS:
                f[4] = str(k)
                k += 1
            elif f[0] == 'pc':
                f[4] = str(k)
                k += len(f[5].split(','))
            res.append(':'.join(f))
        return 'c07.hist ' + ' '.join(head + res)

    def fails(cand):
        if f14_pattern(cand) or two_builder_pattern(cand) or reset_again_pattern(cand) or shadow_pattern(cand):
            return False                                               # never shrink into the input class of a known finding
        impl, path, _ = run_impl(binary, [cand], tag='c07-shrink', chunk=1)
        model, _ = run_model(path, tag='c07-shrink')
        if not model or model[0] in ('unmodelled', 'bad-op'):      # stay inside the modelled fragment of histories
            return False
        r = oracle(cand, impl[0])
        return r is not None and r[1] == hint

    cur = ops
    if not fails(renum(cur)):
        return line
    budget = 40
    i = 0
    while i < len(cur) and budget > 0:
        cand = cur[:i] + cur[i + 1:]
        budget -= 1
        if cand and fails(renum(cand)):
            cur = cand
        else:
            i += 1
    return renum(cur)


def types_from_lines(lines):
    """The interface zoo a set of history lines needs (declarations are carried by the lines themselves)."""
    decls = {}
    for line in lines:
        d, _, _ = parse_line(line)
        decls.update(d)
    return [dict({'id': tid, 'decl': d, 'emb': None}, **({'local': f'c07L{(tid - 8500) // 2}'} if 8500 <= tid < 8700 else {}))
            for tid, d in sorted(decls.items()) if tid != 7000]


def replay(body):
    ops = body.get('ops', [])
    binary = build_probe(types_from_lines(ops), tag='c07-replay')
    impl, ops_path, crashlog = run_impl(binary, ops, tag='c07-replay', chunk=1)
    model, _ = run_model(ops_path, tag='c07-replay')
    rc = 0
    for i, op in enumerate(ops):
        r = oracle(op, impl[i])
        print(f'{op}\n  impl : {impl[i]}\n  model: {model[i] if model else None}\n  oracle: {r[0] if r else "ok"}')
        if r or (model and not same(impl[i], model[i])):
            rc = 1
    return rc
