"""C09 — stubbed values reach callers unaltered and typed as the function declares.

Model: lean/GoomVerif/Model/Convert.lean transcribes arg/value.go (I2V, toValue, cast, V2I, isZero) and the path from
Return(...) to the caller (matcher.go newBaseMatcher/AddResult, when.go checkParams, reflect.MakeFunc's result check)
over a (type, value) universe.  The three kind lists tested in arg/value.go are parameters of the model and are
re-extracted from the source on every run (Gen/C09Kinds.lean), so the theorems of Props/C09.lean are about today's lists.
Tie X: in-package probes of `arg` and of the root package run the real I2V/V2I/isZero and the real
Return/When/Eval on stubbed corpus functions, for a catalogue of declared types x generated supplied values; the type
terms the model sees are produced by reflection on the types of the probe binary of this run.
The oracle below states the property on the implementation's observations, independently of the model.
"""
import os
import re

from vlib import common as C

META = {
    'property_id': 'C09',
    'technique': 'Lean 4 theorems over all declared types x supplied values about a model of arg/value.go (kind lists regenerated from the source) + differential run against the real I2V/V2I/isZero and Return/When/Eval on stubbed functions',
    'level': 'proof',
    'level_text': 'Full proof over the value universe: for every declared type and supplied value, untyped nil becomes the typed zero value for pointer, interface, slice, map, channel and func results (so a nil error is == nil at the caller), an implementing concrete value is boxed with its dynamic type and payload intact, a struct / struct pointer of identical layout is accepted and retyped with its payload unchanged, a value of another size is rejected at configuration time and never reinterpreted, whatever is delivered has the declared type and the supplied payload, and V2I(I2V(v)) gives v back (nil for nil pointers/interfaces).',
    'level_note': 'Trusted: Lean kernel (propext, Classical.choice, Quot.sound only); the description of reflect (ValueOf, Zero, Set, Interface, IsNil, assignability, gc struct layout) written in the model from the Go 1.23 sources and cross-checked on every run against the real thing; the regex extractor of the three kind lists. unsafe retyping is modelled as relabelling the type word: that the bytes mean the same under an identical layout is the Go memory model (sampled by the probes: memory images compared). Values retyped across kinds or across the pointer-shaped/indirect representation boundary are accepted by goom and are outside the model from then on (reported as `unmodelled`, never called).',
}

VALUE_GO = 'arg/value.go'
PRIMS = ['bool', 'int', 'int8', 'int16', 'int32', 'int64', 'uint', 'uint8', 'uint16', 'uint32', 'uint64', 'uintptr', 'float32',
         'float64', 'complex64', 'complex128', 'string', 'unsafePointer']
NILABLE_PROP = {'ptr', 'iface', 'slice', 'map', 'chan', 'func'}      # the kinds the property statement lists
KNOWN_KIND_NAMES = {'Bool', 'String', 'Array', 'Slice', 'Map', 'Ptr', 'Pointer', 'Struct', 'Interface', 'Func', 'Chan', 'UnsafePointer'}


# ------------------------------------------------------------------ tie T (small): the three kind lists of arg/value.go

def _func_body(src, name):
    m = re.search(r'^func ' + re.escape(name) + r'\(', src, re.M)
    if not m:
        return None
    i = src.rindex('{', m.end(), src.index('\n', m.end()))      # the brace that ends the signature line
    depth, j = 0, i
    while j < len(src):
        if src[j] == '{':
            depth += 1
        elif src[j] == '}':
            depth -= 1
            if depth == 0:
                return src[i:j + 1]
        j += 1
    return None


def _kinds(cond, subject):
    """`subject.Kind() == reflect.A || subject.Kind() == reflect.B ...` -> [A, B] or None when the text is anything else."""
    parts = [p.strip() for p in cond.split('||')]
    out = []
    for p in parts:
        m = re.fullmatch(re.escape(subject) + r'\.Kind\(\)\s*==\s*reflect\.(\w+)', p)
        if not m or m.group(1) not in KNOWN_KIND_NAMES:
            return None
        out.append(m.group(1))
    return out


def extract_kind_lists():
    """Returns (lists, None) or (None, 'file:reason') — the source left the shape this extractor understands."""
    src = open(os.path.join(C.REPO, VALUE_GO)).read()
    src_nc = re.sub(r'//[^\n]*', '', src)
    tv = _func_body(src_nc, 'toValue')
    v2 = _func_body(src_nc, 'V2I')
    if tv is None or v2 is None:
        return None, f'{VALUE_GO}: toValue / V2I not found'
    flat = ' '.join(tv.split())
    m1 = re.search(r'if r != nil && v\.Type\(\) != out && \(([^()]*(?:\(\)[^()]*)*)\) \{', flat)
    m2 = re.search(r'if r == nil && \(([^()]*(?:\(\)[^()]*)*)\) \{', flat)
    flat2 = ' '.join(v2.split())
    m3 = re.search(r'if \(([^()]*(?:\(\)[^()]*)*)\) && isZero\(a\) \{', flat2)
    if not (m1 and m2 and m3):
        return None, f'{VALUE_GO}: untranslatable: the conditions of toValue/V2I no longer have the shape `… && (K == a || K == b …)`'
    cast, nil, v2i = _kinds(m1.group(1), 'out'), _kinds(m2.group(1), 'out'), _kinds(m3.group(1), 'types[i]')
    if cast is None or nil is None or v2i is None:
        return None, f'{VALUE_GO}: untranslatable: a kind test is not of the form `x.Kind() == reflect.<nilable/Array/Struct kind>`'
    cb = _func_body(src_nc, 'cast')
    cflat = ' '.join(cb.split()) if cb else ''
    if 'newV := reflect.NewAt(typ, originV.Ptr).Elem()' in cflat:
        word = 'NewAtData'
    elif 'newV := reflect.Zero(typ)' in cflat or 'newV := reflect.New(typ).Elem()' in cflat:
        word = 'Fresh'
    else:
        return None, f'{VALUE_GO}: untranslatable: cast no longer takes the type word from reflect.NewAt(typ, originV.Ptr).Elem() / reflect.Zero(typ) / reflect.New(typ).Elem()'
    if not re.search(r'Typ: newVHack\.Typ, Ptr: originV\.Ptr, Flag: originV\.Flag,? ?\}', cflat):
        return None, f'{VALUE_GO}: untranslatable: cast no longer builds {{Typ: new, Ptr: origin, Flag: origin}}'
    return {'cast': cast, 'nil': nil, 'v2i': v2i, 'castTypeWordFrom': word}, None


def regen_kinds():
    lists, err = extract_kind_lists()
    dst = os.path.join(C.GEN_DIR, 'C09Kinds.lean')
    if lists is None:
        return False, err, []
    q = lambda xs: '[' + ', '.join(f'"{x}"' for x in xs) + ']'
    new = ('-- GENERATED by checks/C09.py from arg/value.go — do not edit.\nnamespace Gen.C09\n'
           '/-- arg/value.go toValue: `r != nil && v.Type() != out && (out.Kind() == … || …)` -/\n'
           f'def castKindNames : List String := {q(lists["cast"])}\n'
           '/-- arg/value.go toValue: `r == nil && (out.Kind() == … || …)` -/\n'
           f'def nilKindNames : List String := {q(lists["nil"])}\n'
           '/-- arg/value.go V2I: `(types[i].Kind() == … || …) && isZero(a)` -/\n'
           f'def v2iKindNames : List String := {q(lists["v2i"])}\n'
           '/-- arg/value.go cast: where the target type word comes from ("NewAtData" = reflect.NewAt(typ, originV.Ptr).Elem()) -/\n'
           f'def castTypeWordFrom : String := "{lists["castTypeWordFrom"]}"\nend Gen.C09\n')
    old = open(dst).read() if os.path.exists(dst) else None
    if new != old:
        open(dst, 'w').write(new)
        return True, '', ['C09Kinds']
    return True, '', []


# ------------------------------------------------------------------ type terms (python mirror of the grammar, for generating values)

def parse_ty(toks, i=0):
    t = toks[i]
    if t.startswith('p.'):
        return ('prim', t[2:]), i + 1
    if t == 'arr':
        e, j = parse_ty(toks, i + 2)
        return ('arr', int(toks[i + 1]), e), j
    if t in ('slice', 'ptr'):
        e, j = parse_ty(toks, i + 1)
        return (t, e), j
    if t == 'map':
        k, j = parse_ty(toks, i + 1)
        v, j = parse_ty(toks, j)
        return ('map', k, v), j
    if t == 'chan':
        e, j = parse_ty(toks, i + 2)
        return ('chan', int(toks[i + 1]), e), j
    if t == 'func':
        return ('func', toks[i + 1]), i + 2
    if t == 'iface':
        n = int(toks[i + 1])
        return ('iface', toks[i + 2:i + 2 + n]), i + 2 + n
    if t == 'strct':
        nv = int(toks[i + 1])
        j = i + 2 + nv
        np_ = int(toks[j])
        j = j + 1 + np_
        n = int(toks[j])
        j += 1
        fs = []
        for _ in range(n):
            name = toks[j]
            ft, j = parse_ty(toks, j + 1)
            fs.append((name, ft))
        return ('strct', fs), j
    if t == 'named':
        name = toks[i + 1]
        nv = int(toks[i + 2])
        j = i + 3 + nv
        np_ = int(toks[j])
        j = j + 1 + np_
        u, j = parse_ty(toks, j)
        return ('named', name, u), j
    raise ValueError('bad type term at ' + t)


def under(ty):
    return ty[2] if ty[0] == 'named' else ty


class Cat:
    """The catalogue as dumped by the probe binary of this run."""

    def __init__(self, lines):
        self.types = {}
        self.multis = []
        self.pairs2, self.variadics, self.meths = [], [], []
        for ln in lines:
            if ln.startswith('type '):
                head, term = ln.split(' ;; ', 1)
                f = head.split()
                kv = dict(x.split('=', 1) for x in f[2:])
                ty, n = parse_ty(term.split())
                assert n == len(term.split()), ln
                self.types[f[1]] = {'name': f[1], 'kind': kv['kind'], 'rkind': kv['rkind'], 'size': int(kv['size']), 'layout': kv['layout'],
                                    'impl': set() if kv['impl'] == '-' else set(kv['impl'].split(',')),
                                    'assign': set() if kv['assign'] == '-' else set(kv['assign'].split(',')),
                                    'funcs': kv['funcs'] == 'true', 'term': term, 'ty': ty, 'gostr': kv['go'], 'direct': kv.get('direct') == 'true'}
            elif ln.startswith('multi '):
                f = ln.split()
                self.multis.append((f[1], f[2].split(',')))
            elif ln.startswith('pair2 '):
                self.pairs2.append(tuple(ln.split()[1:3]))
            elif ln.startswith('variadic '):
                self.variadics.append(ln.split()[1])
            elif ln.startswith('meth '):
                self.meths.append(ln.split()[1])
        self.names = list(self.types)
        # what can be *supplied*: the dynamic type of an interface{} is never an interface type
        self.sups = [n for n in self.names if self.types[n]['kind'] != 'iface']
        by_under = {}
        for n, t in self.types.items():
            by_under.setdefault(repr(t['ty']), n)
        self.by_ty = by_under

    def pointee_layout(self, name):
        """layout of the pointee for pointer types whose pointee is in the catalogue"""
        t = self.types[name]
        u = under(t['ty'])
        if u[0] != 'ptr':
            return None
        n = self.by_ty.get(repr(u[1]))
        return self.types[n]['layout'] if n else None


F32_EXACT = [0, 0x8000000000000000, 0x3FF8000000000000, 0xC000000000000000, 0x7FF0000000000000, 0x3810000000000000, 0x47EFFFFFE0000000]
F64_MORE = [1, 0x7FF8000000000001, 0x3FB999999999999A, 0x7FEFFFFFFFFFFFFF, 0xFFF0000000000000]
INT_RANGE = {'int': 64, 'int8': 8, 'int16': 16, 'int32': 32, 'int64': 64, 'uint': 64, 'uint8': 8, 'uint16': 16, 'uint32': 32, 'uint64': 64, 'uintptr': 64}


class ValGen:
    def __init__(self, cat, rng):
        self.cat, self.rng = cat, rng
        self.used = set()

    def payload(self, ty, mode, nan_ok=True, name=None):
        """mode: 'zero' | 'rand'.  Returns token list.  `name` is the catalogue name when ty is a catalogue type."""
        r = self.rng
        u = under(ty)
        k = u[0]
        if k == 'prim':
            p = u[1]
            if p == 'bool':
                return ['b0'] if mode == 'zero' else [r.choice(['b0', 'b1', 'b1'])]
            if p in INT_RANGE and p.startswith('int'):
                b = INT_RANGE[p]
                if mode == 'zero':
                    return ['i0']
                return ['i' + str(r.choice([1, -1, (1 << (b - 1)) - 1, -(1 << (b - 1)), r.below(1 << (b - 1)), -r.below(1 << (b - 1)), 0, 7]))]
            if p in INT_RANGE:
                b = INT_RANGE[p]
                if mode == 'zero':
                    return ['u0']
                # non-zero uintptr values may end up retyped as pointers: keep them outside any mapped range but harmless
                return ['u' + str(r.choice([1, (1 << b) - 1, r.below(1 << b), 0, 1 << (b - 1)]))]
            if p in ('float32', 'float64'):
                if mode == 'zero':
                    return ['f0']
                pool = F32_EXACT + (F64_MORE if p == 'float64' else [])
                v = r.choice(pool)
                if not nan_ok and v == 0x7FF8000000000001:
                    v = 0x3FF8000000000000
                return ['f' + str(v)]
            if p in ('complex64', 'complex128'):
                if mode == 'zero':
                    return ['c', '0', '0']
                pool = [x for x in F32_EXACT if nan_ok or x != 0x7FF8000000000001]
                return ['c', str(r.choice(pool)), str(r.choice(pool))]
            if p == 'string':
                if mode == 'zero':
                    return ['s-']
                n = r.choice([0, 1, 3, 8])
                return ['s' + (''.join('%02x' % r.choice([0x30 + r.below(10), 0x61 + r.below(26), 0x2e, 0x2d]) for _ in range(n)) or '-')]
            if p == 'unsafePointer':
                return ['z'] if mode == 'zero' else [r.choice(['z', 'r' + str(r.below(8))])]
        if k == 'arr':
            out = ['agg', str(u[1])]
            for _ in range(u[1]):
                out += self.payload(u[2], mode, nan_ok)
            return out
        if k == 'strct':
            out = ['agg', str(len(u[1]))]
            for _, ft in u[1]:
                out += self.payload(ft, mode if mode == 'zero' or not r.chance(1, 5) else 'zero', nan_ok)
            return out
        if k == 'iface':
            if mode == 'zero':
                return ['inil']
            if u[1]:
                return ['inil']         # non-empty interface field: keep nil (no such field in the catalogue)
            dn = r.choice(['int', 'string', 'S3', 'float64', 'pint', 'bool'])
            self.used.add(dn)
            d = self.cat.types[dn]
            return ['iof', dn] + self.payload(d['ty'], 'rand', nan_ok, dn)
        if k in ('ptr', 'map', 'slice', 'chan'):
            # r100.. are non-nil but hold only zero content (pointer to a zero value, empty non-nil slice/map)
            return ['z'] if mode == 'zero' else ['r' + str(r.choice([0, 1, 2, 3, 4, 5, 100, 101]))]
        if k == 'func':
            has = name is not None and self.cat.types[name]['funcs']
            return ['z'] if (mode == 'zero' or not has) else ['r' + str(r.below(4))]
        raise ValueError('payload: ' + k)


def box(cat, vg, sup, mode, nan_ok=True):
    """token list of a box of catalogue type `sup` (None = untyped nil)"""
    if sup is None:
        return ['nil']
    return [sup] + vg.payload(cat.types[sup]['ty'], mode, nan_ok, sup)


def trailer(cat, names):
    out = []
    for n in dict.fromkeys(names):
        out += [';;', n, cat.types[n]['term']]
    return ' '.join(out)


def mkline(cat, vg, head_toks, names):
    used = list(names) + [head_toks[i + 1] for i, t in enumerate(head_toks[:-1]) if t == 'iof']
    vg.used = set()
    return ' '.join(head_toks) + ' ' + trailer(cat, used)


# ------------------------------------------------------------------ generation

def pointerish_layout(layout):
    return any(c in layout for c in (':ptr', ':str', ':slice', ':iface', ':map', ':chan', ':func', ':uptr'))


def sup_modes(cat, out, sup, rng):
    """which payload modes are safe/meaningful for supplying `sup` where `out` is declared"""
    if sup is None:
        return ['nil']
    o, s = cat.types[out], cat.types[sup]
    if out != sup and o['kind'] != 'iface' and s['size'] == o['size'] and s['layout'] != o['layout'] and \
            (pointerish_layout(o['layout']) or o['kind'] in ('ptr',)) and s['kind'] != o['kind']:
        return ['zero']          # would be reinterpreted as pointers: zero payload only
    if out != sup and o['kind'] == 'strct' and s['kind'] == 'strct' and s['size'] == o['size'] and s['layout'] != o['layout'] and pointerish_layout(o['layout']):
        return ['zero']
    if out != sup and o['kind'] == 'strct' and s['kind'] == 'strct' and s['size'] == o['size'] and pointerish_layout(o['layout']):
        return ['zero']          # identical layout with pointer fields: the pointees may differ in type; nil pointers only
    return ['zero', 'rand']


def gen_ops(cat, rng, tier):
    vg = ValGen(cat, rng)
    ops = []
    names, sups = cat.names, cat.sups
    reps = 1 if tier == 'quick' else 30
    dist = {}

    def add(lane, head, used):
        ops.append(mkline(cat, vg, head, used))
        dist[lane] = dist.get(lane, 0) + 1

    # lane tv: every declared type x (untyped nil, every supplied type)
    for out in names:
        add('tv', ['c09.tv', out, 'nil'], [out])
        for sup in sups:
            for mode in sup_modes(cat, out, sup, rng):
                n = 1 if mode == 'zero' else reps
                for _ in range(n):
                    add('tv', ['c09.tv', out] + box(cat, vg, sup, mode), [out, sup])
    # lane isz: isZero on zero, random and almost-zero values of every type
    for sup in names:
        add('isz', ['c09.isz'] + box(cat, vg, sup, 'zero'), [sup])
        for _ in range(4 * reps):
            add('isz', ['c09.isz'] + box(cat, vg, sup, 'rand'), [sup])
    # lane ret / eval: Return(...) on the stubbed corpus function of every declared type, then a call / Eval()
    for out in names:
        add('ret', ['c09.ret', '1', out, '1', 'nil'], [out])
        add('eval', ['c09.eval', '1', out, '1', 'nil'], [out])
        for sup in sups:
            o, s = cat.types[out], cat.types[sup]
            interesting = (sup == out or o['kind'] == 'iface' or s['size'] == o['size'] or rng.chance(1, 6) or tier == 'thorough')
            if not interesting:
                continue
            for mode in sup_modes(cat, out, sup, rng):
                for _ in range(1 if mode == 'zero' else reps):
                    b = box(cat, vg, sup, mode)
                    add('ret', ['c09.ret', '1', out, '1'] + b, [out, sup])
                    if sup == out or o['kind'] in ('iface', 'ptr') or rng.chance(1, 4):
                        add('eval', ['c09.eval', '1', out, '1'] + b, [out, sup])
    # lane when: When(x) on func(T) int
    for out in names:
        add('when', ['c09.when', out, 'nil'], [out])
        for sup in sups:
            o, s = cat.types[out], cat.types[sup]
            if not (sup == out or s['size'] == o['size'] and rng.chance(1, 3) or rng.chance(1, 12)):
                continue
            for mode in sup_modes(cat, out, sup, rng):
                for _ in range(1 if mode == 'zero' else reps):
                    add('when', ['c09.when', out] + box(cat, vg, sup, mode, nan_ok=False), [out, sup])
    # lane multi: several results, arity
    for mname, outs in cat.multis:
        for _ in range(20 * reps):
            k = len(outs)
            n = rng.choice([k, k, k, k, k - 1, k + 1, 1])
            toks, used = [], list(outs)
            for i in range(n):
                o = outs[i] if i < k else rng.choice(outs)
                c = rng.below(10)
                if c < 3 and cat.types[o]['kind'] not in ('strct', 'str', 'int', 'bool'):
                    toks += ['nil']
                elif c < 8:
                    if cat.types[o]['kind'] == 'iface':
                        o2 = rng.choice([x for x in sups if o in cat.types[x]['impl']])
                    else:
                        o2 = o
                    toks += box(cat, vg, o2, rng.choice(['zero', 'rand']))
                    used.append(o2)
                else:
                    cands = [x for x in sups if cat.types[x]['size'] != cat.types[o]['size'] or o in cat.types[x]['impl']]
                    sup = rng.choice(cands)
                    toks += box(cat, vg, sup, 'zero')
                    used.append(sup)
            lane = rng.choice(['c09.ret', 'c09.ret', 'c09.eval'])
            add('multi', [lane, str(k)] + outs + [str(n)] + toks, used)
    # lane matches: Return(defaults).Matches(Pair{Args: 1, Return: R}) on func(int) T — R a bare nil, a typed nil, a value,
    # a []interface{} of values; lane seq: Returns(g1, g2, ...) incl. bare nils, then k+1 calls
    def group_for(outs, form, used):
        """one PairRet for a function with results `outs`"""
        if form == 'one-nil':
            return ['one', 'nil']
        if form in ('one', 'one-zero'):
            o = outs[0]
            sup = o
            if cat.types[o]['kind'] == 'iface':
                sup = rng.choice([x for x in sups if o in cat.types[x]['impl'] and not icx(x)])
            used.append(sup)
            if is_anyslice(sup):      # a bare []interface{} IS the list form (documented flattening): to supply the slice itself, wrap it
                return ['list', '1'] + box(cat, vg, sup, 'zero' if form == 'one-zero' else 'rand')
            return ['one'] + box(cat, vg, sup, 'zero' if form == 'one-zero' else 'rand')
        if form == 'one-other':
            o = outs[0]
            sup = rng.choice([x for x in sups if not icx(x) and not is_anyslice(x)])
            used.append(sup)
            return ['one'] + box(cat, vg, sup, 'zero')
        n = len(outs) + (0 if form == 'list' else rng.choice([-1, 1]))
        toks = ['list', str(max(n, 0))]
        for i in range(max(n, 0)):
            o = outs[min(i, len(outs) - 1)]
            if rng.chance(1, 3) and cat.types[o]['kind'] in NILABLE_PROP:
                toks += ['nil']
            else:
                sup = o
                if cat.types[o]['kind'] == 'iface':
                    sup = rng.choice([x for x in sups if o in cat.types[x]['impl'] and not icx(x)])
                used.append(sup)
                toks += box(cat, vg, sup, rng.choice(['zero', 'rand']))
        return toks

    icx = lambda n: 'IContext' in cat.types[n]['gostr']
    is_anyslice = lambda n: cat.types[n]['gostr'] == '[]interface_{}'
    for out in names:
        if icx(out):
            continue
        forms = ['one-nil', 'one', 'one-zero', 'list', 'list-bad', 'one-other']
        for form in forms:
            for _ in range(1 if form in ('one-nil', 'one-zero') else reps):
                used = [out]
                add('matches', ['c09.matches', '1', out] + group_for([out], form, used), used)
        for _ in range(2 * reps):
            k = 1 + rng.below(3)
            used = [out]
            toks = []
            for _ in range(k):
                toks += group_for([out], rng.choice(['one-nil', 'one', 'one', 'one-zero', 'list']), used)
            add('seq', ['c09.seq', '1', out, str(k)] + toks, used)
    # directed: a SINGLE bare value as the whole sequence / the whole Pair.Return, for every declared type x every supplied type the
    # property demands delivery for (same, boxed — incl. slices, arrays, maps whose ELEMENTS would also fit the declared type —, stand-in):
    # "arrives unaltered" must hold for Returns(v) and Matches(Pair{Return: v}) exactly as for Return(v)
    for out in names:
        if icx(out):
            continue
        for sup in sups:
            if icx(sup) or is_anyslice(sup) or classify(cat, out, sup) not in ('same', 'boxed', 'standin'):
                continue
            container = cat.types[sup]['kind'] in ('slice', 'arr', 'map')
            if not (container or sup == out or rng.chance(1, 6) or tier == 'thorough'):
                continue
            for mode in (sup_modes(cat, out, sup, rng) if container else ['rand']):
                if mode not in sup_modes(cat, out, sup, rng):
                    mode = 'zero'
                b = box(cat, vg, sup, mode)
                if container and mode == 'rand':
                    b = [sup, 'r' + str(rng.choice([0, 1, 2, 3, 4, 5]))] if cat.types[sup]['kind'] != 'arr' else b     # non-empty: 1-3 elements
                lanes = ['c09.seq', 'c09.whenseq', 'c09.matches'] if container else [rng.choice(['c09.seq', 'c09.whenseq', 'c09.matches'])]
                for lane in lanes:
                    if lane == 'c09.matches':
                        add('matches', [lane, '1', out, 'one'] + b, [out, sup])
                    else:
                        add(lane[4:], [lane, '1', out, '1', 'one'] + b, [out, sup])
    for mname, outs in cat.multis:
        for _ in range(12 * reps):
            used = list(outs)
            add('matches', ['c09.matches', str(len(outs))] + outs + group_for(outs, rng.choice(['list', 'list', 'list', 'list-bad', 'one-nil', 'one']), used), used)
        for _ in range(6 * reps):
            k = 1 + rng.below(3)
            used = list(outs)
            toks = []
            for _ in range(k):
                toks += group_for(outs, rng.choice(['list', 'list', 'list', 'list-bad', 'one-nil']), used)
            add('seq', ['c09.seq', str(len(outs))] + outs + [str(k)] + toks, used)
    # ---- lanes added after the review
    def pick_sup(o, kind):
        """a supplied type for declared type o: 'same', 'nil', 'standin'/'boxed' (if any), 'samesize', 'other'"""
        ot = cat.types[o]
        if kind == 'nil':
            return None
        if kind == 'same' and ot['kind'] != 'iface':
            return o if not is_anyslice(o) else None      # a bare []interface{} in When/In is a tuple of conditions, not a value
        cands = []
        if kind in ('same', 'boxed'):
            cands = [x for x in sups if o in cat.types[x]['impl'] and not icx(x) and not is_anyslice(x)]
        elif kind == 'standin':
            cands = [x for x in sups if x != o and classify(cat, o, x) == 'standin']
        elif kind == 'samesize':
            cands = [x for x in sups if x != o and cat.types[x]['size'] == ot['size'] and not icx(x) and not is_anyslice(x)]
        elif kind == 'other':
            cands = [x for x in sups if cat.types[x]['size'] != ot['size'] and not icx(x) and not is_anyslice(x)]
        return rng.choice(cands) if cands else (o if ot['kind'] != 'iface' and not is_anyslice(o) else None)

    def box_for(o, kind, used, nan_ok=False):
        sup = pick_sup(o, kind)
        if sup is None:
            return ['nil']
        used.append(sup)
        modes = sup_modes(cat, o, sup, rng)
        return box(cat, vg, sup, rng.choice(modes), nan_ok)

    KINDS = ['same', 'same', 'nil', 'standin', 'boxed', 'samesize', 'other']
    params = [n for n in names if not icx(n)]
    # lane in: ONE arg.In(v1..vk) object used on two functions with different declared parameter types
    for p1 in params:
        for _ in range(4 * reps):
            p2 = rng.choice(params)
            if rng.chance(1, 2):
                same = [x for x in params if x != p1 and cat.types[x]['size'] == cat.types[p1]['size']]
                if same:
                    p2 = rng.choice(same)
            used = [p1, p2]
            k = 1 + rng.below(3)
            toks = []
            for _ in range(k):
                toks += box_for(rng.choice([p1, p1, p2]), rng.choice(['same', 'same', 'standin', 'nil']), used)
            add('in', ['c09.in', p1, p2, str(k)] + toks, used)
    # lane when2: When(a, b) on func(A, B) int — each value converted at the type of ITS position
    for a, b in cat.pairs2:
        for _ in range(40 * reps):
            used = [a, b]
            ka, kb = rng.choice(KINDS), rng.choice(KINDS)
            if rng.chance(1, 4):       # the other position's type supplied here
                ta = box_for(b, 'same', used) if cat.types[b]['kind'] != 'iface' else ['nil']
            else:
                ta = box_for(a, ka, used)
            add('when2', ['c09.when2', a, b] + ta + box_for(b, kb, used), used)
    # lane whenv: When(x1..xk) on func(xs ...T) int — every value converted at the element type
    for e in cat.variadics:
        # directed: the slice type []e itself given as a When value.  For a non-interface e it cannot be one element (other size: must be
        # rejected, never spread); for `...interface{}` a []interface{} IS one element: accepted, and the call made with that same slice as
        # the single variadic element must match.  Alone and after a leading element.
        sl = cat.by_ty.get(repr(('slice', cat.types[e]['ty'])))
        if sl is not None:
            for ident in ('r1', 'r2', 'r4', 'z'):
                add('whenv', ['c09.whenv', e, '1', sl, ident], [e, sl])
                lead_used = [e, sl]
                lead = box_for(e, 'same', lead_used)
                add('whenv', ['c09.whenv', e, '2'] + lead + [sl, ident], lead_used)
        for _ in range(40 * reps):
            used = [e]
            k = rng.below(4)
            toks = []
            for _ in range(k):
                toks += box_for(e, rng.choice(KINDS), used)
            add('whenv', ['c09.whenv', e, str(k)] + toks, used)
    # lane whenseq / whenand: When(1).Returns(g1..gk) and When(1).Return(g1).AndReturn(g2)... (conditional result sequences)
    for out in names:
        if icx(out):
            continue
        for lane in ('c09.whenseq', 'c09.whenand'):
            for _ in range(reps):
                k = 1 + rng.below(3)
                used = [out]
                toks = []
                for _ in range(k):
                    toks += group_for([out], rng.choice(['one-nil', 'one', 'one', 'one-zero', 'list']), used)
                add(lane[4:], [lane, '1', out, str(k)] + toks, used)
    for mname, outs in cat.multis:
        for lane in ('c09.whenseq', 'c09.whenand'):
            for _ in range(4 * reps):
                k = 1 + rng.below(3)
                used = list(outs)
                toks = []
                for _ in range(k):
                    toks += group_for(outs, rng.choice(['list', 'list', 'list', 'list-bad']), used)
                add(lane[4:], [lane, str(len(outs))] + outs + [str(k)] + toks, used)
    # lane meth: Return(...) on a method mock (m) and on an interface-variable mock (i)
    for out in cat.meths:
        for how in ('m', 'i'):
            add('meth', ['c09.meth', how, out, '1', 'nil'], [out])
            for sup in sups:
                o, sp = cat.types[out], cat.types[sup]
                if not (sup == out or o['kind'] == 'iface' or sp['size'] == o['size'] or rng.chance(1, 8) or tier == 'thorough'):
                    continue
                for mode in sup_modes(cat, out, sup, rng):
                    for _ in range(1 if mode == 'zero' else reps):
                        add('meth', ['c09.meth', how, out, '1'] + box(cat, vg, sup, mode), [out, sup])
            add('meth', ['c09.meth', how, out, '2', 'nil', 'nil'], [out])
    # lane i2v: arity and variadic handling, directly
    slices = [n for n in names if cat.types[n]['kind'] == 'slice']
    for _ in range(300 * reps):
        variadic = rng.chance(1, 2)
        nt = 1 + rng.below(3)
        types = [rng.choice(names) for _ in range(nt)]
        if variadic and not rng.chance(1, 10):
            types[-1] = rng.choice(slices)
        no = max(0, nt + rng.choice([-2, -1, 0, 0, 0, 1, 2, 3]))
        toks, used = [], list(types)
        lt = under(cat.types[types[-1]]['ty'])
        if variadic and lt[0] in ('slice', 'ptr', 'arr', 'chan', 'map'):
            en = cat.by_ty.get(repr(lt[-1]))
            if en:
                used.append(en)
        for i in range(no):
            if i < nt - 1 or not variadic:
                t = types[min(i, nt - 1)]
            else:
                lt = under(cat.types[types[-1]]['ty'])
                t = cat.by_ty.get(repr(lt[1])) if lt[0] == 'slice' else None
                t = t or types[-1]
            if rng.chance(1, 5):
                toks += ['nil']
            else:
                sup = t if (not rng.chance(1, 6) and t in sups) else rng.choice(sups)
                toks += box(cat, vg, sup, rng.choice(['zero', 'rand']) if sup == t else 'zero')
                used.append(sup)
        add('i2v', ['c09.i2v', '1' if variadic else '0', str(nt)] + types + [str(no)] + toks, used)
    ops = list(dict.fromkeys(ops))
    return ops, dist


# ------------------------------------------------------------------ probes

PROBE_TEST = 'TestVerifC09'
PROBE_TIMEOUT = 300      # seconds per probe process; two attempts at most => a reproduced hang is reported after <= 10 min
LANES_ARG = ('c09.tv', 'c09.isz', 'c09.i2v')
LANES_MOCKER = ('c09.ret', 'c09.eval', 'c09.when', 'c09.matches', 'c09.seq', 'c09.in', 'c09.when2', 'c09.whenv', 'c09.whenseq', 'c09.whenand', 'c09.meth')
_bins = None


def build_probes():
    global _bins
    if _bins is not None:
        return _bins
    extra = dict(C.helper_pkgs())
    cdir = os.path.join(C.HARNESS, 'c09', 'cat')
    extra['internal/zzverif/c09cat'] = {f: os.path.join(cdir, f) for f in sorted(os.listdir(cdir)) if f.endswith('.go')}
    bins = {}
    for tag, pkg, probe in (('c09-arg', 'arg', 'arg_probe_test.go'), ('c09-mocker', '', 'mocker_probe_test.go')):
        b, err = C.overlay_build(tag, pkg, {'zz_verif_c09_test.go': os.path.join(C.HARNESS, 'c09', probe)}, extra)
        if b is None:
            raise C.Infra(f'probe {tag} does not build against the current tree:\n{err[-3000:]}')
        bins[tag] = b
    _bins = bins
    return bins


def load_catalog():
    bins = build_probes()
    path = os.path.join(C.BUILD, 'c09.catalog')
    if os.path.exists(path):
        os.remove(path)
    rc, log = C.run_probe(bins['c09-arg'], 'TestVerifC09Catalog', os.devnull, os.path.join(C.BUILD, 'c09.catalog.out'),
                          env={'VERIF_C09_CATALOG': path})
    if rc != 0 or not os.path.exists(path):
        raise C.Infra('catalogue dump failed:\n' + log[-2000:])
    cat = Cat([l.rstrip('\n') for l in open(path)])
    if len(cat.names) < 90 or not cat.multis or not cat.pairs2 or not cat.variadics or not cat.meths:
        raise C.Infra(f'catalogue dump is incomplete: {len(cat.names)} types, {len(cat.multis)} multi, {len(cat.pairs2)} pair2, {len(cat.variadics)} variadic, {len(cat.meths)} meth')
    return cat


def execute(ops, tag='c09'):
    """Run ops through both probes and the model driver. Returns (impl, facts, model, driver error)."""
    bins = build_probes()
    ops_path = os.path.join(C.BUILD, f'{tag}.ops')
    open(ops_path, 'w').write('\n'.join(ops) + '\n')
    raw = [None] * len(ops)
    # the probes run in a scrubbed environment: goom's own knobs must not change what is observed
    scrub = {'GOOM_DEBUG': '', 'GODEBUG': '', 'GOGC': '', 'GOTRACEBACK': 'single'}
    for ptag in ('c09-arg', 'c09-mocker'):
        lanes = LANES_ARG if ptag == 'c09-arg' else LANES_MOCKER
        mine = [i for i, op in enumerate(ops) if op.split()[0] in lanes]
        outp = os.path.join(C.BUILD, f'{tag}.{ptag}.impl')
        for attempt in (1, 2):
            # typical wall time is 1-3 s (thorough ~10 s); the timeout is generous (>= 30x) yet bounded, so a hang ends in a verdict within
            # minutes (the test binary kills itself at -test.timeout; the first unobserved op is then the culprit); a failed run is repeated ONCE:
            # a crash that reproduces is an observation, a hiccup that does not is not
            try:
                rc, log = C.run_probe(bins[ptag], PROBE_TEST, ops_path, outp, env=scrub, timeout=PROBE_TIMEOUT)
            except Exception as e:      # timeout of the whole process
                rc, log = -1, f'probe did not finish: {e}'
            got = C.read_indexed(outp, len(ops))
            if rc == 0 or attempt == 2:
                break
            C.log(f'probe {ptag} exited rc={rc} on attempt 1; running it once more\n{log[-600:]}')
        for i, v in enumerate(got):
            if v is not None:
                raw[i] = v
        if rc != 0:
            # reproduced: a crash inside patched code / reflect kills the process: the first op without an observation is the culprit
            first = next((i for i in mine if raw[i] is None), None)
            if first is not None:
                raw[first] = 'crash'       # crash or reproduced hang of the process while running this operation
            C.log(f'probe {ptag} exited rc={rc} twice; first unobserved op index {first}\n{log[-1500:]}')
        elif mine and any(raw[i] is None for i in mine):
            n = sum(1 for i in mine if raw[i] is None)
            raise C.Infra(f'probe {ptag} exited 0 but left {n} of {len(mine)} of its operations unobserved (machinery error, not a statement about the property)')
    # floors: a lane that silently ran nothing must fail loudly
    per_lane = {}
    for i, op in enumerate(ops):
        ln = op.split()[0]
        a, b = per_lane.get(ln, (0, 0))
        per_lane[ln] = (a + 1, b + (raw[i] is not None))
    for ln, (n, seen) in per_lane.items():
        if n >= 20 and seen < n // 2 and not any(r == 'crash' for r in raw):
            raise C.Infra(f'lane {ln}: only {seen} of {n} operations observed (machinery error)')
    impl, facts = [], []
    for r in raw:
        if r is None:
            impl.append(None)
            facts.append({})
        else:
            a, _, b = r.partition(' # ')
            impl.append(a)
            facts.append(dict(x.split('=', 1) for x in b.split() if '=' in x))
    exe, err = C.build_driver()
    if exe is None:
        return impl, facts, None, err
    model = C.run_driver(exe, ops_path, os.path.join(C.BUILD, f'{tag}.model'))
    return impl, facts, model, ''


# ------------------------------------------------------------------ the property, stated on the implementation

def parse_op(cat, op):
    """-> dict(lane, outs[list], boxes[list of None|type name], payload_zero[list])"""
    toks = op.split(' ;; ')[0].split()
    lane = toks[0]

    def read_box(i):
        if toks[i] == 'nil':
            return None, i + 1
        name = toks[i]
        j = skip_payload(cat, cat.types[name]['ty'], toks, i + 1)
        return name, j

    if lane in ('c09.tv', 'c09.when'):
        b, _ = read_box(2)
        return {'lane': lane, 'outs': [toks[1]], 'boxes': [b]}
    if lane == 'c09.isz':
        return {'lane': lane, 'outs': [], 'boxes': [toks[1]], 'payload': toks[2:]}
    if lane in ('c09.in', 'c09.whenv', 'c09.when2', 'c09.meth'):
        if lane == 'c09.in':
            outs, k, i = [toks[1], toks[2]], int(toks[3]), 4
        elif lane == 'c09.whenv':
            outs, k, i = [toks[1]], int(toks[2]), 3
        elif lane == 'c09.when2':
            outs, k, i = [toks[1], toks[2]], 2, 3
        else:
            outs, k, i = [toks[2]], int(toks[3]), 4
        boxes = []
        for _ in range(k):
            b, i = read_box(i)
            boxes.append(b)
        if lane == 'c09.whenv':
            outs = outs * k
        return {'lane': lane, 'outs': outs, 'boxes': boxes}
    if lane in ('c09.matches', 'c09.seq', 'c09.whenseq', 'c09.whenand'):
        nt = int(toks[1])
        outs = toks[2:2 + nt]
        i = 2 + nt
        ng = 1
        if lane != 'c09.matches':
            ng = int(toks[i])
            i += 1
        groups = []
        for _ in range(ng):
            if toks[i] == 'one':
                b, i = read_box(i + 1)
                groups.append([b])
            else:
                n = int(toks[i + 1])
                i += 2
                g = []
                for _ in range(n):
                    b, i = read_box(i)
                    g.append(b)
                groups.append(g)
        return {'lane': lane, 'outs': outs, 'boxes': groups[0], 'groups': groups}
    if lane in ('c09.ret', 'c09.eval', 'c09.i2v'):
        i = 1
        variadic = None
        if lane == 'c09.i2v':
            variadic = toks[1] == '1'
            i = 2
        nt = int(toks[i])
        outs = toks[i + 1:i + 1 + nt]
        i = i + 1 + nt
        no = int(toks[i])
        i += 1
        boxes = []
        for _ in range(no):
            b, i = read_box(i)
            boxes.append(b)
        return {'lane': lane, 'outs': outs, 'boxes': boxes, 'variadic': variadic}
    return {'lane': lane, 'outs': [], 'boxes': []}


NEG_ZERO = str(1 << 63)


def payload_all_zero(toks, neg_zero_is_zero=False):
    """every leaf of the payload is the all-zero-bits value (so the Go value is the zero value of its type)"""
    zf = ('0', NEG_ZERO) if neg_zero_is_zero else ('0',)
    i = 0
    while i < len(toks):
        t = toks[i]
        if t == 'agg':
            i += 2
        elif t == 'c':
            if toks[i + 1] not in zf or toks[i + 2] not in zf:
                return False
            i += 3
        elif neg_zero_is_zero and t == 'f' + NEG_ZERO:
            i += 1
        elif t in ('b0', 'i0', 'u0', 'f0', 's-', 'z', 'inil'):
            i += 1
        else:
            return False
    return True


def skip_payload(cat, ty, toks, i):
    u = under(ty)
    k = u[0]
    if k == 'prim' and u[1] in ('complex64', 'complex128'):
        return i + 3
    if k in ('arr', 'strct'):
        n = int(toks[i + 1])
        i += 2
        subs = [u[2]] * n if k == 'arr' else [ft for _, ft in u[1]]
        for st in subs:
            i = skip_payload(cat, st, toks, i)
        return i
    if k == 'iface':
        if toks[i] == 'inil':
            return i + 1
        return skip_payload(cat, cat.types[toks[i + 1]]['ty'], toks, i + 2)
    return i + 1


def classify(cat, out, sup):
    """What the property demands for supplying `sup` (None = untyped nil) where `out` is declared:
       'zero'     nil -> typed zero value              (pointer, interface, slice, map, channel, func)
       'same'     a value of the declared type arrives unaltered
       'boxed'    an implementing value arrives boxed with dynamic type and content intact
       'standin'  identical layout struct / struct pointer is accepted, content intact
       'reject'   must not be delivered (size differs; or cannot be an `out` at all)
       None       the statement does not say (same size, other type; nil for a non-nilable kind)"""
    o = cat.types[out]
    if sup is None:
        return 'zero' if o['kind'] in NILABLE_PROP else None
    s = cat.types[sup]
    if '*iface.IContext' in (s['gostr'],):
        return None          # deliberately refused by toValue with a message ("goom not support Return() API when returns mocked interface type")
    if sup == out:
        return 'same'
    if o['kind'] == 'iface':
        return 'boxed' if out in s['impl'] else 'reject'
    if s['size'] != o['size']:
        return 'reject'
    if o['kind'] == 'strct' and s['kind'] == 'strct' and s['layout'] == o['layout']:
        return 'standin'
    if o['kind'] == 'ptr' and s['kind'] == 'ptr':
        lo, ls = cat.pointee_layout(out), cat.pointee_layout(sup)
        uo, us = under(o['ty']), under(s['ty'])
        if lo is not None and lo == ls and under(uo[1])[0] == 'strct' and under(us[1])[0] == 'strct':
            return 'standin'
    return None


def cross_rep(cat, sup, out):
    """Props/C09.lean `CrossRep` on catalogue facts (from reflection): the supplied value is accepted and retyped although its
    kind or its representation class (pointer-shaped vs indirect) differs from the declared type's — the model's `unmodelled`."""
    if sup is None or sup == out:
        return False
    s, o = cat.types[sup], cat.types[out]
    return (o['kind'] in ('strct', 'ptr') and s['size'] == o['size'] and 'IContext' not in o['gostr']
            and (s['kind'] != o['kind'] or s['direct'] != o['direct']))


def judge_when_multi(cat, lane, outs, boxes, obs, facts):
    """When(x1..xk) / arg.In(x1..xk): every value is converted at the declared type of the position / function it is used for,
    a value that cannot be a value of that type is rejected, and an accepted one answers a call with that very value."""
    def one(decl, bs, state, matches, what):
        wants = [classify(cat, d, b) for d, b in zip(decl, bs)]
        if 'reject' in wants:
            return None if state != 'ok' else f'{what}: {bs} accepted where {decl} is declared (must be rejected, not reinterpreted)'
        if all(w is not None for w in wants) and bs:
            if state != 'ok':
                return f'{what}: {wants}: {bs} must be accepted where {decl} is declared, got {state}'
            for m in matches:
                if m not in ('1', '-'):
                    return f'{what}: an accepted value does not answer the call made with that very value (match={m})'
        return None
    if lane == 'c09.in':
        kv = dict(x.split('=', 1) for x in obs.split())
        for t, p in (('1', outs[0]), ('2', outs[1])):
            why = one([p] * len(boxes), boxes, kv.get('t' + t), facts.get('m' + t, '-').split(','), f'In(...) used on func({p})')
            if why:
                return why
        return None
    why = one(outs, boxes, obs.split()[0], [facts.get('match', '-')], 'When(...)')
    if why is None and lane == 'c09.whenv' and obs.startswith('ok') and boxes and facts.get('match') == '1' and facts.get('fewer') == '1':
        return 'When(x1..xk) on a variadic function also answers the call with one argument fewer'
    return why


def judge_call(cat, lane, outs, boxes, obs, facts):
    """The property on one configured stub + one call: `boxes` supplied where `outs` is declared, `obs` observed."""
    f = obs.split()
    if len(boxes) != len(outs):
        return None if not obs.startswith(('got', 'eval ')) or obs.startswith('eval panic') else 'a wrong number of results was accepted'
    wants = [classify(cat, o, b) for o, b in zip(outs, boxes)]
    delivered = obs.startswith('got') or (obs.startswith('eval ') and not obs.startswith(('eval panic', 'eval unmodelled')))
    if 'reject' in wants:
        return None if not delivered else f'{boxes} delivered where {outs} is declared (must be rejected, not reinterpreted)'
    if obs.startswith('cfgok') or obs.startswith('eval unmodelled'):
        return None if all(w is None for w in wants) else f'demanded case classified unmodelled: {wants}'
    if all(w is not None for w in wants) and not delivered:
        return f'{wants}: supplying {boxes} where {outs} is declared must be delivered, got {obs}'
    if not delivered:
        return None
    if lane == 'c09.eval':
        rts = facts.get('rt', '').split(',')
        for i, w in enumerate(wants):
            if w is not None and (i >= len(rts) or rts[i] != 'true'):
                return f'Eval() result {i} is not the supplied value ({w})'
        return None
    sames = facts.get('same', '').split(',')
    for i, w in enumerate(wants):
        ty, fk, shape = f[1 + i].split('/')
        if ty != outs[i]:
            return f'result {i} has type {ty}, declared {outs[i]}'
        if w == 'zero':
            if shape not in ('nil', 'iface:nil'):
                return f'result {i}: nil arrived as {shape}'
            if cat.types[outs[i]]['kind'] == 'iface' and len(outs) == 1 and lane != 'c09.seq' and facts.get('eqnil') != 'true':
                return f'a nil {outs[i]} result does not compare equal to nil at the caller'
        if w == 'boxed' and shape != 'iface:' + boxes[i]:
            return f'result {i}: dynamic type {shape}, supplied {boxes[i]}'
        if (w is not None or sames[i] != '-') and sames[i] != 'true':
            return f'result {i} ({w}): content altered'
    return None


def oracle(cat, op, obs, facts):
    """None when the property holds on this observation, else a sentence."""
    if obs is None:
        return 'no observation (probe crashed?)'
    if obs.startswith('probe-error') or obs == 'crash':
        return 'the probe could not run this operation: ' + obs
    p = parse_op(cat, op)
    lane = p['lane']
    f = obs.split()
    if lane == 'c09.isz':
        # isZero must agree with Go's own notion of the zero value, except that goom compares floats by bits (-0.0 is not zero;
        # reflect.Value.IsZero agrees on that since Go 1.13 for floats) — state only: zero payload -> true, stdlib true <-> goom true
        if obs not in ('true', 'false'):
            return 'isZero did not return: ' + obs
        allzero = payload_all_zero(p['payload'])
        if not allzero and payload_all_zero([t for t in p['payload']], neg_zero_is_zero=True):
            return None     # only -0.0 leaves differ: V2I feeds isZero pointers/interfaces only, so either answer keeps the property
        if obs != str(allzero).lower():
            return f'isZero = {obs} on a value whose bits are {"all" if allzero else "not all"} zero'
        return None
    if lane == 'c09.i2v':
        if obs.startswith('ok'):
            n = int(f[1])
            if n != len(p['boxes']):
                return f'I2V returned {n} values for {len(p["boxes"])} supplied'
            nt = len(p['outs'])
            if (not p['variadic'] and n != nt) or (p['variadic'] and n < nt - 1):
                return 'I2V accepted a wrong number of values'
        return None
    outs, boxes = p['outs'], p['boxes']
    if lane in ('c09.in', 'c09.when2', 'c09.whenv'):
        return judge_when_multi(cat, lane, outs, boxes, obs, facts)
    if lane == 'c09.meth':
        lane = 'c09.ret'
    if lane in ('c09.whenseq', 'c09.whenand'):
        if obs.startswith('got') and facts.get('dflt') != 'true':
            return 'after When(1).Returns(...) a non-matching argument no longer gets the default results'
        lane = 'c09.seq'
    if lane in ('c09.tv', 'c09.ret', 'c09.eval', 'c09.matches') and len(outs) == 1 and len(boxes) == 1:
        inside = cross_rep(cat, boxes[0], outs[0])
        if inside != ('unmodelled' in obs):
            return (f'boundary of the model: ({boxes[0]} -> {outs[0]}) is {"inside" if inside else "outside"} the CrossRep predicate '
                    f'but the implementation-side observation is `{obs}`')
    if lane in ('c09.tv', 'c09.when'):
        want = classify(cat, outs[0], boxes[0])
        delivered = obs.startswith('ok')
        if want == 'reject':
            return None if not delivered else f'a {boxes[0]} value was accepted where {outs[0]} is declared (must be rejected, not reinterpreted)'
        if want is None:
            if delivered and facts.get('same') == 'false':
                return 'accepted value was altered'
            return None
        if not delivered:
            return f'{want}: supplying {boxes[0] or "nil"} where {outs[0]} is declared must be accepted, got {obs}'
        if lane == 'c09.when':
            if facts.get('match') not in ('1', '-') and want in ('zero', 'same', 'boxed', 'standin'):
                return f'When({boxes[0] or "nil"}) does not match the same value passed as argument (match={facts.get("match")})'
            if facts.get('near') == '1' and want == 'same':
                return f'When({boxes[0]}) also answers a call whose argument differs in its lowest bit / by one appended byte: the value was altered before comparison'
            return None
        ty, fk, shape = f[1].split('/')
        if ty != outs[0]:
            return f'converted value has type {ty}, declared {outs[0]}'
        if want == 'zero' and shape not in ('nil', 'iface:nil'):
            return f'nil became {shape}, not the zero value'
        if want == 'boxed' and shape != 'iface:' + boxes[0]:
            return f'dynamic type lost: {shape}, supplied {boxes[0]}'
        if facts.get('same') != 'true':
            return f'{want}: content altered (same={facts.get("same")})'
        if want == 'same' and facts.get('rt') == 'false':
            s = cat.types[boxes[0]]
            if not (s['kind'] == 'ptr' and obs.endswith('v2i=nil')):      # nil pointers come back as untyped nil, by design of V2I
                return 'V2I(I2V(v)) is not v'
        return None
    if lane in ('c09.ret', 'c09.eval', 'c09.matches'):
        why = judge_call(cat, lane, outs, boxes, obs, facts)
        if why is None and lane == 'c09.matches' and obs.startswith('got') and facts.get('dflt') != 'true':
            return 'after Matches the non-matching argument no longer gets the default results'
        return why
    if lane == 'c09.seq':
        groups = p['groups']
        if obs.startswith(('cfgpanic', 'cfgok')):
            whys = [judge_call(cat, lane, outs, g, obs, {}) for g in groups]
            return whys[0] if all(whys) else None
        segs = obs.split(' | ')
        sames = facts.get('same', '').split(';')
        if len(segs) != len(groups) + 1:
            return f'{len(groups) + 1} calls made, {len(segs)} observed'
        for i, seg in enumerate(segs):
            g = groups[min(i, len(groups) - 1)]
            why = judge_call(cat, lane, outs, g, seg, {'same': sames[i] if i < len(sames) else ''})
            if why:
                return f'call {i} of a Returns sequence: {why}'
        return None
    return None
    return None


# ------------------------------------------------------------------ run / replay

def run(tier):
    out = C.Outcome('C09', tier)
    rng = C.Rng(C.seed()).fork('C09')
    ok, msg, changed = regen_kinds()
    if ok:
        proof = C.prove('C09', leanchecker=(tier == 'thorough'))
    else:
        proof = {'ok': False, 'failed': [('kind-list extractor', msg)], 'obligations': 0, 'discharged': 0, 'cmds': [], 'axioms': {}}
    cat = load_catalog()
    ops, dist = gen_ops(cat, rng, tier)
    corpus = os.path.join(C.HARNESS, 'c09', 'regress.ops')
    pre = []
    if os.path.exists(corpus):
        vg = ValGen(cat, rng)
        for ln in open(corpus):
            ln = ln.strip()
            if ln and not ln.startswith('#'):
                names = [t for t in ln.split() if t in cat.types]
                pre.append(ln + ' ' + trailer(cat, names))
    ops = list(dict.fromkeys(pre + ops))
    impl, facts, model, derr = execute(ops)
    bad = []
    for i, op in enumerate(ops):
        why = oracle(cat, op, impl[i], facts[i])
        if why:
            bad.append((i, op, why))
    seen = set()
    for i, op, why in bad:
        key = (why.split(':')[0][:6], (impl[i] or 'none').replace('cfg', '').split()[0])   # one report per (demand class, outcome class)
        if key in seen:
            continue
        seen.add(key)
        out.violation(f'{op.split(" ;; ")[0]}: {why}', {'kind': 'impl-oracle', 'ops': [op], 'observed': impl[i], 'facts': facts[i], 'why': why,
                                                      'model': model[i] if model else None,
                                                      'how': 'python3 check.py C09 --replay <this file>', 'n_failing_ops': len(bad)})
        if len(seen) >= 4:
            break
    diffs = C.diff_streams(ops, impl, model) if model is not None else []
    if model is None:
        proof['failed'].append(('goomdrv', 'driver does not build: ' + derr[-500:]))
    if not bad:
        if diffs:
            i, op, a, b = diffs[0]
            out.violation(f'model and implementation disagree on `{op.split(" ;; ")[0]}`',
                          {'kind': 'correspondence', 'ops': [op], 'impl': a, 'model': b,
                           'broken': 'correspondence Model/Convert.lean vs arg/value.go + Return/When/Eval', 'n_disagreements_shown': len(diffs)},
                          no_failing_input=True)
        elif not proof['ok']:
            out.violation('proof obligations of Props/C09.lean no longer check and no failing input was found in the search',
                          {'kind': 'proof', 'broken': proof['failed'], 'searched': len(ops), 'output': proof.get('output', '')[-3000:]},
                          no_failing_input=True)
    classes = {}
    for i, op in enumerate(ops):
        lane = op.split()[0]
        o = impl[i] or 'none'
        cls = o.split()[0] if not o.startswith('ok') else 'ok'
        classes[f'{lane} {cls}'] = classes.get(f'{lane} {cls}', 0) + 1
    demand = {}
    for op in ops:
        p = parse_op(cat, op)
        if p['lane'] in ('c09.tv', 'c09.ret', 'c09.when', 'c09.eval', 'c09.matches', 'c09.meth', 'c09.when2', 'c09.whenv') and len(p['outs']) == len(p['boxes']):
            for o, b in zip(p['outs'], p['boxes']):
                w = classify(cat, o, b) or 'unstated'
                demand[w] = demand.get(w, 0) + 1
    crossrep = {'ops_with_a_pair_inside_CrossRep': 0, 'pairs_inside_CrossRep': 0, 'pairs_total': 0,
                'impl_observations_unmodelled': sum(1 for x in impl if x and 'unmodelled' in x),
                'model_observations_unmodelled': sum(1 for x in (model or []) if x and 'unmodelled' in x), 'distinct_type_pairs_inside': set()}
    for op in ops:
        p = parse_op(cat, op)
        groups = p.get('groups') or [p['boxes']]
        if p['lane'] == 'c09.i2v':
            continue        # conversion only, nothing is called or read back
        hit = False
        for g in groups:
            for o, b in zip(p['outs'], g):
                crossrep['pairs_total'] += 1
                if cross_rep(cat, b, o):
                    crossrep['pairs_inside_CrossRep'] += 1
                    crossrep['distinct_type_pairs_inside'].add((b, o))
                    hit = True
        crossrep['ops_with_a_pair_inside_CrossRep'] += hit
    crossrep['distinct_type_pairs_inside'] = len(crossrep['distinct_type_pairs_inside'])
    nontrivial = len({(op.split(' ;; ')[0]) for i, op in enumerate(ops)
                      if impl[i] and (impl[i].startswith(('ok', 'got', 'eval ', 'true', 'false', 'callpanic:assign | got')) and not impl[i].startswith('eval panic'))})
    pick = [i for i in (0, len(ops) // 5, len(ops) // 2, (4 * len(ops)) // 5, len(ops) - 1) if 0 <= i < len(ops)]
    out.coverage = {
        'obligations': proof['obligations'], 'discharged': proof['discharged'],
        'checker_cmd': ' ; '.join(proof['cmds']),
        'trusted_base': ['Lean 4.33 kernel', 'axioms: ' + ', '.join(sorted({a for v in proof['axioms'].values() for a in v}) or ['none']),
                         'the model\'s description of reflect (ValueOf/Zero/Set/Interface/IsNil/assignability/struct layout), cross-checked against the real reflect on every evaluation below',
                         'the regex extractor of the three kind lists of arg/value.go (rejects any other shape of the conditions)',
                         'unsafe retyping modelled as relabelling of the type word (memory images compared by the probes for every retyped value that was delivered)',
                         'harness/c09 probes, their canonicalisation and the catalogue'],
        'theorems': proof['axioms'], 'proof_failures': proof['failed'],
        'evaluations': len(ops), 'distinct_nontrivial': nontrivial,
        'traces_validated_against_impl': len(ops) - len(diffs),
        'rule': 'one evaluation = one operation line (declared type(s) x supplied value(s)) run through the real goom code and the model; '
                'non-trivial = distinct lines on which the implementation accepted/delivered a value (or answered isZero)',
        'distribution': {'declared_types': len(cat.names), 'lanes': dist, 'impl_outcome_classes': dict(sorted(classes.items())),
                         'property_demand_classes': demand, 'unmodelled_boundary': crossrep, 'kind_lists_today': extract_kind_lists()[0], 'gen_modules_changed_this_run': changed},
        'samples': [{'op': ops[i].split(' ;; ')[0], 'impl': impl[i], 'facts': facts[i], 'model': model[i] if model else None} for i in pick],
    }
    out.assumptions = ['Go memory layout: identical field layout means identical meaning of the bytes', 'reflect behaves as described in Model/Convert.lean (checked by the differential run)',
                       'values retyped across kinds / representation classes are accepted by goom and not followed further']
    return out.finish()


def replay(body):
    ops = body.get('ops', [])
    cat = load_catalog()
    impl, facts, model, _ = execute(ops, tag='c09-replay')
    rc = 0
    for i, op in enumerate(ops):
        why = oracle(cat, op, impl[i], facts[i])
        print(f'{op.split(" ;; ")[0]}\n  impl : {impl[i]}  {facts[i]}\n  model: {model[i] if model else None}\n  oracle: {why or "ok"}')
        if why or (model and impl[i] != model[i]):
            rc = 1
    return rc


def regen_setup():
    return regen_kinds()[:2]
