"""C08 — variable mocks take effect for every type and restore the pre-mock value.

Proof: Props/C08.lean proves, about the executable model Model/Var.lean (a transcription of var.go, ue_var.go and
builder.go Var/UnExportedVar/Reset with fix F8), for every type, every value and every history of lookups, Set, Apply,
Cancel, Reset and direct assignments: the value a variable had before its first mock is what it holds after
Cancel/Reset; Cancel/Reset never panic and do not touch a variable that is not mocked; readers see the last set value;
other variables are untouched.

Tie X: an in-package probe of package `mocker` runs whole histories on the real Builder.Var / Builder.UnExportedVar over
25 variable types (two variables each), by pointer and by "package.name" through the ELF symbol table of the test
binary; `goomdrv` runs the model on the same lines; the observation after every operation (outcome class, every variable
read directly and through an accessor, Canceled() of every handle) must be equal.  The type table itself is tied by
comparing reflect's AssignableTo with the model's `assignable` on all pairs.  A second, stripped binary checks that
lookup by name fails with an error and that pointer mocks still work.

The oracle below states the property on the implementation's observations without consulting the model.
"""
import os

from vlib import common as C

META = {
    'property_id': 'C08',
    'technique': 'Lean 4 theorems by induction over arbitrary histories of an executable model of var.go/ue_var.go/builder.go (Var, UnExportedVar, Pkg, Reset) + differential run of whole histories against the real code over 26 variable types, by pointer and by symbol name, incl. heap-built values under forced garbage collection',
    'level': 'proof',
    'level_text': 'Full proof on the model: for every variable type and value (incl. nil interfaces and typed nils), and every history of lookups through the builder cache (any pending Pkg override), Set, Apply, Cancel, Reset (any map iteration order) and direct assignments in which no two mockers hold a mock of one variable at the same time, the variable holds after Cancel/Reset exactly the value it had before its first mock; a well-typed Set/Apply succeeds and makes the variable hold the value; Cancel/Reset never panic and leave un-mocked variables untouched (also when repeated); failed Set/Apply and operations on other variables leave it untouched; every lookup returns the one mocker of (builder, variable). Without that discipline (several builders on one variable) the per-mocker clause is proved for Reset-free histories (restore_own_first_partial). The theorems are about the code with fixes F8 and F27; the unrepaired code and the three known findings are refuted in Findings/C08F8.lean and by replayable inputs.',
    'level_note': 'Trusted: Lean kernel (axioms propext, Classical.choice, Quot.sound at most); the hand-written model Model/Var.lean, tied to the current source on every run by differential execution of thousands of histories (26 types incl. a 64-byte struct, variables of another package with initialised data, both addressing modes, malformed values and callbacks, kept handles, two builders, other mocker kinds in the builder, Pkg overrides); the three facts about reflect the model encodes (ValueOf(nil) is invalid, Set panics on invalid/non-assignable, assignability rule - compared with reflect on all type pairs each run). Observed, not proved: that the saved origin stays reachable for the garbage collector and is copied whole (heap-built pre-mock values + forced GC + allocation churn lane), exact symbol-name resolution (decoy symbols: longer names, same short name in another package, path-suffix package). Not exercisable here: the load slide (PIE lookup fails on this toolchain even on unchanged code; probes are pinned to -buildmode=exe). Known findings (demonstrated on every run, exit 0): K-C08-ue-iface (unexported interface-typed variable by name), K-C08-mixed-addressing (pointer and name for one variable in one builder), K-C08-set-nil-interface. Not modelled: overlaying an unexported variable with another type (documented unpredictable), overlapping variables (&s and &s.f share a cache key), data races.',
}

H = os.path.join(C.HARNESS, 'c08')
FILES = {'zz_verif_c08_test.go': os.path.join(H, 'var_probe_test.go'),
         'zz_verif_c08_vars_test.go': os.path.join(H, 'vars_probe_test.go')}

# type table (must agree with Drv.C08.tyTable and harness/c08/mkprobe.py; the c08.asg lane checks that it does)
POOL = {'int': 4, 'int8': 4, 'uint16': 4, 'int64': 4, 'uint64': 4, 'f64': 4, 'bool': 2, 'string': 4, 'c128': 4, 'arr': 4,
        'slice': 4, 'map': 4, 'struct': 4, 'ptr': 4, 'func': 4, 'chan': 4, 'uptr': 4, 'myint': 4, 'islice': 4, 'uintptr': 4,
        'perr': 4, 'verr': 4, 'big': 4}
IFACE = {'err': ['perr', 'verr'], 'any': sorted(POOL), 'str': ['verr']}
TYPES = sorted(POOL) + sorted(IFACE)
UNDER = {'islice': 'slice', 'slice': 'islice'}          # identical underlying types, one side unnamed
FRESH = {'string', 'slice', 'map', 'ptr', 'struct', 'perr', 'big'}   # types with heap-built values (rep 10..13), see harness
CBS_BAD = ['notfunc', 'nilfunc', 'args', 'rets0', 'rets2', 'panics']


XVARS = ['xint', 'xstring']          # initialised variables of another package (harness/c08/goomx)


def ty_of_var(v):
    if v in XVARS:
        return v[1:]
    return v[:-1] if v.endswith('2') else v


NILABLE = {'slice', 'map', 'ptr', 'func', 'chan', 'uptr', 'islice', 'perr'}   # rep 0 of these is the typed nil


def rand_val(rng, ty, allow_nil=False, exact=False, fresh=(1, 8)):
    """a well-typed value token for a variable of type ty (`nil` only where the program itself assigns);
    with probability `fresh` a heap-built value (rep 10..13) that nothing but the variable references"""
    if ty in IFACE:
        if allow_nil and rng.chance(1, 4):
            return 'nil'
        d = rng.choice(IFACE[ty])
        if d in FRESH and rng.chance(*fresh):
            return f'{d}:{10 + rng.below(4)}'
        return f'{d}:{rng.below(POOL[d])}'
    if ty in UNDER and not exact and rng.chance(1, 5):
        return f'{UNDER[ty]}:{rng.below(4)}'              # []int <-> zzIntSlice: assignable, converted by reflect
    if ty in FRESH and rng.chance(*fresh):
        return f'{ty}:{10 + rng.below(4)}'
    return f'{ty}:{rng.below(POOL[ty])}'


def stored(ty, tok):
    """what a variable of type ty holds after tok was assigned"""
    if ty in IFACE or tok == 'nil':
        return tok
    return f'{ty}:{tok.split(":")[1]}'


def bad_val(rng, ty, ue=False):
    """a value that must not be accepted: nil interface, or a type that is not assignable (never on an unexported-variable
    mocker: overlaying the variable with another type is documented as unpredictable and does corrupt memory)"""
    if ue or ty == 'any' or rng.chance(1, 3):
        return 'nil'
    while True:
        d = rng.choice(sorted(POOL))
        if d == ty or UNDER.get(ty) == d:
            continue
        if ty in IFACE and d in IFACE[ty]:
            continue
        return f'{d}:{rng.below(POOL[d])}'


class Hist:
    """one generated history + what the generator knows about it (for the oracle)"""

    def __init__(self):
        self.vars, self.init, self.ops, self.meta = [], {}, [], []
        self.lane = 'disc'

    def line(self):
        hdr = ' '.join(f'{v}={self.init[v]}' for v in self.vars)
        return 'c08.hist ' + hdr + ' ; ' + ' ; '.join(self.ops)


def gen_hist(rng, lane, stripped=False):
    h = Hist()
    h.lane = lane
    nv = 1 + rng.below(3)
    fresh = (3, 4) if lane == 'gc' else (1, 8)
    while len(h.vars) < nv:
        t = rng.choice(TYPES)
        if lane == 'gc' and rng.chance(3, 4):
            t = rng.choice(sorted(FRESH) + ['err', 'any'])
        v = t + ('2' if rng.chance(1, 2) else '')
        if h.vars and rng.chance(1, 4):                   # the other variable of a type already present
            t = ty_of_var(h.vars[0])
            v = t + ('' if h.vars[0].endswith('2') else '2')
        if rng.chance(1, 12):
            v = rng.choice(XVARS)
        if v not in h.vars:
            h.vars.append(v)
    mode, bld = {}, {}
    for v in h.vars:
        t = ty_of_var(v)
        h.init[v] = rand_val(rng, t, allow_nil=True, exact=True, fresh=fresh)
        mode[v] = 'p' if (t in IFACE or stripped or rng.chance(1, 2)) else 'u'
        bld[v] = rng.below(2)
    nh = 0
    valid = {v: [] for v in h.vars}      # handles that denote the mocker currently cached for v
    canceled = {v: None for v in h.vars}  # None: never looked up
    allh = []                             # (handle, var)
    nops = 2 + rng.below(5 if lane != 'long' else 14)
    sets = rng.below(6)
    plan = []
    for v in h.vars:
        plan.append(('look', v))
    for _ in range(sets):
        plan.append((rng.choice(['set', 'set', 'apply']), rng.choice(h.vars)))
    # interleave extra ops
    for _ in range(nops):
        k = rng.below(100)
        plan.insert(rng.below(len(plan) + 1) if k < 50 else len(plan),
                    (('look' if k < 18 else 'cancel' if k < 40 else 'reset' if k < 60 else 'write' if k < 72 else
                      'set' if k < 84 else 'apply' if k < 92 else 'badset' if k < 96 else 'badapply'), rng.choice(h.vars)))
    plan.append((rng.choice(['cancel', 'reset']), rng.choice(h.vars)))
    if rng.chance(1, 2):
        plan.append((rng.choice(['cancel', 'reset']), rng.choice(h.vars)))
    if rng.chance(1, 12):
        plan.insert(rng.below(len(plan) + 1), ('lookbad', None))
    # garbage collections (+ allocation churn) while mocks are active; other kinds of mockers in the same builder
    for _ in range((1 + rng.below(3)) if lane == 'gc' else 0):   # only in lane gc: it runs in its own small process, a forced GC of the big op-stream heap is slow
        plan.insert(1 + rng.below(len(plan)), ('gc', None))
    if rng.chance(1, 6):
        for _ in range(1 + rng.below(2)):
            plan.insert(rng.below(len(plan) + 1), ('misc', rng.choice(h.vars)))
    # Builder.Pkg(..) overrides pending at lookups: in front of a (re-)lookup, or anywhere
    for _ in range(rng.below(3)):
        looks = [i for i, (k, _) in enumerate(plan) if k == 'look']
        if looks and rng.chance(3, 4):
            i = rng.choice(looks)
            plan.insert(i, ('pkg', plan[i][1]))
            if rng.chance(1, 2):                          # … and make sure the variable is looked up again later
                plan.insert(i + 2 + rng.below(len(plan) - i - 1), ('pkglook', plan[i + 1][1]))
        else:
            plan.insert(rng.below(len(plan) + 1), ('pkg', rng.choice(h.vars)))
    for kind, v in plan:
        if kind == 'lookbad':
            if stripped:
                h.ops.append(f'lookbad stripped {h.vars[0]}')
            else:
                h.ops.append('lookbad ' + rng.choice(['missing', 'nil', 'nonptr-int', 'nonptr-map']))
            h.meta.append(('lookbad', None, None))
            continue
        if kind == 'gc':
            h.ops.append('gc')
            h.meta.append(('gc', None, None))
            continue
        if kind == 'misc':
            h.ops.append(f'misc {bld[v]} ' + rng.choice(['struct', 'func', 'iface', 'exportfunc']))
            h.meta.append(('misc', None, None))
            continue
        if kind in ('pkg', 'pkglook'):
            h.ops.append(f'pkg {bld[v]} {1 + rng.below(2)}')
            h.meta.append(('pkg', None, None))
            if kind == 'pkg':
                continue
            kind = 'look'
        t = ty_of_var(v)
        if kind != 'look' and kind != 'write' and kind != 'reset' and not valid[v]:
            kind0 = kind
            h.ops.append(f'look {bld[v]} {mode[v]} {v}')
            h.meta.append(('look', v, None))
            valid[v] = [nh]
            allh.append((nh, v))
            nh += 1
            canceled[v] = False
            kind = kind0
        if kind == 'look':
            if lane == 'wild':
                bld[v] = rng.below(2)                # the same variable through two builders: correspondence only
            h.ops.append(f'look {bld[v]} {mode[v]} {v}')
            h.meta.append(('look', v, None))
            # one mocker per (builder, variable) for ever (fix F27): every handle ever obtained stays valid, also one
            # kept across Cancel/Reset and a re-lookup
            valid[v].append(nh)
            canceled[v] = False if canceled[v] is None else canceled[v]
            allh.append((nh, v))
            nh += 1
            continue
        if lane == 'wild' and allh and rng.chance(1, 3):
            hd, v = rng.choice(allh)
            t = ty_of_var(v)
        elif kind != 'reset' and kind != 'write':
            hd = rng.choice(valid[v])
        if kind in ('set', 'badset'):
            x = rand_val(rng, t, exact=(mode[v] == 'u')) if kind == 'set' else bad_val(rng, t, mode[v] == 'u')
            h.ops.append(f'set {hd} {x}')
            h.meta.append((kind, v, x))
            if kind == 'set':
                canceled[v] = False
            elif canceled[v]:
                canceled[v] = 'unknown'
        elif kind in ('apply', 'badapply'):
            if kind == 'apply':
                x = rand_val(rng, t, exact=(mode[v] == 'u'))
                cb = rng.choice(['reti:', 'ret:', 'ret:', 'ret:', 'vret:']) + x
            elif rng.chance(1, 3):
                x = bad_val(rng, t, mode[v] == 'u')  # a callback whose result is the nil interface or of another type
                cb = 'reti:nil' if x == 'nil' else 'ret:' + x
            else:
                cb, x = rng.choice(CBS_BAD), None
            h.ops.append(f'apply {hd} {cb}')
            h.meta.append((kind, v, x))
            if kind == 'apply':
                canceled[v] = False
            elif canceled[v]:
                canceled[v] = 'unknown'
        elif kind == 'cancel':
            h.ops.append(f'cancel {hd}')
            h.meta.append(('cancel', v, None))
            canceled[v] = True
        elif kind == 'reset':
            b = bld[v]
            h.ops.append(f'reset {b}')
            h.meta.append(('reset', [w for w in h.vars if bld[w] == b and canceled[w] is not None], None))
            for w in h.vars:
                if bld[w] == b and canceled[w] is not None:
                    canceled[w] = True
        elif kind == 'write':
            x = rand_val(rng, t, allow_nil=True, exact=True, fresh=fresh)
            h.ops.append(f'write {v} {x}')
            h.meta.append(('write', v, x))
    return h


def parse_obs(step):
    p = step.split('|')
    if len(p) != 4:
        return None
    vals = dict(kv.split('=', 1) for kv in p[1].split(',') if '=' in kv)
    return p[0], vals, p[2]


def oracle(h, obs):
    """The property, on the implementation's observations only.  Returns None or (step index, reason)."""
    if obs is None:
        return (0, 'no observation (probe crashed)', 'crash')
    steps = obs.split(' ; ')
    if len(steps) != len(h.ops):
        return (len(steps), f'history stopped after {len(steps)} of {len(h.ops)} operations: {steps[-1][:80]}', 'stopped')
    cur = dict(h.init)
    cur = {v: stored(ty_of_var(v), x) for v, x in cur.items()}
    pre = {v: None for v in h.vars}
    for k, (st, (kind, v, x)) in enumerate(zip(steps, h.meta)):
        po = parse_obs(st)
        if po is None:
            return (k, 'unparsable observation ' + st[:60], 'unparsable')
        out, vals, _ = po
        for w, val in vals.items():
            if '/' in val:
                return (k, f'{w}: direct read and accessor disagree ({val})', 'readers-disagree')
        exp = dict(cur)
        if kind in ('pkg', 'gc', 'misc'):
            if out != 'ok':
                return (k, f'{h.ops[k]} failed: {out}', 'pkg-failed')
        elif kind in ('look', 'lookbad'):
            if kind == 'look' and out != 'ok':
                return (k, f'lookup of {v} failed: {out}', 'lookup-failed')
            if kind == 'lookbad' and not out.startswith('panic:'):
                return (k, 'a lookup that cannot succeed did not fail', 'lookup-not-rejected')
        elif kind in ('set', 'apply'):
            if out != 'ok':
                return (k, f'{h.ops[k]}: a well-typed value was not set ({out})', f'{kind}-rejected:{out}')
            exp[v] = stored(ty_of_var(v), x)
            if pre[v] is None:
                pre[v] = cur[v]
        elif kind in ('badset', 'badapply'):
            # must be rejected leaving everything untouched; were `nil` ever accepted it has to mean the zero value
            if out.startswith('ok'):
                t = ty_of_var(v)
                if x != 'nil' or not (t in IFACE or t in NILABLE):
                    return (k, f'{h.ops[k]}: a value that is not assignable to {v} was accepted ({out})', 'bad-value-accepted')
                exp[v] = 'nil' if t in IFACE else f'{t}:0'
                if pre[v] is None:
                    pre[v] = cur[v]
        elif kind == 'cancel':
            if out != 'ok':
                st8 = "mocked" if pre[v] is not None else "not mocked"
                return (k, f'{h.ops[k]} (variable {v}, {st8}): Cancel must not fail ({out})', f'cancel-fails:{out}:{st8}')
            if pre[v] is not None:
                exp[v] = pre[v]
                pre[v] = None
        elif kind == 'reset':
            if out != 'ok':
                return (k, f'{h.ops[k]}: Reset must not fail ({out})', f'reset-fails:{out}')
            for w in v:
                if pre[w] is not None:
                    exp[w] = pre[w]
                    pre[w] = None
        elif kind == 'write':
            exp[v] = stored(ty_of_var(v), x)
        if kind in ('set', 'apply') and out.startswith('ok-callback'):
            return (k, 'the Apply callback must run exactly once: ' + out, 'callback-count')
        for w in h.vars:
            if vals.get(w) != exp[w]:
                why = {'cancel': 'after Cancel', 'reset': 'after Reset', 'set': 'after Set', 'apply': 'after Apply'}.get(kind, f'after {kind}')
                what = ('restore' if kind in ('cancel', 'reset') and exp[w] != cur[w] else 'take-effect' if kind in ('set', 'apply') and w == v
                        else 'untouched')
                return (k, f'{w} holds {vals.get(w)} {why} (`{h.ops[k]}`), the property demands {exp[w]}', f'{what}:{kind}')
        cur = exp
    return None


_BIN = {}
STATS = {'probe_crashes': 0, 'unreproduced_crashes': 0, 'probe_timeouts': 0}
PROBE_ENV = {'GOOM_DEBUG': ''}     # goom's own environment knob (debug logging) must not leak into the probes


def build_probe(tag, ldflags):
    """`go test -c -overlay` of the root package with the probe files, pinned to -buildmode=exe: lookup by name reads
    .gopclntab/.symtab of a non-PIE binary (a PIE default would make every by-name lookup fail on correct code)."""
    if tag not in _BIN:
        import json
        repl = {os.path.join(C.REPO, v): real for v, real in FILES.items()}
        pk = dict(C.helper_pkgs())
        pk['zzverifx'] = {'x.go': os.path.join(H, 'goomx', 'x.go')}
        pk['internal/zzverif/c08a/github.com/tencent/goom/zzverifx'] = {'y.go': os.path.join(H, 'goomy', 'y.go')}
        for vdir, fmap in pk.items():
            for vname, real in fmap.items():
                repl[os.path.join(C.REPO, vdir, vname)] = real
        ov = os.path.join(C.BUILD, f'{tag}.overlay.json')
        json.dump({'Replace': repl}, open(ov, 'w'), indent=1)
        out = os.path.join(C.BUILD, f'{tag}.test')
        if os.path.exists(out):
            os.remove(out)
        cmd = ['go', 'test', '-c', '-o', out, '-overlay', ov, '-vet=off', '-buildmode=exe', '-gcflags=all=-l', '-ldflags=' + ldflags, '.']
        rc, o, e = C.sh(cmd, cwd=C.REPO, env=C.goenv({'GOOM_DEBUG': ''}), timeout=1800)
        if rc != 0 or not os.path.exists(out):
            raise C.Infra(f'probe {tag} does not build against the current tree:\n{(o + e)[-3000:]}')
        _BIN[tag] = out
    return _BIN[tag]


def _probe_once(binary, ops_path, outp, start, timeout):
    """one probe process; returns (rc, log); rc = 'timeout' if it had to be killed"""
    import subprocess
    try:
        return C.run_probe(binary, 'TestVerifC08', ops_path, outp, env=dict(PROBE_ENV, VERIF_START=str(start)), timeout=timeout)
    except subprocess.TimeoutExpired:
        STATS['probe_timeouts'] += 1
        return 'timeout', 'probe killed after timeout'


def run_impl(binary, ops, tag, timeout=None):
    """Run the probe (timeout >= 10x the typical wall time).  A crash or kill loses nothing before it: the line it died on
    is re-run ONCE alone (only a reproducing crash/timeout is reported as the observation `crash`), then the remainder."""
    if timeout is None:
        timeout = 1800 + len(ops) // 10          # typical: 1 ms per history unloaded; >= 10x that plus a floor
    ops_path = os.path.join(C.BUILD, f'{tag}.ops')
    open(ops_path, 'w').write('\n'.join(ops) + '\n')
    impl = [None] * len(ops)
    start, crashes = 0, 0
    while start < len(ops):
        outp = os.path.join(C.BUILD, f'{tag}.impl')
        rc, log = _probe_once(binary, ops_path, outp, start, timeout)
        got = C.read_indexed(outp, len(ops))
        last = start - 1
        for i, v in enumerate(got):
            if v is not None:
                impl[i] = v
                last = max(last, i)
        if rc == 0:
            break
        crashes += 1
        STATS['probe_crashes'] += 1
        bad = last + 1
        if bad < len(ops):
            one = os.path.join(C.BUILD, f'{tag}.one.ops')
            open(one, 'w').write(ops[bad] + '\n')
            rc1, _ = _probe_once(binary, one, outp + '.one', 0, timeout)
            g1 = C.read_indexed(outp + '.one', 1)
            if rc1 == 0 and g1[0] is not None:
                impl[bad] = g1[0]
                STATS['unreproduced_crashes'] += 1
            else:
                impl[bad] = 'crash'
        start = bad + 1
        if crashes > 20:
            raise C.Infra('probe keeps crashing:\n' + log[-2000:])
    return impl, ops_path


def model_prefix_equal(a, b):
    """streams agree; a model line that ends in `undefined` only constrains the steps before it"""
    if a == b:
        return True
    if a is None or b is None:
        return False
    ms = b.split(' ; ')
    if ms and ms[-1].startswith('undefined|'):
        return a.split(' ; ')[:len(ms) - 1] == ms[:-1]
    return False


def execute(lines, tag, stripped=False):
    binary = build_probe('c08-var-stripped' if stripped else 'c08-var', '-s -w' if stripped else '-s=false')
    impl, ops_path = run_impl(binary, lines, tag)
    exe, err = C.build_driver()
    if exe is None:
        return impl, None, None, err
    model = C.run_driver(exe, ops_path, os.path.join(C.BUILD, f'{tag}.model'))
    leg_path = os.path.join(C.BUILD, f'{tag}.legacy.ops')
    open(leg_path, 'w').write('\n'.join(l.replace('c08.hist', 'c08.legacy.hist', 1) for l in lines) + '\n')
    legacy = C.run_driver(exe, leg_path, os.path.join(C.BUILD, f'{tag}.legacy.model'))
    return impl, model, legacy, ''


CORPUS = [  # the confirmed defects of F8 and their relatives, run first on every seed
    # a handle kept across Cancel and a re-lookup must stay the builder's mocker (F27)
    ('disc', 'int=int:1', ['look 0 p int', 'set 0 int:2', 'cancel 0', 'look 0 p int', 'set 0 int:3', 'reset 0'],
     [('look', 'int', None), ('set', 'int', 'int:2'), ('cancel', 'int', None), ('look', 'int', None), ('set', 'int', 'int:3'), ('reset', ['int'], None)]),
    ('disc', 'map=map:1', ['look 1 u map', 'apply 0 ret:map:2', 'reset 1', 'look 1 u map', 'set 0 map:3', 'cancel 1'],
     [('look', 'map', None), ('apply', 'map', 'map:2'), ('reset', ['map'], None), ('look', 'map', None), ('set', 'map', 'map:3'), ('cancel', 'map', None)]),
    # same unexported variable looked up again under a pending Pkg(..) override: must be the same mocker
    ('disc', 'int=int:1', ['look 0 u int', 'set 0 int:2', 'pkg 0 1', 'look 0 u int', 'set 1 int:3', 'cancel 1'],
     [('look', 'int', None), ('set', 'int', 'int:2'), ('pkg', None, None), ('look', 'int', None), ('set', 'int', 'int:3'), ('cancel', 'int', None)]),
    ('disc', 'ptr=ptr:1', ['pkg 0 2', 'look 0 p ptr', 'set 0 ptr:2', 'pkg 0 1', 'look 0 p ptr', 'apply 1 ret:ptr:3', 'reset 0'],
     [('pkg', None, None), ('look', 'ptr', None), ('set', 'ptr', 'ptr:2'), ('pkg', None, None), ('look', 'ptr', None), ('apply', 'ptr', 'ptr:3'),
      ('reset', ['ptr'], None)]),
    ('disc', 'int=int:1', ['look 0 p int', 'set 0 int:2', 'set 0 int:3', 'reset 0'],
     [('look', 'int', None), ('set', 'int', 'int:2'), ('set', 'int', 'int:3'), ('reset', ['int'], None)]),
    ('disc', 'int=int:1', ['look 0 p int', 'cancel 0'], [('look', 'int', None), ('cancel', 'int', None)]),
    ('disc', 'err=nil', ['look 0 p err', 'set 0 perr:1', 'cancel 0'],
     [('look', 'err', None), ('set', 'err', 'perr:1'), ('cancel', 'err', None)]),
    ('disc', 'any=nil string=string:2', ['look 0 p any', 'look 0 u string', 'apply 0 ret:map:1', 'apply 1 ret:string:1', 'apply 1 reti:string:3', 'reset 0', 'reset 0'],
     [('look', 'any', None), ('look', 'string', None), ('apply', 'any', 'map:1'), ('apply', 'string', 'string:1'), ('apply', 'string', 'string:3'),
      ('reset', ['any', 'string'], None), ('reset', ['any', 'string'], None)]),
    ('disc', 'slice=slice:1', ['look 0 p slice', 'set 0 slice:2', 'reset 0', 'write slice slice:3', 'reset 0'],
     [('look', 'slice', None), ('set', 'slice', 'slice:2'), ('reset', ['slice'], None), ('write', 'slice', 'slice:3'), ('reset', ['slice'], None)]),
    ('disc', 'f64=f64:1', ['look 0 p f64', 'set 0 f64:2', 'cancel 0', 'set 0 f64:3', 'look 0 p f64', 'set 1 f64:0', 'reset 0'],
     [('look', 'f64', None), ('set', 'f64', 'f64:2'), ('cancel', 'f64', None), ('set', 'f64', 'f64:3'), ('look', 'f64', None), ('set', 'f64', 'f64:0'),
      ('reset', ['f64'], None)]),
    ('disc', 'map=map:1 map2=map:2', ['look 0 u map', 'look 1 p map2', 'set 0 map:3', 'set 0 map:0', 'set 1 map:1', 'reset 0', 'cancel 1', 'cancel 1'],
     [('look', 'map', None), ('look', 'map2', None), ('set', 'map', 'map:3'), ('set', 'map', 'map:0'), ('set', 'map2', 'map:1'), ('reset', ['map'], None),
      ('cancel', 'map2', None), ('cancel', 'map2', None)]),
]


def corpus_hists():
    out = []
    for lane, hdr, ops, meta in CORPUS:
        h = Hist()
        h.lane = lane
        for kv in hdr.split():
            v, x = kv.split('=')
            h.vars.append(v)
            h.init[v] = x
        h.ops, h.meta = ops, meta
        out.append(h)
    return out


def asg_lines():
    return [f'c08.asg {v} {t}' for v in sorted(POOL) for t in TYPES]


def shrink(h, failing):
    """delta-debugging over the op list (meta kept in step); `failing(hist)` re-runs the implementation"""
    best = h
    changed = True
    while changed and len(best.ops) > 1:
        changed = False
        for i in range(len(best.ops)):
            c = Hist()
            c.lane, c.vars, c.init = best.lane, best.vars, best.init
            c.ops = best.ops[:i] + best.ops[i + 1:]
            c.meta = best.meta[:i] + best.meta[i + 1:]
            # removing a look shifts the handle numbers: only drop non-look ops
            if best.meta[i][0] == 'look':
                continue
            if failing(c):
                best, changed = c, True
                break
    return best


def run(tier):
    out = C.Outcome('C08', tier)
    rng = C.Rng(C.seed()).fork('C08')
    proof = C.prove('C08', leanchecker=(tier == 'thorough'))
    n_disc, n_long, n_wild, n_strip, n_gc = (1500, 200, 500, 60, 250) if tier == 'quick' else (200000, 20000, 60000, 1500, 4000)
    hists = corpus_hists()
    hists += [gen_hist(rng, 'disc') for _ in range(n_disc)]
    hists += [gen_hist(rng, 'long') for _ in range(n_long)]
    hists += [gen_hist(rng, 'wild') for _ in range(n_wild)]
    lines = [h.line() for h in hists] + asg_lines()
    impl, model, legacy, derr = execute(lines, 'c08')
    # lane gc in a process of its own (small heap: every `gc` op forces three full collections)
    ghists = [gen_hist(rng, 'gc') for _ in range(n_gc)]
    glines = [h.line() for h in ghists]
    gimpl, gmodel, glegacy, _ = execute(glines, 'c08-gc')
    shists = [gen_hist(rng, 'disc', stripped=True) for _ in range(n_strip)]
    for h in shists[:10]:
        h.ops.insert(0, f'lookbad stripped {h.vars[0]}')
        h.meta.insert(0, ('lookbad', None, None))
    slines = [h.line() for h in shists]
    simpl, smodel, _, _ = execute(slines, 'c08-stripped', stripped=True)

    # floors: a lane that silently ran nothing is a machinery error, not a pass
    answered = sum(1 for x in impl if x is not None) + sum(1 for x in simpl if x is not None) + sum(1 for x in gimpl if x is not None)
    if answered < 0.98 * (len(lines) + len(slines) + len(glines)) or STATS['probe_crashes'] > 5 and not os.environ.get('VERIF_ALLOW_CRASHES'):
        if STATS['probe_crashes'] <= 5:
            raise C.Infra(f'the probe answered only {answered} of {len(lines) + len(slines) + len(glines)} lines')
    if model is not None and len(model) != len(lines):
        raise C.Infra(f'the model driver answered {len(model)} of {len(lines)} lines')
    # 1. the property on the implementation
    bad = []
    for hs, im, which in ((hists, impl, 'symbols'), (ghists, gimpl, 'symbols'), (shists, simpl, 'stripped')):
        for i, h in enumerate(hs):
            if h.lane == 'wild':
                continue
            why = oracle(h, im[i])
            if why:
                bad.append((h, im[i], why, which))
    bad.sort(key=lambda b: len(b[0].ops))
    seen = set()
    for h, ob, why, which in bad:
        if why[2] in seen or len(seen) >= 5:
            continue
        seen.add(why[2])
        stripped = which == 'stripped'
        cls0 = why[2]

        def failing(c, stripped=stripped, cls0=cls0):
            im, _ = run_impl(build_probe('c08-var-stripped' if stripped else 'c08-var', '-s -w' if stripped else '-s=false'), [c.line()], 'c08-shrink')
            w = oracle(c, im[0])
            return w is not None and w[2] == cls0
        try:
            small = shrink(h, failing) if len(h.ops) <= 40 else h
        except Exception:
            small = h
        im, _ = run_impl(build_probe('c08-var-stripped' if stripped else 'c08-var', '-s -w' if stripped else '-s=false'), [small.line()], 'c08-shrink')
        w2 = oracle(small, im[0])
        if w2 is None:
            small, w2 = h, why
            im = [ob]
        out.violation(f'{small.line()}: step {w2[0]}: {w2[1]}',
                      {'kind': 'impl-oracle', 'ops': [small.line()], 'meta': small.meta, 'vars': small.vars, 'init': small.init, 'stripped': stripped,
                       'observed': im[0], 'why': w2[1], 'step': w2[0], 'class': w2[2], 'how': 'python3 check.py C08 --replay <this file>'})
    # 1b. known limit: an unexported variable of interface type, addressed by name (own process: the reader crashes)
    kh = Hist()
    kh.vars, kh.init, kh.ops = ['err'], {'err': 'nil'}, ['look 0 u err', 'set 0 perr:1']
    kh.meta = [('look', 'err', None), ('set', 'err', 'perr:1')]
    kimpl, _ = run_impl(build_probe('c08-var', '-s=false'), [kh.line()], 'c08-ueiface', timeout=300)
    kwhy = oracle(kh, kimpl[0])
    if kwhy:
        out.violation(f'{kh.line()}: {kwhy[1]}', {'kind': 'impl-oracle', 'ops': [kh.line()], 'meta': kh.meta, 'vars': kh.vars, 'init': kh.init,
                                                 'observed': kimpl[0], 'why': kwhy[1], 'class': 'ue-iface-var'}, key='ue-iface-var')
    # 1c. known finding: one variable addressed by pointer AND by name in one builder (two cache keys, two mockers)
    mh = []
    for ty in ['int', 'string', 'slice', 'struct']:
        for tail in (['cancel 0', 'cancel 1'], ['reset 0']):
            m = Hist()
            m.lane, m.vars, m.init = 'mixed', [ty], {ty: f'{ty}:1'}
            m.ops = [f'look 0 p {ty}', f'look 0 u {ty}', f'set 0 {ty}:2', f'set 1 {ty}:3'] + tail
            m.meta = [('look', ty, None), ('look', ty, None), ('set', ty, f'{ty}:2'), ('set', ty, f'{ty}:3')] + \
                     [('cancel', ty, None) if t.startswith('cancel') else ('reset', [ty], None) for t in tail]
            mh.append(m)
    mlines = [m.line() for m in mh]
    mimpl, mmodel, _, _ = execute(mlines, 'c08-mixed')
    for m, ob in zip(mh, mimpl):
        w = oracle(m, ob)
        if w and w[2].split(':')[0] in ('restore', 'untouched'):
            out.violation(f'{m.line()}: step {w[0]}: {w[1]}', {'kind': 'impl-oracle', 'ops': [m.line()], 'meta': m.meta, 'vars': m.vars, 'init': m.init,
                                                               'observed': ob, 'why': w[1], 'class': 'mixed-addressing'}, key='mixed-addressing')
        elif w:
            out.violation(f'{m.line()}: step {w[0]}: {w[1]}', {'kind': 'impl-oracle', 'ops': [m.line()], 'meta': m.meta, 'vars': m.vars, 'init': m.init,
                                                               'observed': ob, 'why': w[1], 'class': w[2]})
    # 1d. known finding: an interface-typed variable cannot be mocked to nil (Set(nil) / a callback returning a nil interface)
    nh_ = []
    for ops, meta in ((['look 0 p err', 'set 0 nil'], [('look', 'err', None), ('set', 'err', 'nil')]),
                      (['look 0 p any', 'apply 0 reti:nil'], [('look', 'any', None), ('apply', 'any', 'nil')])):
        m = Hist()
        v = meta[0][1]
        m.lane, m.vars, m.init, m.ops, m.meta = 'nil', [v], {v: 'perr:1'}, ops, meta
        nh_.append(m)
    nimpl, nmodel, _, _ = execute([m.line() for m in nh_], 'c08-nil')
    for m, ob in zip(nh_, nimpl):
        w = oracle(m, ob)
        if w and w[2].endswith('-rejected:panic:setZeroValue'):
            out.violation(f'{m.line()}: step {w[0]}: {w[1]}', {'kind': 'impl-oracle', 'ops': [m.line()], 'meta': m.meta, 'vars': m.vars, 'init': m.init,
                                                               'observed': ob, 'why': w[1], 'class': 'set-nil-interface'}, key='set-nil-interface')
        elif w:
            out.violation(f'{m.line()}: step {w[0]}: {w[1]}', {'kind': 'impl-oracle', 'ops': [m.line()], 'meta': m.meta, 'vars': m.vars, 'init': m.init,
                                                               'observed': ob, 'why': w[1], 'class': w[2]})
    # 2. correspondence
    diffs = []
    if model is None:
        proof['failed'].append(('goomdrv', 'driver does not build: ' + derr[-500:]))
    else:
        det = [i for i, l in enumerate(mlines) if ' reset ' not in l]     # Reset over two mockers of one variable is order-dependent
        for ls, im, mo in ((lines, impl, model), (glines, gimpl, gmodel or []), (slines, simpl, smodel), ([mlines[i] for i in det], [mimpl[i] for i in det], [mmodel[i] for i in det]),
                           ([m.line() for m in nh_], nimpl, nmodel)):
            for i, l in enumerate(ls):
                if not model_prefix_equal(im[i], mo[i] if i < len(mo) else None):
                    diffs.append((l, im[i], mo[i] if i < len(mo) else None, legacy[i] if ls is lines and legacy and i < len(legacy) else None))
    if not bad:
        if diffs:
            l, a, b, lg = diffs[0]
            note = ' (the implementation behaves exactly like the model of the UNREPAIRED code here)' if lg is not None and a == lg else ''
            out.violation(f'model and implementation disagree on `{l}`{note}',
                          {'kind': 'correspondence', 'ops': [l], 'impl': a, 'model': b, 'legacy_model': lg,
                           'broken': 'correspondence Model/Var.lean vs var.go/ue_var.go/builder.go', 'n_disagreements': len(diffs)}, no_failing_input=True)
        elif not proof['ok']:
            out.violation('proof obligations of Props/C08.lean no longer check and no failing input was found in the search',
                          {'kind': 'proof', 'broken': proof['failed'], 'searched': len(lines) + len(slines), 'output': proof.get('output', '')[-3000:]},
                          no_failing_input=True)
    # evidence
    allh = hists + ghists + shists
    allimpl = list(impl[:len(hists)]) + list(gimpl) + list(simpl)
    dist = {'lanes': {}, 'op_kinds': {}, 'outcomes': {}, 'var_types': {}, 'modes': {'p': 0, 'u': 0}, 'history_length': {}}
    nontrivial = set()
    for h, ob in zip(allh, allimpl):
        dist['lanes'][h.lane] = dist['lanes'].get(h.lane, 0) + 1
        for v in h.vars:
            dist['var_types'][ty_of_var(v)] = dist['var_types'].get(ty_of_var(v), 0) + 1
        for o, m in zip(h.ops, h.meta):
            dist['op_kinds'][m[0]] = dist['op_kinds'].get(m[0], 0) + 1
            if o.startswith('look '):
                dist['modes'][o.split()[2]] += 1
        lb = str(min(len(h.ops) // 4 * 4, 20)) + '+'
        dist['history_length'][lb] = dist['history_length'].get(lb, 0) + 1
        if ob:
            okset = False
            for st, m in zip(ob.split(' ; '), h.meta):
                oc = st.split('|')[0]
                dist['outcomes'][oc] = dist['outcomes'].get(oc, 0) + 1
                okset = okset or (m[0] in ('set', 'apply') and oc == 'ok')
            if okset:
                nontrivial.add(h.line())
    if not bad and not diffs and len(nontrivial) < 0.5 * len(allh):
        raise C.Infra(f'only {len(nontrivial)} of {len(allh)} histories had a successful Set/Apply: the generator or the probe is broken')
    out.coverage = {
        'obligations': proof['obligations'], 'discharged': proof['discharged'],
        'checker_cmd': ' ; '.join(proof['cmds']),
        'trusted_base': ['Lean 4.33 kernel', 'axioms: ' + ', '.join(sorted({a for v in proof['axioms'].values() for a in v}) or ['none']),
                         'hand-written model Model/Var.lean (tied by the differential run below)',
                         'reflect facts encoded in the model: ValueOf(nil) invalid, Set panics on invalid/non-assignable source, assignability rule (compared with reflect on every type pair each run)',
                         'probe canonicalisation harness/c08 (value identity by pool element, panic message classes)'],
        'theorems': proof['axioms'], 'proof_failures': proof['failed'],
        'evaluations': len(lines) + len(slines) + len(glines), 'distinct_nontrivial': len(nontrivial),
        'traces_validated_against_impl': len(lines) + len(slines) + len(glines) - len(diffs),
        'rule': 'one evaluation = one whole history (1-3 variables of 25 types x 2 variables, lookups by pointer or by symbol name, Set/Apply x0..7 incl. malformed values and callbacks, '
                'Cancel/Reset x1..n, direct writes, re-lookups, Builder.Pkg overrides pending at lookups; lanes: disc = one mocker per variable at a time (oracle + correspondence), long = same, longer, wild = stale handles too '
                '(correspondence only), stripped binary) or one c08.asg type pair; non-trivial = distinct history in which at least one Set/Apply succeeded on the real code',
        'distribution': dist,
        'assignability_pairs': len(asg_lines()), 'machinery': dict(STATS),
        'samples': [{'op': lines[i], 'impl': impl[i], 'model': model[i] if model else None} for i in (0, 7, len(hists) // 2, len(hists) - 1)],
    }
    out.assumptions = ['one mocker per variable at a time (one builder, one addressing mode, no superseded handles) for the restore theorems',
                       'values set on an unexported variable have the variable\'s own type (goom documents anything else as unpredictable)',
                       'no concurrent access to the variable']
    return out.finish()


def replay(body):
    lines = body.get('ops', [])
    impl, model, legacy, _ = execute(lines, 'c08-replay', stripped=bool(body.get('stripped')))
    rc = 0
    for i, l in enumerate(lines):
        print(l)
        print('  impl        :', impl[i])
        print('  model(fixed):', model[i] if model else None)
        print('  model(as published):', legacy[i] if legacy else None)
        if body.get('meta'):
            h = Hist()
            h.vars, h.init, h.ops = body['vars'], body['init'], l.split(' ; ')[1:]
            h.meta = [tuple(m) for m in body['meta']]
            why = oracle(h, impl[i])
            print('  oracle      :', f'step {why[0]}: {why[1]}' if why else 'ok')
            if why:
                rc = 1
        if model and not model_prefix_equal(impl[i], model[i]):
            rc = 1
    return rc
