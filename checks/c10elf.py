"""C10 support: the check's OWN reader of what goom reads from the executable (ELF section table, .symtab,
Go pclntab function table) and a byte-level patcher that derives alternative executables from a linked test
binary.  Nothing here shares code with debug/elf / debug/gosym, which is what goom uses: the model's input is
extracted from the file by an independent path.

Only what the generated binaries contain is supported: ELF64 little-endian, pclntab versions go1.18/go1.20
(magic 0xfffffff0 / 0xfffffff1)."""
import struct

SHT_NULL, SHT_SYMTAB, SHT_NOBITS = 0, 2, 8


class Elf:
    def __init__(self, data):
        self.d = bytearray(data)
        d = self.d
        if d[:4] != b'\x7fELF' or d[4] != 2 or d[5] != 1:
            raise ValueError('not ELF64 LE')
        (self.e_type,) = struct.unpack_from('<H', d, 16)
        self.shoff, = struct.unpack_from('<Q', d, 0x28)
        self.shentsize, self.shnum, self.shstrndx = struct.unpack_from('<HHH', d, 0x3A)
        self.sections = []
        for i in range(self.shnum):
            o = self.shoff + i * self.shentsize
            name, typ, flags, addr, off, size, link, info, align, entsize = struct.unpack_from('<IIQQQQIIQQ', d, o)
            self.sections.append({'i': i, 'hdr': o, 'name_off': name, 'type': typ, 'flags': flags, 'addr': addr, 'off': off,
                                  'size': size, 'link': link, 'info': info, 'entsize': entsize})
        st = self.sections[self.shstrndx]
        self.shstr_off = st['off']
        for s in self.sections:
            s['name'] = self.cstr(st['off'] + s['name_off'])

    def cstr(self, off):
        e = self.d.index(b'\0', off)
        return bytes(self.d[off:e])

    def section(self, name):
        """first section with that name — as debug/elf (*File).Section"""
        for s in self.sections:
            if s['name'] == name:
                return s
        return None

    # ---- what goom's osReadSymbols consumes
    def symtab(self):
        """entries of the first SHT_SYMTAB section, without the null symbol (debug/elf (*File).Symbols); None if absent"""
        for s in self.sections:
            if s['type'] == SHT_SYMTAB:
                strs = self.sections[s['link']]
                n = s['size'] // 24
                out = []
                for i in range(1, n):
                    nm, info, other, shndx, value, size = struct.unpack_from('<IBBHQQ', self.d, s['off'] + 24 * i)
                    out.append({'name': self.cstr(strs['off'] + nm), 'value': value, 'info': info, 'shndx': shndx, 'size': size,
                                'ent': s['off'] + 24 * i})
                return out
        return None

    def dynsym_names(self):
        """names in .dynsym (never consulted by goom; used to ask for names that must stay unknown in stripped builds)"""
        for s in self.sections:
            if s['type'] == 11:
                strs = self.sections[s['link']]
                return [self.cstr(strs['off'] + struct.unpack_from('<I', self.d, s['off'] + 24 * i)[0]) for i in range(1, s['size'] // 24)]
        return []

    def pclntab(self):
        """[(name, entry offset from text start)] of `.gopclntab`, None when there is no such section"""
        s = self.section(b'.gopclntab')
        if s is None:
            return None
        if s['type'] == SHT_NOBITS:
            return []
        base = s['off']
        d = self.d
        if base + s['size'] > len(d):
            return 'bad'            # section data not in the file: (*Section).Data fails
        magic, = struct.unpack_from('<I', d, base)
        if magic not in (0xfffffff0, 0xfffffff1) or d[base + 7] != 8:
            return []                # debug/gosym does not recognise the table: no functions, no error
        nfunc, nfiles, text_start, funcname_off, cu_off, filetab_off, pctab_off, pcln_off = struct.unpack_from('<8Q', d, base + 8)
        ft = base + pcln_off
        out = []
        for i in range(nfunc):
            entry_off, func_off = struct.unpack_from('<II', d, ft + 8 * i)
            f_entry, f_name = struct.unpack_from('<Ii', d, ft + func_off)
            out.append((self.cstr(base + funcname_off + f_name), entry_off))
        return out

    def describe(self):
        """The abstract file of Model/Sym.lean: text address, pclntab entries, ELF symbols."""
        t = self.section(b'.text')
        st = self.symtab()
        return {'text': None if t is None else t['addr'], 'pcln': self.pclntab(), 'syms': None if st is None else
                [(s['name'], s['value']) for s in st],
                # does the entry name a place in the image?  not: undefined references, FILE / SECTION markers, TLS offsets
                'symaddr': None if st is None else [s['shndx'] != 0 and (s['info'] & 0xf) not in (3, 4, 6) for s in st],
                'dynsym_names': self.dynsym_names()}

    # ---- patching (section headers and .symtab are not used by the kernel loader or the Go runtime: the result still runs)
    def set_text_addr(self, addr):
        s = self.section(b'.text')
        struct.pack_into('<Q', self.d, s['hdr'] + 0x10, addr & (2**64 - 1))

    def shift_symtab(self, delta):
        for s in self.symtab():
            struct.pack_into('<Q', self.d, s['ent'] + 8, (s['value'] + delta) & (2**64 - 1))

    def rename_section(self, old, new):
        assert len(old) == len(new)
        s = self.section(old)
        o = self.shstr_off + s['name_off']
        self.d[o:o + len(new)] = new

    def drop_symtab(self):
        for s in self.sections:
            if s['type'] == SHT_SYMTAB:
                struct.pack_into('<I', self.d, s['hdr'] + 4, SHT_NULL)

    def alias_symbol(self, victim_name, as_name):
        """make the FIRST symbol called victim_name carry the name of symbol as_name (a duplicate name in front of or behind the real one)"""
        syms = self.symtab()
        src = next(s for s in syms if s['name'] == as_name)
        dst = next(s for s in syms if s['name'] == victim_name)
        nm, = struct.unpack_from('<I', self.d, src['ent'])
        struct.pack_into('<I', self.d, dst['ent'], nm)

    def set_section_offset(self, name, off):
        s = self.section(name)
        struct.pack_into('<Q', self.d, s['hdr'] + 0x18, off)

    def poke_section(self, name, off, value):
        s = self.section(name)
        self.d[s['off'] + off] = value

    def set_shoff(self, off):
        struct.pack_into('<Q', self.d, 0x28, off)

    def bytes(self):
        return bytes(self.d)


def describe_bytes(data):
    """describe() of an image, or {'elf': False} when not even the section table can be read (elf.NewFile fails)"""
    try:
        d = Elf(data).describe()
    except (ValueError, struct.error, IndexError):
        return {'elf': False, 'text': None, 'pcln': None, 'syms': None, 'symaddr': None, 'dynsym_names': []}
    d['elf'] = True
    return d
