"""C19 — debug and trace logging never change what a mock does.

Proof: Props/C19.lean over Model/Debug.lean (interceptDebugInfo, SprintV, logger switches, Apply/Return/When/Returns/call).
Tie X: an in-package probe of the root package replays every generated scenario on the real goom code in four processes,
one per logging configuration {off, OpenDebug, OpenTrace, GOOM_DEBUG=1}; the model driver answers the same lines.
Oracle (independent of the model): the four transcripts of a scenario (calls, argument tokens, results, panic classes) are
identical and no process dies.  Scenarios whose values contain a slice/map cycle (finding F13) run in isolated children.
"""
import json
import os
import re
import signal
import subprocess
import threading
import time

from vlib import common as C

META = {
    'property_id': 'C19',
    'technique': 'Lean 4 simulation proof (debug-wrapped run ~ unwrapped run, induction over all operation lists) on a hand model of '
                 'interceptDebugInfo/SprintV/logger switches + differential replay of scenario streams on the real code under 4 logging configurations',
    'level': 'proof',
    'level_text': 'Partial proof: for every signature, mocker kind, original function and every list of Apply/Return/When/Returns/call/Reset/'
                  'OpenDebug/CloseDebug/OpenTrace/CloseTrace operations, the transcript (calls, arguments, results, panics) under '
                  'each of the four logging configurations equals the logging-off transcript, the mock state stays equal up to debug wrappers, and '
                  'the process never dies in the logging code — PROVIDED fmt.Sprintf("%v") returns on every value (fmt is a parameter of the model). '
                  'Variable mocks (Var/UnExportedVar Set/Apply/Reset): reads and final value independent of the configuration (full, on the model). '
                  'SprintV never consults fmt for nil pointers / nil interfaces; CallSlice-on-variadic / Call-otherwise forwards every deliverable '
                  'argument vector unchanged.',
    'level_note': 'Hypotheses of the theorems: fmt returns on every value (F13 otherwise), the user String()/Error() methods fmt runs record nothing and do not call the mock (F27 otherwise), the mocked function is not in the hand-collected list loggerCallees (F14/F15 otherwise); one mocker per environment, sequential callers, panics as classes (two-mocker lanes and panic-value kinds are observed only). Partial because fmt, reflect.MakeFunc/Call and the Go ABI are modelled (reflect by its documented argument checks), not verified; '
                  'values are trees of tokens, so cyclic heaps exist only as opaque tokens. Known finding F13: a slice/map cycle in an argument or result '
                  'makes fmt recurse without bound, only with debug open (Findings/C19F13.lean is the counter-example to the full statement). '
                  'The model is tied to the code by differential execution (tie X), bounded by the generators whose distribution is in the evidence.',
}

CFGS = ['off', 'debug', 'trace', 'env']
INT_T = ['f2', 'fv', 'fm', 'fa', 'ms', 'mv', 'ia', 'iv']
PA_T = ['fp', 'ip']
SHAPES = {'f0': 'I', 'rs': 'IS', 'ow': '', 'ox': 'I', 'oz': 'I', 'it': 'I', 'f2': 'IS', 'fv': 'V', 'fm': 'SV', 'fp': 'PA', 'fa': 'A', 'ms': 'IS', 'mv': 'SV', 'ia': 'IS', 'iv': 'SV', 'ip': 'PA'}
WHEN_OK = ['f2', 'ms', 'ia', 'fv']          # When(..) only where C04's finding F6 (variadic expansion of fixed args) cannot interfere
INTS = ['-3', '-1', '0', '1', '2', '5', '7', '42', '1000000']
STRS = ['s', 'sa', 'sab', 'sxyz', 's0']
NODES = ['nil', 'n0', 'n1', 'n2', 'n3']
ANY_SAFE = ['nil', 'i5', 'i-2', 'i0', 'tab', 't', 'pn0', 'pn1', 'pn2', 'pn3', 'tn'] + [f'z{k}' for k in range(16)]
ANY_CYC = ['z20', 'z21', 'z22', 'z23']
USER_METHOD = ['z16', 'z17']          # String() / Error() with an observable effect
USER_RE = re.compile(r'\bz1[678]\b')
REENT_RE = re.compile(r'\bz18\b')     # String() makes one nested call of the mocked function: outside the model (render cannot call back)
NEST_RE = re.compile(r'!re\{.*?\}!')
F27_KEY = 'F27-c19-fmt-runs-user-methods'
# how a process in unbounded recursion dies: stack limit, or the collector tripping over the runaway stack first
DEATH_BY_RECURSION = ('CRASH:stack-overflow', 'CRASH:fatal')
CYC_RE = re.compile(r'\bz2[0-3]\b')
NOHOME = '@nohome '
VARP = '@var '          # variable-mock lane (c19.v lines)


def prefix_of(body):
    return NOHOME if body.startswith(NOHOME) else VARP if body.startswith(VARP) else ''
F13_KEY = 'F13-fmt-slice-map-cycle-debug-only'
F14_KEY = 'F14-mock-of-function-the-console-logger-calls'


# ------------------------------------------------------------------ generators

def gen_arg(rng, sh, cyc=False):
    if sh == 'I':
        return rng.choice(INTS)
    if sh == 'S':
        return rng.choice(STRS)
    if sh == 'P':
        return rng.choice(NODES)
    if sh == 'A':
        return rng.choice(ANY_CYC) if cyc else rng.choice(ANY_SAFE)
    raise ValueError(sh)


def gen_args(rng, tgt, cyc=False):
    shape = SHAPES[tgt]
    out = []
    for sh in shape:
        if sh == 'V':
            out += [rng.choice(INTS) for _ in range(rng.choice([0, 0, 1, 2, 3, 5]))]
        else:
            out.append(gen_arg(rng, sh, cyc))
    return ','.join(out) if out else '-'


def gen_result(rng, tgt, cyc=False, bad=False):
    if tgt in PA_T:
        vals = [rng.choice(NODES), rng.choice(ANY_CYC) if cyc else rng.choice(ANY_SAFE)]
        if bad:
            vals = vals[:1] if rng.chance(1, 2) else vals + ['nil']
    else:
        vals = [rng.choice(INTS)]
        if bad:
            vals = vals + [rng.choice(INTS)]
    return ','.join(vals)


def gen_pats(rng, tgt, bad=False):
    if tgt == 'fv':
        n = rng.choice([1, 2, 3])
        return ','.join(rng.choice(INTS[:5]) for _ in range(n))
    p = [rng.choice(INTS[:5]), rng.choice(STRS[:3])]
    if bad:
        p = p[:1] if rng.chance(1, 2) else p + ['1']
    return ','.join(p)


def gen_call(rng, tgt, pats=None, cyc=False):
    ok = [p for p in (pats or []) if tgt == 'fv' or p.count(',') == 1]
    if ok and rng.chance(1, 2):       # aim at a condition
        return 'call ' + rng.choice(ok)
    return 'call ' + gen_args(rng, tgt, cyc)


def gen_cb(rng, tgt):
    if tgt in PA_T:
        return rng.choice(['echo', 'echo', 'echo', 'retn', f'pan{rng.below(4)}', 'nilp'])
    return rng.choice([f'sum{rng.below(9)}', f'sum{rng.below(9)}', f'sum{rng.below(9)}', f'pan{rng.below(4)}', 'nilp'])


def gen_scenario(rng, tgt, malformed=False, cyc=False):
    """One scenario body (ops joined by ' ; '): Apply callbacks and Return/When/Returns stubs mixed freely on one mocker
    (Apply discards an earlier When, a later Return builds a new one), calls in between, Reset, switches flipped in the middle.
    When only on targets in WHEN_OK."""
    ops = []
    if rng.chance(1, 4):
        ops.append(gen_call(rng, tgt, cyc=cyc))
    for _phase in range(rng.choice([1, 1, 2, 3])):
        pats = []
        for _ in range(rng.choice([1, 2, 2, 3, 4])):
            kinds = ['apply', 'apply', 'apply', 'ret', 'rets'] + (['when', 'when'] if tgt in WHEN_OK else [])
            k = rng.choice(kinds)
            bad = malformed and rng.chance(1, 2)
            if k == 'apply':
                if malformed and rng.chance(1, 3):
                    ops.append('applybad')            # Apply(42)
                else:
                    ops.append('apply ' + gen_cb(rng, tgt))
                    pats = []
            elif k == 'ret':
                ops.append('ret ' + gen_result(rng, tgt, cyc and rng.chance(1, 2), bad))
            elif k == 'rets':
                ops.append('rets ' + '|'.join(gen_result(rng, tgt, False, bad and i == 1) for i in range(rng.choice([1, 2, 3, 4]))))
            else:
                p = gen_pats(rng, tgt, bad)
                pats.append(p)
                ops.append(f'when {p} {gen_result(rng, tgt, False, malformed and rng.chance(1, 3))}')
            for _ in range(rng.choice([0, 1, 2, 3])):
                ops.append(gen_call(rng, tgt, pats, cyc=cyc))
        ops.append('cancel')
        if rng.chance(1, 3):
            ops.append(gen_call(rng, tgt, cyc=cyc))
    if rng.chance(1, 4):      # flip the switches somewhere in the middle
        for _ in range(rng.choice([1, 2, 3])):
            ops.insert(rng.below(len(ops) + 1), 'dbg ' + rng.choice(['on', 'off', 'tron', 'troff']))
    return f'{tgt} ' + ' ; '.join(ops)


def gen_reentrant(rng):
    """an argument whose String() calls the mocked function once more while the debug line is rendered (z18)"""
    t = rng.choice(['fp', 'ip'])
    ops = ['apply echo'] + [f'call {rng.choice(NODES)},{rng.choice(["z18", "z18", "i5", "tab"])}' for _ in range(rng.choice([2, 3, 4]))] + ['cancel']
    if rng.chance(1, 3):
        ops.insert(rng.below(len(ops)), 'dbg ' + rng.choice(['on', 'off', 'tron']))
    return f'{t} ' + ' ; '.join(ops)


def gen_var(rng):
    """variable mocks: Var / UnExportedVar on pointer variables (nil before the mock; set to a typed nil) and on an int"""
    kind = rng.choice(['vp', 'vp', 'vq', 'up', 'up', 'uq', 'vi', 'ui'])
    val = (lambda: rng.choice(NODES)) if kind[1] != 'i' else (lambda: rng.choice(INTS))
    ops = ['read'] if rng.chance(1, 3) else []
    for _ in range(rng.choice([1, 2, 3])):
        for _ in range(rng.choice([1, 1, 2])):
            ops += [rng.choice(['set ', 'set ', 'apply ']) + val(), 'read']
        ops += ['reset', 'read']
    if rng.chance(1, 3):
        for _ in range(rng.choice([1, 2])):
            ops.insert(rng.below(len(ops) + 1), 'dbg ' + rng.choice(['on', 'off', 'tron', 'troff']))
    return VARP + kind + ' ' + ' ; '.join(ops)


VAR_CORPUS = [VARP + 'vp read ; set n0 ; read ; reset ; read', VARP + 'vq set nil ; read ; reset ; read', VARP + 'up set n1 ; read ; set nil ; read ; reset ; read',
              VARP + 'uq apply nil ; read ; reset ; read', VARP + 'vi set 5 ; read ; apply 9 ; read ; reset ; read', VARP + 'ui set 5 ; read ; reset ; read']


def gen_void(rng):
    """a function without results (f0): callbacks, Return(), calls"""
    ops = []
    for _ in range(rng.choice([1, 2])):
        for _ in range(rng.choice([1, 2, 3])):
            ops.append(rng.choice(['apply sum%d' % rng.below(5), 'apply sum%d' % rng.below(5), 'apply pan%d' % rng.below(3), 'apply nilp', 'ret -', 'ret -']))
            ops += ['call ' + rng.choice(INTS) for _ in range(rng.choice([1, 2]))]
        ops.append('cancel')
    if rng.chance(1, 3):
        ops.insert(rng.below(len(ops) + 1), 'dbg ' + rng.choice(['on', 'off', 'tron', 'troff']))
    return 'f0 ' + ' ; '.join(ops)


def gen_usermethod(rng):
    """values whose String()/Error() method records an event (finding F27): as arguments and as results"""
    t = rng.choice(['fa', 'fp', 'ip', 'fp'])
    v = lambda: rng.choice(USER_METHOD)
    if t == 'fa':
        ops = [rng.choice(['apply sum1', 'ret 5']), 'call ' + v(), 'call ' + v(), 'cancel']
    else:
        ops = [rng.choice(['apply echo', 'apply retn', f'ret n0,{v()}', f'ret nil,{v()}']), f'call {rng.choice(NODES)},{v()}', f'call nil,{rng.choice(ANY_SAFE)}', 'cancel']
    return f'{t} ' + ' ; '.join(ops)


SV_TOKS = ['I:5', 'I:-3', 'S:sab', 'S:s', 'P:nil', 'P:n0', 'A:nil', 'A:i5', 'A:tab', 'A:tn', 'E:nil', 'E:sx', 'V:1.2', 'V:-', 'V:7', 'M:', 'Q:nil', 'Q:x']


def gen_streams(tier, rng, scale=1):
    n = (2000 if tier == "quick" else 40000) * scale
    bodies = []
    r = rng.fork('scn')
    tg = INT_T + PA_T + ['fa', 'fp', 'ip', 'fv', 'mv', 'iv']      # weight the value-heavy and variadic targets
    for i in range(n):
        bodies.append(gen_scenario(r, r.choice(tg), malformed=(i % 10 == 9)))
    r = rng.fork('var')
    bodies += VAR_CORPUS + [gen_var(r) for _ in range((60 if tier == 'quick' else 1200) * scale)]
    r = rng.fork('void')
    bodies += [gen_void(r) for _ in range((40 if tier == 'quick' else 800) * scale)]
    r = rng.fork('usermethod')
    bodies += [gen_usermethod(r) for _ in range((12 if tier == 'quick' else 200) * scale)]
    r = rng.fork('reentrant')
    bodies += ['fp apply echo ; call n1,z18 ; call n2,tab ; cancel'] + [gen_reentrant(r) for _ in range((8 if tier == 'quick' else 100) * scale)]
    r = rng.fork('nohome')
    hb = list(NOHOME_CORPUS)
    for i in range((120 if tier == 'quick' else 1500) * scale):
        t = r.choice(tg)
        o = gen_scenario(r, t).split(' ', 1)[1].split(' ; ')
        # switch logging on AND off again somewhere, then keep configuring and calling
        k = r.below(len(o) + 1)
        pair = r.choice([['dbg tron', 'dbg troff'], ['dbg tron', 'dbg troff'], ['dbg on', 'dbg off'], ['dbg tron', 'dbg off'], ['dbg on', 'dbg troff']])
        o[k:k] = pair
        o += [('apply ' + gen_cb(r, t)), gen_call(r, t), 'cancel', 'ret ' + gen_result(r, t), gen_call(r, t), 'cancel']
        hb.append(f'{t} ' + ' ; '.join(o))
    bodies += [NOHOME + b for b in hb]
    # every scenario that touches the switches also runs with those operations removed ("logging never touched")
    bodies += [s for s in (strip_dbg(b) for b in bodies if ' dbg ' in b) if s]
    r = rng.fork('cyc')
    risky = []
    for i in range((6 if tier == 'quick' else 24) * scale):
        risky.append(gen_scenario(r, r.choice(['fa', 'fp', 'ip']), cyc=True))
    risky = [b for b in risky if CYC_RE.search(b)]
    r = rng.fork('origin')
    for i in range((3 if tier == 'quick' else 30) * scale):
        t = r.choice(['ow', 'ox', 'oz'])
        arg = lambda: ('-' if t == 'ow' else r.choice(INTS))
        o = []
        for _ in range(r.choice([1, 2])):
            if r.chance(1, 3):
                o.append('call ' + arg())
            o.append('apply ' + r.choice(['org%d' % r.below(2000), 'org%d' % r.below(9), 'sum%d' % r.below(9)]))
            o += ['call ' + arg() for _ in range(r.choice([1, 2, 3]))] + ['cancel']
        if r.chance(1, 3):
            o.insert(r.below(len(o)), 'dbg ' + r.choice(['on', 'off', 'tron', 'troff']))
        risky.append(t + ' ' + ' ; '.join(o))
    risky += ['lib ' + f for f in LIB_FUNCS + TIME_NOW + LIB_MORE]
    r = rng.fork('it')
    for i in range((3 if tier == 'quick' else 12) * scale):
        o = []
        for _ in range(r.choice([1, 2])):
            o += [r.choice(['apply sum%d' % r.below(5), 'ret ' + r.choice(INTS), 'rets 1|2'])] + ['call ' + r.choice(INTS) for _ in range(r.choice([1, 2]))] + ['cancel']
        if r.chance(1, 2):
            o.insert(r.below(len(o)), 'dbg ' + r.choice(['on', 'off', 'tron', 'troff']))
        risky.append('it ' + ' ; '.join(o))
    r = rng.fork('sv')
    sv = ['c19.sv ' + ' '.join(r.choice(SV_TOKS) for _ in range(r.choice([0, 1, 2, 3, 5])))
          for _ in range((150 if tier == 'quick' else 3000) * scale)]
    sv += ['c19.sv ' + t for t in SV_TOKS]
    return list(dict.fromkeys(corpus() + bodies)), list(dict.fromkeys(CORPUS_RISKY + risky)), list(dict.fromkeys(sv))


LIB_FUNCS = ['fmt.Print', 'fmt.Println', 'fmt.Fprint', 'fmt.Sprint', 'fmt.Sprintln', 'strings.Repeat', 'strings.ToUpper',
             'strings.TrimSpace', 'strconv.Quote', 'strconv.FormatBool', 'path.Join', 'filepath.Base']   # none is on the logger's path today

TIME_NOW = ['time.Now/func', 'time.Now/name', 'time.Now/ret', 'time.Now/as']   # every handle kind; debug.go:14 must recognise all of them

TINY = ['tiny.const/apply', 'tiny.const/ret', 'tiny.getter/apply', 'tiny.getter/ret', 'tiny.neg/apply']   # own code shorter than the 13-byte jump
LIB_MORE = TINY + ['byname.func', 'byname.method', 'two.nested', 'two.timenow', 'sites%d' % 600]

CORPUS_RISKY = [
    'rs apply sum1 ; call 1,s ; cancel',               # F27: the receiver's String() calls the mocked method
    'rs ret 5 ; call 2,sa ; cancel',
    'rs dbg off ; apply sum1 ; call 1,s ; cancel',      # applied while closed: never wrapped

    'ow call - ; apply org1000 ; call - ; cancel ; call -',            # Origin placeholder of a leaf whose first instructions are RIP-relative
    'ox apply org5 ; call 3 ; call -1 ; cancel ; call 2',
    'oz call 1 ; apply org7 ; call 42 ; apply sum1 ; call 2 ; cancel',
    'ow dbg tron ; apply org1 ; call - ; dbg troff ; call - ; cancel',

    'fa apply sum0 ; call z20',                        # F13 as in DESIGN §8: s[0] = s
    'fa ret 5 ; call z21',                             # through the When stub (MakeFunc over m.callback)
    'fp apply echo ; call n1,z22',
    'ip ret n0,z23 ; call nil,nil',                    # cycle in a RESULT, interface proxy wrapper
    'it apply sum1 ; call 5 ; cancel',                 # F14: strconv.Itoa is called by logger.caller
    'it ret 9 ; call 5 ; call 7 ; cancel',
    'it dbg on ; apply sum2 ; dbg off ; call 7 ; dbg on ; call 7 ; cancel',   # wrapped, console off: no re-entry; console on: re-entry
    'it dbg off ; apply sum1 ; dbg on ; call 3 ; cancel',                      # applied while closed: never wrapped, all four agree
]


NOHOME_CORPUS = [
    'f2 apply sum1 ; call 1,s ; dbg tron ; dbg troff ; apply sum2 ; call 1,s ; cancel ; ret 5 ; call 2,s ; cancel',
    'ms dbg tron ; dbg troff ; apply sum1 ; call 1,s ; cancel ; when 1,s 4 ; call 1,s ; cancel',
    'ia dbg on ; apply sum1 ; dbg off ; call 1,sa ; cancel ; dbg tron ; ret 3 ; dbg troff ; call 1,sa ; rets 1|2 ; call 0,s ; cancel',
]


def strip_dbg(body):
    """the same scenario with the OpenDebug/CloseDebug/OpenTrace/CloseTrace operations removed ('' if nothing else is left)"""
    pre = prefix_of(body)
    tgt, rest = body[len(pre):].split(' ', 1)
    keep = [o for o in rest.split(' ; ') if not o.startswith('dbg ')]
    return f'{pre}{tgt} ' + ' ; '.join(keep) if keep else ''


def erase_T(body, T):
    """transcript of `body` without the tokens of its switch operations (None if T is not a full transcript)"""
    if T is None or not T.startswith('T='):
        return None
    ops = body[len(prefix_of(body)):].split(' ', 1)[1].split(' ; ')
    T, _, ptags = T.partition(' P=')
    toks = T[2:].split('|')
    if len(toks) != len(ops):
        return None
    return 'T=' + '|'.join(t for o, t in zip(ops, toks) if not o.startswith('dbg ')) + ' P=' + ptags


def corpus():
    """hand-written scenarios that run first: one per mechanism of the property's record"""
    return [
        'f2 ret 9 ; call 1,s ; applybad ; call 1,s ; apply sum1 ; call 1,s ; ret 4 ; call 1,s ; cancel',
        'ia apply sum1 ; applybad ; call 1,sa ; cancel',
        'f0 call 3 ; apply sum1 ; call 3 ; ret - ; call 4 ; apply pan1 ; call 5 ; cancel ; call 6',
        'fa apply sum1 ; call z16 ; call z17 ; cancel',
        'fp ret n0,z17 ; call nil,z16 ; cancel',
        'f2 call 1,sab ; apply sum5 ; call 1,sab ; cancel ; ret 9 ; call 2,s ; cancel ; call 1,s',
        'fv ret 7 ; call 1,2,3 ; call - ; when 1,2 8 ; call 1,2 ; call 1',
        'fv apply sum1 ; call - ; call 1 ; call 1,2,3,5,7',
        'fm apply sum1 ; call sab,1,2 ; call s',
        'fm ret 5 ; call sab,1,2 ; call s',
        'mv apply sum2 ; call sab,4,5 ; cancel ; ret 3 ; call s',
        'iv apply sum1 ; call sa,1,2 ; cancel ; ret 4 ; call sa ; call sa,1',
        'fp apply echo ; call nil,nil ; call n1,z9 ; call n2,tn ; call nil,z3 ; call n3,z10 ; call n2,z4 ; call nil,z14',
        'fp ret nil,nil ; call n1,z8 ; cancel ; ret n1,z4 ; call nil,z10',
        'fa apply sum0 ; call z0 ; call z1 ; call z2 ; call z13 ; call z14 ; call z12 ; call z11 ; call z7 ; call z5 ; call z6 ; call z15',
        'ms apply pan3 ; call 1,sx ; cancel ; rets 1|2|3 ; call 1,s ; call 1,s ; call 1,s ; call 1,s',
        'ia call 1,sa ; apply sum1 ; call 1,sa ; cancel ; call 1,sa ; when 1,sa 5 ; call 1,sa ; call 2,sa',
        'ip apply echo ; call nil,nil ; call n3,z2 ; cancel ; ret nil,nil ; call n1,i5 ; dbg off ; call n1,i5 ; dbg on ; call nil,tab',
        'f2 dbg on ; apply nilp ; dbg off ; call 1,s ; dbg tron ; call 2,s ; dbg troff',
        'f2 dbg off ; apply sum1 ; dbg on ; call 1,s ; cancel ; ret 3,4 ; when 1 2 ; ret 5 ; call 0,s',
    ]


# ------------------------------------------------------------------ running

NSITES = 600


def build_probe():
    # generated: NSITES one-line call sites of one mockable function (distinct source positions for the logger's caller lookup)
    gen = os.path.join(C.BUILD, 'c19_sites_gen_test.go')
    src = 'package mocker\n\n// GENERATED by checks/C19.py\nvar c19Sites = []func() string{\n' + \
          ''.join('\tfunc() string { return c19LibTarget("x") },\n' for _ in range(NSITES)) + '}\n'
    if not os.path.exists(gen) or open(gen).read() != src:
        open(gen, 'w').write(src)
    b, err = C.overlay_build('c19', '', {'zz_verif_c19_test.go': os.path.join(C.HARNESS, 'c19', 'probe_test.go'),
                                         'zz_verif_c19_sites_test.go': gen}, C.helper_pkgs())
    if b is None:
        raise C.Infra('probe c19 does not build against the current tree:\n' + err[-3000:])
    return b


def crash_class(text):
    if 'stack overflow' in text or 'stack exceeds' in text:
        return 'stack-overflow'
    if 'SIGSEGV' in text or 'unexpected signal' in text or 'SIGBUS' in text or 'SIGILL' in text or 'SIGTRAP' in text:
        return 'signal'
    if 'timed out' in text or 'TIMEOUT' in text:
        return 'timeout'
    if 'fatal error' in text:
        return 'fatal'
    return 'exit'


class Budget:
    """Shared by all lanes of one run: confirmed hangs and the wall-clock deadline.  After MAX_HANGS reproduced hangs, or past the
    deadline, the remaining scenarios are skipped — the verdict is then the violation(s) already found."""
    MAX_HANGS = 3

    def __init__(self, seconds):
        self.deadline = time.time() + seconds
        self.hangs = 0
        self.lock = threading.Lock()

    def exhausted(self):
        return self.hangs >= self.MAX_HANGS or time.time() > self.deadline

    def hang(self):
        with self.lock:
            self.hangs += 1


BUDGET = Budget(10 ** 9)


def run_once(binary, env, outp, stall, total):
    """Run the probe; kill its whole process group when it has produced no new observation for `stall` seconds
    (or after `total` seconds).  Returns (rc, text, stalled)."""
    with open(outp + '.stderr', 'wb') as ferr, open(outp + '.stdout', 'wb') as fout:
        p = subprocess.Popen([binary, '-test.run', '^TestVerifC19$', '-test.count=1', '-test.timeout', f'{int(total)}s'],
                             env=env, cwd=C.BUILD, stdout=fout, stderr=ferr, start_new_session=True)
        t0 = last = time.time()
        size = -1
        stalled = False
        while p.poll() is None:
            time.sleep(0.05)
            try:
                sz = os.path.getsize(outp)
            except OSError:
                sz = 0
            now = time.time()
            if sz != size:
                size, last = sz, now
            if now - last > stall or now - t0 > total:
                stalled = True
                try:
                    os.killpg(p.pid, signal.SIGKILL)      # the child and anything it started: no stragglers
                except OSError:
                    pass
                p.wait()
                break
        rc = p.returncode
    err = open(outp + '.stderr', 'rb').read()
    text = (open(outp + '.stdout', 'rb').read()[-4000:] + err[:6000] + err[-6000:]).decode(errors='replace')
    return rc, text, stalled


def run_cfg(binary, cfg, ops_path, n, idxs, tag, maxstack=None, stall=30, total=900, nohome=False):
    """Run the probe for one configuration over lines `idxs` of the ops file, restarting after a crash or a hang.
    Returns {line index: observation}; a line that killed the process gets 'CRASH:<class>', a line on which the process
    made no progress for `stall` seconds TWICE gets 'CRASH:hang'; lines not run because the budget is used up get 'SKIPPED'."""
    res = {}
    start = 0
    retried = None
    todo = sorted(idxs)
    for _ in range(2 * len(todo) + 2):
        rest = [i for i in todo if i >= start and i not in res]
        if not rest:
            return res
        if BUDGET.exhausted():
            for i in rest:
                res[i] = 'SKIPPED'
            return res
        outp = os.path.join(C.BUILD, f'{tag}.{cfg}.impl')
        if os.path.exists(outp):
            os.remove(outp)
        env = C.goenv({'VERIF_OPS': ops_path, 'VERIF_OUT': outp, 'VERIF_SEED': str(C.seed()), 'VERIF_C19_CFG': cfg,
                       'VERIF_C19_LOG': os.path.join(C.BUILD, f'{tag}.{cfg}.log'), 'VERIF_START': str(start)})
        for k in [k for k in env if k.startswith('GOOM_')]:     # no goom knob leaks in from the caller's environment
            env.pop(k)
        if cfg == 'env':
            env['GOOM_DEBUG'] = '1'
        if nohome:
            env['HOME'] = os.path.join(C.BUILD, 'no-such-home', 'x')      # $HOME/logs cannot be created: the log file stays unopened
            env['VERIF_C19_NOHOME'] = '1'
        if maxstack:
            env['VERIF_C19_MAXSTACK'] = str(maxstack)
            env['VERIF_C19_ISOLATED'] = '1'
        rc, text, stalled = run_once(binary, env, outp, stall, total)
        got = C.read_indexed(outp, n)
        for i in todo:
            if i >= start and got[i] is not None:
                res[i] = got[i]
        missing = [i for i in todo if i >= start and i not in res]
        if rc == 0 and not missing:
            return res
        if not missing:
            raise C.Infra(f'probe ({cfg}) failed rc={rc} after answering every line:\n{text[-1500:]}')
        bad = missing[0]
        if stalled:
            if retried != bad:
                retried = bad             # a loaded machine: run again from the same line ONCE before believing it
                start = bad
                continue
            res[bad] = 'CRASH:hang'       # reproduced: that operation never returns in this configuration
            BUDGET.hang()
        else:
            res[bad] = 'CRASH:' + crash_class(text)
        start = bad + 1
    return res


def T_of(obs):
    if obs is None:
        return None
    return obs.split(' W=')[0]


def execute(bodies, risky, sv, tag='c19'):
    """Returns (ops, impl, model, groups) where groups = [(body, {cfg: line index}, is_risky)]."""
    ops, groups = [], []
    for body, rk in [(b, 'h' if b.startswith(NOHOME) else False) for b in bodies] + [(b, True) for b in risky]:
        g = {}
        for cfg in CFGS:
            g[cfg] = len(ops)
            ops.append(f'c19.lib {cfg} {body.split()[1]}' if body.startswith('lib ') else
                       f'c19.h {cfg} {body[len(NOHOME):]}' if body.startswith(NOHOME) else
                       f'c19.v {cfg} {body[len(VARP):]}' if body.startswith(VARP) else f'c19.s {cfg} {body}')
        groups.append((body, g, rk))
    sv0 = len(ops)
    ops += sv
    ops_path = os.path.join(C.BUILD, f'{tag}.ops')
    open(ops_path, 'w').write('\n'.join(ops) + '\n')
    binary = build_probe()
    lf = os.path.join(C.BUILD, 'home', 'logs', 'goom-mocker.log')      # goom appends to it for ever
    if os.path.exists(lf) and os.path.getsize(lf) > (64 << 20):
        open(lf, 'w').close()
    impl = [None] * len(ops)
    errs = []

    def work(cfg):
        try:
            idxs = [g[cfg] for _, g, rk in groups if not rk] + (list(range(sv0, len(ops))) if cfg == 'off' else [])
            for i, v in run_cfg(binary, cfg, ops_path, len(ops), idxs, tag).items():
                impl[i] = v
            idxs = [g[cfg] for _, g, rk in groups if rk == 'h']
            if idxs:
                for i, v in run_cfg(binary, cfg, ops_path, len(ops), idxs, tag + '.nohome', nohome=True).items():
                    impl[i] = v
        except Exception as e:  # noqa: BLE001
            errs.append(e)

    th = [threading.Thread(target=work, args=(c,)) for c in CFGS]
    [t.start() for t in th]
    [t.join() for t in th]
    if errs:
        raise errs[0]
    # risky scenarios: every (scenario, configuration) in its own child process, small stack limit so the overflow is quick
    jobs = [(g[cfg], cfg) for _, g, rk in groups if rk is True for cfg in CFGS]

    def risky_work(chunk, k):
        try:
            for idx, cfg in chunk:
                one = os.path.join(C.BUILD, f'{tag}.risky{k}.ops')
                open(one, 'w').write('\n' * idx + ops[idx] + '\n')
                r = run_cfg(binary, cfg, one, len(ops), [idx], f'{tag}.risky{k}', maxstack=64 << 20, stall=40, total=120)   # typical 1-3 s; a stall is re-run once (run_cfg)
                impl[idx] = r.get(idx)
        except Exception as e:  # noqa: BLE001
            errs.append(e)

    nthr = min(8, max(1, len(jobs)))
    th = [threading.Thread(target=risky_work, args=(jobs[k::nthr], k)) for k in range(nthr)]
    [t.start() for t in th]
    [t.join() for t in th]
    if errs:
        raise errs[0]
    exe, err = C.build_driver()
    model = C.run_driver(exe, ops_path, os.path.join(C.BUILD, f'{tag}.model')) if exe else None
    return ops, impl, model, groups, err


def oracle(body, g, impl):
    """The property on the implementation: identical transcripts in all four configurations, nobody dies.
    Returns None or (what, key)."""
    T = {cfg: T_of(impl[g[cfg]]) for cfg in CFGS}
    if any(v is None for v in T.values()):
        return ('no observation for configurations ' + ','.join(c for c in CFGS if T[c] is None), None)
    if any(v == 'bad-op' for v in T.values()) or any(v == 'SKIPPED' for v in T.values()):
        return None
    crashed = [c for c in CFGS if T[c].startswith('CRASH')]
    alive = {T[c] for c in CFGS if c not in crashed}
    if not crashed and len(alive) == 1:
        return None
    # finding F27, narrowly: a value with a recording String()/Error() is passed and the transcripts differ ONLY in those records
    if not crashed and USER_RE.search(body) and len({strip_user(t) for t in alive}) == 1:
        return (f'scenario `{body}`: ' + '; '.join(f'{c}: {T[c]}' for c in CFGS), F27_KEY)
    # finding F13, narrowly: the scenario carries a slice/map cycle token, every death is a stack overflow, it happens only where
    # debug logging can be open (a debug/trace/env process, or after an explicit `dbg on|tron`), and the survivors agree
    key = None
    opens = ' dbg on' in body or ' dbg tron' in body
    if crashed and CYC_RE.search(body) and len(alive) <= 1 and all(T[c] in DEATH_BY_RECURSION and (c != 'off' or opens) for c in crashed):
        key = F13_KEY
    if crashed and body.split()[0] == 'rs' and len(alive) <= 1 and all(T[c] in DEATH_BY_RECURSION and (c != 'off' or opens) for c in crashed):
        key = F27_KEY      # … or the receiver's String() re-enters the mocked method
    if crashed and body.split()[0] == 'it' and len(alive) <= 1 and all(T[c] in DEATH_BY_RECURSION and (c != 'off' or opens) for c in crashed):
        key = F14_KEY
    what = f'scenario `{body}`: ' + '; '.join(f'{c}: {T[c]}' for c in CFGS)
    return (what, key)


def strip_user(t):
    return NEST_RE.sub('', t).replace('!str', '').replace('!err', '')


P_RE = re.compile(r' P=\S+')


def norm_for_model(impl_obs, model_obs):
    """A process that died is compared with the model's prediction of death.  The panic-value kinds (P=) are an
    observation of the implementation only (the model's panics are classes)."""
    if impl_obs == 'SKIPPED':
        return True        # not run: the replay budget was used up by reproduced hangs / the deadline
    if impl_obs is not None:
        impl_obs = P_RE.sub('', impl_obs, count=1)
    if model_obs == 'bad-op' and impl_obs is not None and impl_obs != 'bad-op':
        return None        # a line the model does not cover (caller decides whether that is allowed)
    if impl_obs is not None and impl_obs.startswith('CRASH:') and model_obs is not None and '->CRASH' in model_obs:
        return True
    return impl_obs == model_obs


def assess(ops, impl, model, groups, out, report=True):
    bad, known = [], 0
    for body, g, rk in groups:
        r = oracle(body, g, impl)
        if r:
            what, key = r
            bad.append((body, what, key))
    bad.sort(key=lambda b: b[2] is not None)      # unknown failures first
    # switching logging on/off inside a scenario must be invisible: compare with the twin that never touches the switches
    byb = {body: g for body, g, rk in groups}
    for body, g, rk in groups:
        if rk is True or ' dbg ' not in body:
            continue
        twin = strip_dbg(body)
        if not twin or twin not in byb:
            continue
        for cfg in CFGS:
            e, tw = erase_T(body, T_of(impl[g[cfg]])), T_of(impl[byb[twin][cfg]])
            if e is not None and tw is not None and tw.startswith('T=') and e != tw:
                k = F27_KEY if USER_RE.search(body) and strip_user(e) == strip_user(tw) else None
                bad.append((body, f'scenario `{body}` in configuration {cfg}: with its logging switches {e} ; with the switch operations removed {tw}', k))
                break
    bad.sort(key=lambda b: b[2] is not None)
    for body, what, key in (bad[:4] + [b for b in bad[4:] if b[2] is not None][:2]) if report else []:
        out.violation('transcripts differ between logging configurations: ' + what,
                      {'kind': 'impl-oracle', 'scenario': body, 'observed': what, 'how': 'python3 check.py C19 --replay <this file>'}, key=key)
    diffs = []
    if model is not None:
        for i, op in enumerate(ops):
            ok = norm_for_model(impl[i], model[i] if i < len(model) else None)
            if ok is None and REENT_RE.search(op):
                continue       # bounded re-entry through a user String(): judged by the oracle only
            if not ok:
                diffs.append((i, op, impl[i], model[i] if i < len(model) else None))
    return bad, diffs


def run(tier):
    out = C.Outcome('C19', tier)
    rng = C.Rng(C.seed()).fork('C19')
    global BUDGET
    BUDGET = Budget(240 if tier == 'quick' else 1800)       # replay budget (the Lean build is outside it)
    proof = C.prove('C19', extra_targets=['GoomVerif.Findings.C19F13', 'GoomVerif.Findings.C19F14'], leanchecker=(tier == 'thorough'))
    bodies, risky, sv = gen_streams(tier, rng)
    ops, impl, model, groups, derr = execute(bodies, risky, sv)
    nbad = sum(1 for i, o in enumerate(ops) if impl[i] == 'bad-op')
    if nbad:
        raise C.Infra(f'{nbad} generated lines were rejected by the probe as bad-op, e.g. {[ops[i] for i in range(len(ops)) if impl[i] == "bad-op"][:2]}')
    bad, diffs = assess(ops, impl, model, groups, out)
    if model is None:
        proof['failed'].append(('goomdrv', 'driver does not build: ' + derr[-500:]))
    unknown_bad = [b for b in bad if b[2] is None]
    widened = 0
    if not unknown_bad and (diffs or not proof['ok']):
        # broken obligation without a failing input so far: widen the search tenfold before saying so
        b2, r2, s2 = gen_streams(tier, rng.fork('widen'), scale=10 if tier == 'quick' else 2)
        o2, i2, m2, g2, _ = execute(b2, r2, s2, tag='c19w')
        widened = len(o2)
        bad2, _ = assess(o2, i2, m2, g2, out)
        unknown_bad = [b for b in bad2 if b[2] is None]
        if not unknown_bad:
            if diffs:
                i, op, a, b = diffs[0]
                out.violation(f'model and implementation disagree on `{op}`',
                              {'kind': 'correspondence', 'ops': [op], 'impl': a, 'model': b, 'n_disagreements': len(diffs),
                               'broken': 'correspondence Model/Debug.lean vs goom (debug.go, arg/value.go, mocker.go, iface.go, when.go, matcher.go)',
                               'searched': len(ops) + widened}, no_failing_input=True)
            else:
                out.violation('proof obligations of Props/C19.lean no longer check and no failing input was found in the search',
                              {'kind': 'proof', 'broken': proof['failed'], 'searched': len(ops) + widened,
                               'output': proof.get('output', '')[-3000:]}, no_failing_input=True)
    # ---- evidence (all numbers measured)
    dist = {}
    for body, g, rk in groups:
        t = body[len(NOHOME):].split()[0] + '@nohome' if body.startswith(NOHOME) else body[len(prefix_of(body)):].split()[0]
        dist[t] = dist.get(t, 0) + 1
    opk = {}
    for body, g, rk in groups:
        for o in ([] if body.startswith('lib ') else body[len(prefix_of(body)):].split(' ; ')):
            k = o.split()[1] if o.split()[0] in SHAPES else o.split()[0]
            opk[k] = opk.get(k, 0) + 1
    dbg_lines = [impl[g['debug']] for _, g, _ in groups if impl[g['debug']]]
    wrapped_runs = sum(o.split(' W=')[1].split()[0].count('1') for o in dbg_lines if ' W=' in o)
    logged = sum(int(o.rsplit('L=', 1)[1]) for o in dbg_lines if 'L=' in o)
    panics = sum(o.count('->p:') + o.count('panic:') for o in dbg_lines)
    nontrivial = len({(body.split()[0], T_of(impl[g['debug']])) for body, g, _ in groups
                      if impl[g['debug']] and ' L=' in impl[g['debug']] and (int(impl[g['debug']].rsplit('L=', 1)[1]) > 0 or ' W=-' not in impl[g['debug']])})
    crashes = sum(1 for o in impl if o and o.startswith('CRASH'))
    # floors: a lane that silently ran nothing is a machinery error, not a pass
    lanes = {'main': sum(1 for _, g, rk in groups if rk is False and impl[g['off']] not in (None, 'SKIPPED')), 'unopenable-log': sum(1 for _, g, rk in groups if rk == 'h' and impl[g['off']] not in (None, 'SKIPPED')),
             'isolated': sum(1 for _, g, rk in groups if rk is True and impl[g['off']] not in (None, 'SKIPPED')), 'sprintv': sum(1 for i, o in enumerate(ops) if o.startswith('c19.sv') and impl[i])}
    skipped = sum(1 for o in impl if o == 'SKIPPED')
    if not skipped and (min(lanes.values()) == 0 or wrapped_runs == 0 or logged == 0):
        raise C.Infra(f'a lane produced nothing (lanes={lanes}, wrapper runs={wrapped_runs}, logged lines={logged}): the probe lost its configuration switch')
    out.coverage = {
        'obligations': proof['obligations'], 'discharged': proof['discharged'],
        'checker_cmd': ' ; '.join(proof['cmds']),
        'trusted_base': ['Lean 4.33 kernel', 'axioms: ' + ', '.join(sorted({a for v in proof['axioms'].values() for a in v}) or ['none']),
                         'hand model Model/Debug.lean (tied by differential execution on every line below, incl. wrapper-presence bits W and call-log counts L)',
                         'modelled, not verified: fmt.Sprintf("%v") (parameter `render`, assumed total on acyclic values), reflect.MakeFunc/Call/CallSlice (argument checks only), Go ABI',
                         'probe harness/c19/probe_test.go and its canonicalisation (identity tokens for pointers/zoo values)'],
        'theorems': proof['axioms'], 'proof_failures': proof['failed'],
        'evaluations': len(ops), 'distinct_nontrivial': nontrivial,
        'traces_validated_against_impl': len(ops) - len(diffs),
        'rule': 'one evaluation = one scenario under one logging configuration (or one SprintV vector); every scenario is replayed under off/debug/trace/env '
                'in separate processes; non-trivial = distinct (target, transcript) of scenarios in which a mock was reached with debug open (wrapper run or call logged)',
        'distribution': {'scenarios': len(groups), 'isolated_scenarios(cycles, logger-called target, Origin leaf targets, library functions)': sum(1 for _, _, rk in groups if rk is True), 'unopenable_log_file_scenarios': sum(1 for _, _, rk in groups if rk == 'h'), 'sprintv_vectors': len(sv),
                         'by_target': dist, 'by_op': opk, 'callback_runs_through_wrapper(debug cfg)': wrapped_runs, 'call_log_lines(debug cfg)': logged,
                         'panic_outcomes(debug cfg)': panics, 'process_deaths': crashes, 'reproduced_hangs': BUDGET.hangs,
                         'evaluations_skipped_after_hangs_or_deadline': sum(1 for o in impl if o == 'SKIPPED'), 'oracle_failures': len(bad),
                         'oracle_failures_matching_known_finding': sum(1 for b in bad if b[2] is not None), 'model_disagreements': len(diffs),
                         'widened_search_evaluations': widened},
        'samples': [{'op': ops[i], 'impl': impl[i], 'model': model[i] if model else None} for i in (0, 1, len(ops) // 3, len(ops) // 2, len(ops) - 1)],
        'explanation': 'fmt is only observed (no death / identical transcripts on the generated values), not proved total; cyclic slice/map values are the recorded finding F13',
    }
    out.assumptions = ['fmt.Sprintf("%v") returns on every acyclic value', 'reflect.MakeFunc delivers exactly the typed, packed argument vector of the call',
                       'log text itself is not compared']
    out.level = 'proof'
    return out.finish()


def replay(body):
    scen = body.get('scenario')
    if scen is None and body.get('ops'):
        toks = body['ops'][0].split()
        scen = ' '.join(toks[2:]) if toks[0] == 'c19.s' else None
        if scen is None:
            ops, impl, model, groups, _ = execute([], [], body['ops'], tag='c19-replay')
            rc = 0
            for i, op in enumerate(ops):
                print(f'{op}\n  impl : {impl[i]}\n  model: {model[i] if model else None}')
                rc |= int(not norm_for_model(impl[i], model[i] if model else impl[i]))
            return rc
    isolated = bool(CYC_RE.search(scen)) or scen.split()[0] in ('it', 'rs', 'ow', 'ox', 'oz', 'lib')
    if not isolated:
        twin = strip_dbg(scen) if ' dbg ' in scen else ''
        ops, impl, model, groups, _ = execute([scen] + ([twin] if twin else []), [], [], tag='c19-replay')
        out = C.Outcome('C19', 'replay')
        bad, diffs = assess(ops, impl, model, groups, out, report=False)
        for i, op in enumerate(ops):
            print(f'{op}\n  impl : {impl[i]}\n  model: {model[i] if model else None}')
        for _, what, key in bad:
            print('oracle:', what, ('(known finding ' + key + ')') if key else '')
        if diffs:
            print('model disagrees on', [d[1] for d in diffs])
        if not bad and not diffs:
            print('oracle: ok')
        return 1 if (bad or diffs) else 0
    ops, impl, model, groups, _ = execute([], [scen], [], tag='c19-replay')
    b, g, _ = groups[0]
    for cfg in CFGS:
        print(f'{ops[g[cfg]]}\n  impl : {impl[g[cfg]]}\n  model: {model[g[cfg]] if model else None}')
    r = oracle(b, g, impl)
    print('oracle:', r[0] if r else 'ok', ('(known finding ' + r[1] + ')') if r and r[1] else '')
    md = [cfg for cfg in CFGS if model and not norm_for_model(impl[g[cfg]], model[g[cfg]])]
    if md:
        print('model disagrees in configurations', md)
    return 1 if (r or md) else 0
