"""C13 — configuration mistakes are rejected up front and leave nothing patched.

Proof: Props/C13.lean over Model/Reject.lean, a transcription of every validation point of a goom configuration call
(SignatureEquals, kind checks, checkParams, I2V/ToExpr, method/symbol lookup, proxy.Interface, checkTrampolineFunc,
replaceFunc with its early registration) in the order the code executes them.
Tie X: an in-package probe of goom's root package performs each generated configuration call on the REAL code
(fresh builder, real targets of 32+6+5 signatures) and prints rejection class, error chain, erro.Cause walk, the
diff of the whole .text section, the target's behaviour, the patches[] entry; `goomdrv` prints what the model says.
The oracle states the property on the implementation's observations alone (tags of the injected mistake).
Sequence ops (`seqf/seqm/seqi`) run several configuration calls on ONE mocker (Returns/AndReturn, a second When/In/Matches on
the handle or through a repeated lookup, Apply in between); the observation is about the first rejected (or the last) call.
"""
import os

from vlib import common as C
from checks import c13zoo as Z

META = {
    'property_id': 'C13',
    'technique': 'Lean 4 theorems over a transcription of every validation point of a configuration call (all signatures, all '
                 'argument lists, all registry states) + differential run of the model against the real goom API in-process',
    'level': 'proof',
    'level_text': 'Full proof on the model: for every signature, callback, value list and prior patch state, a rejected configuration '
                  'call performs no write to the executable image, mocks no target that was not mocked, leaves the registry '
                  'unchanged or with exactly one inert entry for the target (proved harmless), every listed mistake class is '
                  'rejected, acceptance implies matching counts and slot sizes, for EVERY rejection of every producer the chain is well formed and '
                  'the erro.Cause walk (transcribed from erro/traceable.go, and equal to the walk the probe performs) ends at the typed cause of '
                  'its class or at the panic string for the string-panicking producers, and the same '
                  'no-op guarantee holds for a rejected call at any point of a configuration sequence on one mocker. '
                  'The model is tied to the source by running it against the real API on every generated call.',
    'level_note': 'Trusted: Lean kernel (propext, Classical.choice, Quot.sound), the hand transcription Model/Reject.lean (checked against '
                  'the real code on every generated call: class, chain, walk, .text diff, behaviour, registry), the probe and its '
                  'canonicalisation. reflect/runtime panics are modelled as classes. replaceFunc failure branches (function or '
                  'placeholder smaller than the jump, already patched) are in the model and the theorems but cannot be provoked '
                  'through the public API on amd64, so correspondence does not exercise them. By-name patches have no target type: no '
                  'signature check exists or is claimed there. Known deviations on the unchanged code (KNOWN_FINDINGS): method values as targets are '
                  'unchecked (C13-K1), string/reflect panics carry no typed cause (C13-K2), the walk stops at *IllegalParam (C13-K3), '
                  'a first When() without conditions (C04-K1) is accepted.',
}

T = Z.TYPES
BY_SIZE = {}
for _k, _v in T.items():
    if _k not in ('ictx', 'prc'):
        BY_SIZE.setdefault(_v[1], []).append(_k)
SWAP = {'int': 'uint', 'uint': 'int', 'i32': 'u32', 'u32': 'i32', 'i64': 'int', 's16': 's16b', 's16b': 's16', 'pi': 'ps', 'ps': 'pi'}
NILABLE = {'iface', 'ptr', 'slice', 'map', 'array', 'chan', 'func'}     # value.go:60-61
ALLF = dict(list(Z.FUNCS.items()) + list(Z.CLOSURES.items()))
lst = Z.lst
INAMES = ','.join(sorted(Z.IMETHODS))


def other_size(tok, rng, k=1):
    """k tokens whose size differs from tok's"""
    c = [t for t in T if T[t][1] != T[tok][1] and t not in ('ictx', 'prc')]
    out = []
    for _ in range(k):
        out.append(c[rng.below(len(c))])
    return list(dict.fromkeys(out))


def val_ok(tok):
    """a value token accepted for a slot of type tok"""
    return tok


def val_bad_size(tok, rng):
    """a value token that toValue rejects for a slot of type tok by SIZE (not by a reflect panic)"""
    kind = T[tok][2]
    if kind == 'iface':
        return None          # interface slots have no size test (assignability panics inside reflect instead)
    c = [t for t in T if T[t][1] != T[tok][1] and t not in ('ictx', 'prc', 'err', 'any')]
    return c[rng.below(len(c))]


class Gen:
    def __init__(self, rng, tier):
        self.rng, self.tier, self.ops, self.tags = rng, tier, [], []

    def add(self, op, tag):
        self.ops.append('c13 ' + op)
        self.tags.append(tag)

    # ---- func targets
    def func_head(self, name, pre=0, origin='none'):
        ins, outs, var = ALLF[name]
        return f'func {name} {lst(ins)} {lst(outs)} {int(var)} {pre} {origin}'

    def cb_mistakes(self, ins, outs, var, positions_all=True):
        """(cbIns, cbOuts, cbVar, tag) for every position of every callback mistake class"""
        rng, out = self.rng, []
        for p in range(len(ins)):
            out.append((ins[:p] + ins[p + 1:], outs, 0, 'cb-count-in'))
            for t in other_size(ins[p], rng, 2 if self.tier == 'thorough' else 1):
                out.append((ins[:p] + [t] + ins[p + 1:], outs, var and p != len(ins) - 1, f'cb-size-in:{p}'))
        for p in range(len(ins) + 1):
            out.append((ins[:p] + [rng.choice(['int', 'str', 'bool', 's24'])] + ins[p:], outs, 0, 'cb-count-in'))
        for p in range(len(outs)):
            out.append((ins, outs[:p] + outs[p + 1:], var, 'cb-count-out'))
            for t in other_size(outs[p], rng, 2 if self.tier == 'thorough' else 1):
                out.append((ins, outs[:p] + [t] + outs[p + 1:], var, f'cb-size-out:{p}'))
        for p in range(len(outs) + 1):
            out.append((ins, outs[:p] + [rng.choice(['int', 'err', 'i8', 'sl'])] + outs[p:], var, 'cb-count-out'))
        # two or more slots of the wrong size at once (counts right): every pair of positions over parameters and results
        slots = [('i', p) for p in range(len(ins)) if not (var and p == len(ins) - 1)] + [('o', p) for p in range(len(outs))]
        for a in range(len(slots)):
            for b in range(a + 1, len(slots)):
                ci, co = list(ins), list(outs)
                for (k, p) in (slots[a], slots[b]):
                    cur = ci if k == 'i' else co
                    cur[p] = other_size(cur[p], rng, 1)[0]
                first = slots[a]
                out.append((ci, co, var, f'cb-size-{"in" if first[0] == "i" else "out"}:{first[1]}'))
        if len(slots) >= 3:
            ci, co = [other_size(t, rng, 1)[0] if not (var and p == len(ins) - 1) else t for p, t in enumerate(ins)], [other_size(t, rng, 1)[0] for t in outs]
            out.append((ci, co, var, f'cb-size-{"in" if slots[0][0] == "i" else "out"}:{slots[0][1]}'))
        # a type that PRINTS like the slot's type but is another type of another size (local shadow / same-named package)
        for p, t in enumerate(ins):
            if t == 'dup':
                for alt in ('dupl', 'dupp'):
                    out.append((ins[:p] + [alt] + ins[p + 1:], outs, var, f'cb-size-in:{p}'))
        for p, t in enumerate(outs):
            if t == 'dup':
                for alt in ('dupl', 'dupp'):
                    out.append((ins, outs[:p] + [alt] + outs[p + 1:], var, f'cb-size-out:{p}'))
        return out

    def ret_cases(self, outs):
        """(vals, tag)"""
        rng, out = self.rng, []
        vals = [val_ok(t) for t in outs]
        out.append((vals, 'accept'))
        for k in range(len(outs)):
            out.append((vals[:k], 'ret-few'))
        out.append((vals + ['int'], 'ret-many'))
        out.append((vals + ['str', 'nil'], 'ret-many'))
        for p, t in enumerate(outs):
            b = val_bad_size(t, rng)
            if b:
                out.append((vals[:p] + [b] + vals[p + 1:], f'ret-size:{p}'))
            if T[t][2] in NILABLE:
                out.append((vals[:p] + ['nil'] + vals[p + 1:], 'accept'))
            else:
                out.append((vals[:p] + ['nil'] + vals[p + 1:], 'ret-nil'))
            if t == 'err':
                out.append((vals[:p] + ['pe'] + vals[p + 1:], 'accept'))
                out.append((vals[:p] + ['str'] + vals[p + 1:], 'ret-unassignable'))
            if t in SWAP and T[t][2] in ('ptr', 'strct'):      # same-size fakes are cast (value.go:57); other kinds are C09's subject
                out.append((vals[:p] + [SWAP[t]] + vals[p + 1:], 'accept'))
            if T[t][2] in ('ptr', 'strct'):
                out.append((vals[:p] + ['iictx'] + vals[p + 1:], 'accept' if T[t][1] == 8 else f'ret-size:{p}'))
            elif T[t][1] == 8:
                out.append((vals[:p] + ['iictx'] + vals[p + 1:], 'ret-ictx'))
        return out

    def when_cases(self, ins, var, is_method=False):
        """(args, tag); ins without receiver"""
        rng, out = self.rng, []
        args = [val_ok(t) for t in ins]
        if var:
            fixed = ins[:-1]
            for k in range(1, len(fixed)):                   # fewer than the FIXED parameters (when.go:80-90)
                out.append((fixed[:k], 'when-few'))
            out.append((fixed + ['int'], 'accept'))
            for p, t in enumerate(fixed):
                b = val_bad_size(t, rng)
                if b:
                    out.append(([x for x in fixed[:p]] + [b] + fixed[p + 1:] + ['int'], f'when-size:{p}'))
            out.append((fixed + ['str'], f'when-size:{len(fixed)}'))
            return out
        out.append((args, 'accept'))
        for k in range(1, len(ins)):
            out.append((args[:k], 'when-few'))
        out.append((args + ['int'], 'when-many'))
        for p, t in enumerate(ins):
            b = val_bad_size(t, rng)
            if b:
                out.append((args[:p] + [b] + args[p + 1:], f'when-size:{p}'))
            out.append((args[:p] + ['any()'] + args[p + 1:], 'accept'))
        return out

    def gen_funcs(self):
        rng = self.rng
        for name, (ins, outs, var) in ALLF.items():
            h = self.func_head(name)
            self.add(f'{h} apply {lst(ins)} {lst(outs)} {int(var)}', 'accept')
            self.add(f'{self.func_head(name, 1)} apply {lst(ins)} {lst(outs)} {int(var)}', 'accept')
            self.add(f'{self.func_head(name, 0, "ok")} apply {lst(ins)} {lst(outs)} {int(var)}', 'accept')
            self.add(f'{self.func_head(name, 0, "small")} apply {lst(ins)} {lst(outs)} {int(var)}', 'accept')
            self.add(f'{self.func_head(name, 0, "fnval")} apply {lst(ins)} {lst(outs)} {int(var)}', 'accept')
            for p, t in enumerate(ins):
                if t in SWAP and not (var and p == len(ins) - 1):
                    self.add(f'{h} apply {lst(ins[:p] + [SWAP[t]] + ins[p + 1:])} {lst(outs)} {int(var)}', 'accept')
            for (ci, co, cv, tag) in self.cb_mistakes(ins, outs, var):
                pre = 1 if rng.chance(1, 4) else 0
                org = rng.choice(['none', 'none', 'none', 'ok', 'fnval'])
                self.add(f'{self.func_head(name, pre, org)} apply {lst(ci)} {lst(co)} {int(bool(cv))}', tag)
            for tok in ('int', 'str', 'nil', 'pi', 's16', 'sl', 'err'):
                self.add(f'{self.func_head(name, 1 if rng.chance(1, 4) else 0)} applyval {tok}', 'cb-nonfunc')
            for org in ('int', 'str', 'pint'):
                self.add(f'{self.func_head(name, 1 if rng.chance(1, 3) else 0, org)} apply {lst(ins)} {lst(outs)} {int(var)}', 'origin-kind')
                if outs:
                    self.add(f'{self.func_head(name, 0, org)} return {lst(outs)}', 'origin-kind')
            for (vals, tag) in self.ret_cases(outs):
                pre = 1 if rng.chance(1, 4) else 0
                self.add(f'{self.func_head(name, pre)} return {lst(vals)}', tag)
            okret = lst(outs)
            for (args, tag) in self.when_cases(ins, var):
                pre = 1 if rng.chance(1, 4) else 0
                if tag == 'accept' and not ins:
                    continue
                self.add(f'{self.func_head(name, pre)} when {lst(args)} return {okret}', tag)
                if tag == 'accept':                               # When(ok) then a bad Return: the second call is rejected
                    self.add(f'{self.func_head(name, pre)} when {lst(args)}', 'accept')
                    for (vals, rtag) in self.ret_cases(outs):
                        if rtag != 'accept' and args == [val_ok(t) for t in ins]:
                            self.add(f'{self.func_head(name, pre)} when {lst(args)} return {lst(vals)}', 'second:' + rtag)

    def gen_nonfunc(self):
        for tok in ('int', 'str', 'bool', 'f64', 's16', 'a12', 'nil', 'pi', 'sl', 'map', 'ch', 'err', 'any', 'c128', 'ps'):
            self.add(f'nonfunc {tok} apply int int 0', 'target-nonfunc')
            self.add(f'nonfunc {tok} apply - - 0', 'target-nonfunc')
            self.add(f'nonfunc {tok} return int', 'target-nonfunc')
            self.add(f'nonfunc {tok} when int return int', 'target-nonfunc')

    def gen_methods(self):
        rng = self.rng
        for name, (ins0, outs, var) in Z.METHODS.items():
            ins = ['prc'] + ins0
            h = f'method {name} 1 {lst(ins)} {lst(outs)} {int(var)}'
            self.add(f'{h} apply {lst(ins)} {lst(outs)} {int(var)}', 'accept')
            for (ci, co, cv, tag) in self.cb_mistakes(ins, outs, var):
                self.add(f'{h} apply {lst(ci)} {lst(co)} {int(bool(cv))}', tag)
            self.add(f'{h} applyval int', 'cb-nonfunc')
            self.add(f'{h} applyval nil', 'cb-nonfunc')
            for (vals, tag) in self.ret_cases(outs):
                self.add(f'{h} return {lst(vals)}', tag)
            for (args, tag) in self.when_cases(ins0, var):
                if tag == 'accept' and not ins0:
                    continue
                self.add(f'{h} when {lst(args)} return {lst(outs)}', tag)
            for bad in ('Nope', 'm1', name.lower() + 'x', '-'):
                tag = 'method-empty' if bad == '-' else 'method-unknown'
                hb = f'method {bad} 0 {lst(ins)} {lst(outs)} {int(var)}'
                self.add(f'{hb} apply {lst(ins)} {lst(outs)} {int(var)}', tag)
                self.add(f'{hb} return {lst(outs)}', tag)
                self.add(f'{hb} when {lst(ins0)} return {lst(outs)}', tag)

    def gen_export(self):
        for form in ('func', 'struct'):
            # unknown names incl. names that are '/'-aligned path SUFFIXES of a real symbol (tencent/goom.ztouch, goom.ztouch)
            for nk in ('unknown', 'empty', 'suffix1', 'suffix2'):
                for call in ('apply', 'as'):
                    for sig in ('- -', 'int int', 'prc,int str,err'):
                        self.add(f'export {form} {nk} {call} {sig} 0', 'symbol-unknown')
        self.add('export func known as - - 0', 'accept')

    def gen_iface(self):
        rng = self.rng
        for name, (mins, mouts) in Z.IMETHODS.items():
            full = ['ictx'] + mins
            for vk in ('ok', 'nonptr', 'int', 'pint', 'pstruct', 'slice', 'array', 'map', 'chan', 'func', 'pptr', 'nilv'):
                h = f'iface {vk} {name} 1 {lst(mins)} {lst(mouts)}'
                self.add(f'{h} apply {lst(full)} {lst(mouts)}', 'accept' if vk == 'ok' else 'iface-kind:' + vk)
                self.add(f'{h} as {lst(full)} {lst(mouts)} return {lst(mouts)}', 'accept' if vk == 'ok' else 'iface-kind:' + vk)
            h = f'iface ok {name} 1 {lst(mins)} {lst(mouts)}'
            for bad in ('Nope', name.lower(), '-'):
                for vk in ('ok', 'pstruct', 'pint', 'int', 'slice', 'map', 'pptr'):
                    self.add(f'iface {vk} {bad} 0 {lst(mins)} {lst(mouts)} apply {lst(full)} {lst(mouts)}',
                             'method-empty' if bad == '-' else 'method-unknown')
            # callback mistakes
            self.add(f'{h} apply {lst(mins) if mins else "int"} {lst(mouts)}', 'iface-first')
            self.add(f'{h} apply {lst(["int"] + mins)} {lst(mouts)}', 'iface-first')
            self.add(f'{h} apply {lst(["prc"] + mins)} {lst(mouts)}', 'iface-first')
            self.add(f'{h} apply - {lst(mouts)}', 'iface-noargs')
            self.add(f'{h} applyval nil', 'cb-nonfunc')
            self.add(f'{h} applyval int', 'cb-nonfunc')
            for (ci, co, cv, tag) in self.cb_mistakes(mins, mouts, False):
                itag = {'cb-count-in': 'iface-cb-count-in', 'cb-count-out': 'iface-cb-count-out'}.get(tag, 'iface-' + tag)
                self.add(f'{h} apply {lst(["ictx"] + ci)} {lst(co)}', itag)
                if rng.chance(1, 2):
                    self.add(f'{h} as {lst(["ictx"] + ci)} {lst(co)} return {lst(co)}', itag)
            for (vals, tag) in self.ret_cases(mouts):
                self.add(f'{h} as {lst(full)} {lst(mouts)} return {lst(vals)}', tag)
            for (args, tag) in self.when_cases(mins, False):
                if tag == 'accept' and not mins:
                    continue
                self.add(f'{h} as {lst(full)} {lst(mouts)} when {lst(args)} return {lst(mouts)}', tag)

    # ---- sequences: Returns / AndReturn and follow-up matchers on a mocker that is already configured
    def group_cases(self, outs):
        """(groups-string, tag) for Returns(...): the offending value at every position of the first and of a later group"""
        rng, out = self.rng, []
        ok = lst(outs)
        out.append((f'{ok}|{ok}', 'accept'))
        out.append((f'{ok}|{ok}|{ok}', 'accept'))
        for k in (0, 1):
            def put(g):
                return f'{g}|{ok}' if k == 0 else f'{ok}|{g}'
            for p, t in enumerate(outs):
                b = val_bad_size(t, rng)
                if b:
                    out.append((put(lst(outs[:p] + [b] + outs[p + 1:])), f'returns-size:{p}'))
                if T[t][2] not in NILABLE:
                    out.append((put(lst(outs[:p] + ['nil'] + outs[p + 1:])), 'returns-nil'))
            if len(outs) > 1:
                out.append((put(lst(outs[:-1])), 'returns-count'))
            out.append((put(lst(outs + ['int'])), 'returns-count'))
        return out

    def follow_cases(self, ins, outs):
        """(step-string, tag): a second matcher on an already configured mocker; ins without receiver/ctx, non-variadic"""
        rng, out = self.rng, []
        n, okr, oka = len(ins), lst(outs), lst(ins)
        out.append((f'when {oka} ; return {okr}', 'accept'))
        out.append((f'when {lst(["any()"] * n)}', 'accept'))
        out.append((f'in {oka}|{lst(["any()"] + ins[1:])}', 'accept'))
        if outs:
            out.append((f'matches {oka}={okr}|{lst(["any()"] * n)}={okr}', 'accept'))
        for k in range(0, n):
            few = lst(ins[:k])
            out.append((f'when {few}', 'seq-when-few'))
            if k > 0:
                out.append((f'in {few}|{few}', 'seq-in-few'))
                out.append((f'in {oka}|{few}', 'seq-in-few'))
                if outs:
                    out.append((f'matches {few}={okr}', 'seq-matches-few'))
                    out.append((f'matches {oka}={okr}|{few}={okr}', 'seq-matches-few'))
        many = lst(ins + ['int'])
        out.append((f'when {many}', 'seq-when-many'))
        out.append((f'in {many}', 'seq-in-many'))
        if outs:
            out.append((f'matches {many}={okr}', 'seq-matches-many'))
            if len(outs) > 1:
                out.append((f'matches {oka}={lst(outs[:-1])}', 'seq-matches-retcount'))
            out.append((f'matches {oka}={lst(outs + ["int"])}', 'seq-matches-retcount'))
        for p_, t in enumerate(ins):
            b = val_bad_size(t, rng)
            if b:
                bad = lst(ins[:p_] + [b] + ins[p_ + 1:])
                out.append((f'when {bad}', f'seq-when-size:{p_}'))
                out.append((f'in {bad}', f'seq-in-size:{p_}'))
        return out

    def gen_seq(self):
        rng = self.rng

        def emit(head_of, ins, outs, var, pres):
            okr, oka = lst(outs), lst(ins)
            if outs:
                for (g, tag) in self.group_cases(outs):
                    self.add(f'{head_of(rng.choice(pres))} returns {g}', tag)
                    if tag != 'accept' and rng.chance(1, 2):
                        self.add(f'{head_of(rng.choice(pres))} return {okr} ; returns {g}', 'second:' + tag)
                    if tag != 'accept' and ins and not var and rng.chance(1, 2):
                        self.add(f'{head_of(0)} when {oka} ; returns {g}', 'second:' + tag)
                for (vals, tag) in self.ret_cases(outs):
                    if tag not in ('accept',) and vals:
                        self.add(f'{head_of(rng.choice(pres))} return {okr} ; andreturn {lst(vals)}', 'second:' + tag)
                        if ins and not var:
                            self.add(f'{head_of(0)} when {oka} ; return {okr} ; andreturn {lst(vals)}', 'second:' + tag)
            if ins and not var:
                firsts = [f'when {oka} ; return {okr}'] + ([f'return {okr}'] if outs else [])
                for (st, tag) in self.follow_cases(ins, outs):
                    first = rng.choice(firsts)
                    self.add(f'{head_of(rng.choice(pres))} {first} ; {st}', tag)
                    if st.startswith('when') or rng.chance(1, 3):
                        self.add(f'{head_of(0)} {first} ; again ; {st}', tag)
                # Apply discards the When: the next When is a first call again (typed cause through checkParams)
                if len(ins) > 1:
                    self.add(f'{head_of(0)} {firsts[0]} ; again ; apply {oka} {okr} 0 ; when {lst(ins[:1])}', 'when-few')
                self.add(f'{head_of(0)} {firsts[0]} ; again ; apply {oka} {okr} 0 ; when {oka} ; return {okr}', 'accept')

        def same_name_pairs(head, cbins, outs, var):
            """a well-formed Apply, then (same process, same mocker or a repeated lookup) a callback whose func type prints the same"""
            good = f'apply {lst(cbins)} {lst(outs)} {int(var)}'
            for (ci, co, cv, tag) in self.cb_mistakes(cbins, outs, var):
                if 'dupl' in ci + co or 'dupp' in ci + co:
                    bad = f'apply {lst(ci)} {lst(co)} {int(bool(cv))}'
                    self.add(f'{head} {good} ; {bad}', tag)
                    self.add(f'{head} {good} ; again ; {bad}', tag)
                    if outs:
                        self.add(f'{head} return {lst(outs)} ; again ; {bad}', tag)

        def variadic_follow(head, ins, outs):
            """later When/In/Matches on a variadic target: fewer conditions than FIXED parameters must be rejected"""
            fixed, okr = ins[:-1], lst(outs)
            first = f'return {okr}'
            # a FIRST When may leave the variadic slot empty (f(1) is a legal call); fewer than the fixed parameters is the mistake
            self.add(f'{head} when {lst(fixed)} ; return {okr}', 'accept')
            self.add(f'{head} when {lst(fixed + ["int"])} ; return {okr}', 'accept')
            for k in range(1, len(fixed)):
                self.add(f'{head} when {lst(fixed[:k])}', 'when-few')
            for via in ('', 'again ; '):
                for k in range(len(fixed)):
                    few = lst(fixed[:k])
                    self.add(f'{head} {first} ; {via}when {few}', 'seq-when-few')
                    if k > 0:
                        self.add(f'{head} {first} ; matches {few}={okr}', 'seq-matches-few')
                        self.add(f'{head} {first} ; matches {lst(fixed + ["int"])}={okr}|{few}={okr}', 'seq-matches-few')
                        if len(fixed) >= 2:
                            self.add(f'{head} {first} ; in {lst(fixed + ["int"])}|{few}', 'seq-in-few')
                            self.add(f'{head} {first} ; in {few}|{few}', 'seq-in-few')
                for extra in ([], ['int'], ['int', 'int']):
                    ok = lst(fixed + extra)
                    self.add(f'{head} {first} ; {via}when {ok} ; return {okr}', 'accept')
                    if len(fixed) >= 2:
                        self.add(f'{head} {first} ; in {ok}|{lst(fixed + ["int"])}', 'accept')
                    self.add(f'{head} {first} ; matches {ok}={okr}', 'accept')
                for p_, t in enumerate(fixed):
                    b = val_bad_size(t, rng)
                    if b:
                        self.add(f'{head} {first} ; {via}when {lst(fixed[:p_] + [b] + fixed[p_ + 1:] + ["int"])}', f'seq-when-size:{p_}')
                self.add(f'{head} {first} ; {via}when {lst(fixed + ["str"])}', f'seq-when-size:{len(fixed)}')

        for name, (ins, outs, var) in Z.FUNCS.items():
            emit(lambda pre, name=name, ins=ins, outs=outs, var=var: f'seqf {name} {lst(ins)} {lst(outs)} {int(var)} {pre}', ins, outs, var, [0, 0, 1])
            same_name_pairs(f'seqf {name} {lst(ins)} {lst(outs)} {int(var)} 0', ins, outs, var)
            if var and outs and len(ins) > 1:
                variadic_follow(f'seqf {name} {lst(ins)} {lst(outs)} {int(var)} 0', ins, outs)
        for name, (ins0, outs, var) in Z.METHODS.items():
            full = ['prc'] + ins0
            hm = f'seqm {name} {lst(full)} {lst(outs)} {int(var)}'
            # for methods the apply step needs the receiver in the callback
            def emit_m():
                okr, oka = lst(outs), lst(ins0)
                if outs:
                    for (g, tag) in self.group_cases(outs):
                        self.add(f'{hm} returns {g}', tag)
                        if tag != 'accept':
                            self.add(f'{hm} return {okr} ; returns {g}', 'second:' + tag)
                    for (vals, tag) in self.ret_cases(outs):
                        if tag != 'accept' and vals:
                            self.add(f'{hm} return {okr} ; andreturn {lst(vals)}', 'second:' + tag)
                if ins0 and not var:
                    firsts = [f'when {oka} ; return {okr}'] + ([f'return {okr}'] if outs else [])
                    for (st, tag) in self.follow_cases(ins0, outs):
                        self.add(f'{hm} {rng.choice(firsts)} ; {st}', tag)
                        self.add(f'{hm} {rng.choice(firsts)} ; again ; {st}', tag)
            emit_m()
            same_name_pairs(hm, full, outs, var)
            if var and outs and len(ins0) > 1:
                variadic_follow(hm, ins0, outs)
        for name, (mins, mouts) in Z.IMETHODS.items():
            full = ['ictx'] + mins
            hi = f'seqi {name} {INAMES} {lst(mins)} {lst(mouts)} {lst(full)} {lst(mouts)}'
            okr, oka = lst(mouts), lst(mins)
            if mouts:
                for (g, tag) in self.group_cases(mouts):
                    self.add(f'{hi} returns {g}', tag)
                    if tag != 'accept':
                        self.add(f'{hi} return {okr} ; returns {g}', 'second:' + tag)
                for (vals, tag) in self.ret_cases(mouts):
                    if tag != 'accept' and vals:
                        self.add(f'{hi} return {okr} ; andreturn {lst(vals)}', 'second:' + tag)
            if mins:
                firsts = [f'when {oka} ; return {okr}'] + ([f'return {okr}'] if mouts else [])
                for (st, tag) in self.follow_cases(mins, mouts):
                    self.add(f'{hi} {rng.choice(firsts)} ; {st}', tag)
                    self.add(f'{hi} {rng.choice(firsts)} ; again ; {st}', tag)

    # ---- retries: a test that recovers from the panic and configures again (every step runs, also after a rejection)
    def gen_retry(self):
        rng = self.rng

        def bad_first_calls(ins, outs, var, cbins):
            """(step, good-step, kind) samples of rejected FIRST configuration calls and a correct call of the same kind"""
            out = []
            okcb = f'apply {lst(cbins)} {lst(outs)} {int(var)}'
            cbs = self.cb_mistakes(cbins, outs, var)
            for (ci, co, cv, tag) in [rng.choice(cbs) for _ in range(3)] if cbs else []:
                out.append((f'apply {lst(ci)} {lst(co)} {int(bool(cv))}', okcb, 'apply'))
            out.append((f'applyval {rng.choice(["int", "str", "nil", "sl"])}', okcb, 'apply'))
            if outs:
                bads = [(v, t) for (v, t) in self.ret_cases(outs) if t != 'accept']
                for (vals, tag) in [rng.choice(bads) for _ in range(3)]:
                    out.append((f'return {lst(vals)}', f'return {lst(outs)}', 'return'))
                gb = [(g, t) for (g, t) in self.group_cases(outs) if t != 'accept']
                for (g, tag) in [rng.choice(gb) for _ in range(2)]:
                    out.append((f'returns {g}', f'returns {lst(outs)}|{lst(outs)}', 'returns'))
            wb = [(a, t) for (a, t) in self.when_cases(ins, var) if t != 'accept']
            if wb and not var and ins:
                for (args, tag) in [rng.choice(wb) for _ in range(2)]:
                    out.append((f'when {lst(args)}', f'when {lst(ins)} ; return {lst(outs)}', 'when'))
            return out

        def emit(head, ins, outs, var, cbins, unknown=None):
            for (bad, good, kind) in bad_first_calls(ins, outs, var, cbins):
                ngood = good.count(' ; ') + 1
                self.add(f'{head} {bad} ; {bad}', 'rt:R,R')
                self.add(f'{head} {bad} ; {bad} ; {good}', 'rt:R,R' + ',A' * ngood)
            # a valid stub first, then an ill-formed Apply: the stub must keep answering
            firsts = ([f'return {lst(outs)}'] if outs else []) + ([f'when {lst(ins)} ; return {lst(outs)}'] if ins and not var else [])
            cbs = self.cb_mistakes(cbins, outs, var)
            for first in firsts:
                n1 = first.count(' ; ') + 1
                picks = [rng.choice(cbs) for _ in range(3)] if cbs else []
                for (ci, co, cv, tag) in picks:
                    self.add(f'{head} {first} ; again ; apply {lst(ci)} {lst(co)} {int(bool(cv))}', 'rt:' + 'A,' * (n1 + 1) + 'R')
                for tok in ('int', 'nil', 'str'):
                    self.add(f'{head} {first} ; again ; applyval {tok}', 'rt:' + 'A,' * (n1 + 1) + 'R')
            if unknown:
                good = f'return {lst(outs)}' if outs else f'apply {lst(cbins)} {lst(outs)} {int(var)}'
                for bad in unknown:
                    self.add(f'{head} lookup {bad} 0 ; lookup {bad} 0', 'rt:R,R')
                    self.add(f'{head} lookup {bad} 0 ; lookup {bad} 0 ; {good}', 'rt:R,R,A')
                    self.add(f'{head} {good} ; lookup {bad} 0 ; lookup {bad} 0', 'rt:A,R,R')

        for name, (ins, outs, var) in Z.FUNCS.items():
            emit(f'rtf {name} {lst(ins)} {lst(outs)} {int(var)} {rng.below(2)}', ins, outs, var, ins)
        for name, (ins0, outs, var) in Z.METHODS.items():
            full = ['prc'] + ins0
            emit(f'rtm {name} {lst(full)} {lst(outs)} {int(var)}', ins0, outs, var, full, unknown=['Nope', name.lower(), '-'])
        for name, (mins, mouts) in Z.IMETHODS.items():
            full = ['ictx'] + mins
            head = f'rti {name} {INAMES} {lst(mins)} {lst(mouts)} {lst(full)} {lst(mouts)}'
            emit(head, mins, mouts, False, full, unknown=['Nope', name.lower(), name + 'x', '-'])
            # an ill-fitting As() stub, configured again and again, then a fitting one
            for (ci, co, cv, tag) in self.cb_mistakes(mins, mouts, False):
                bad_as = f'as {lst(["ictx"] + ci)} {lst(co)}'
                good_as = f'as {lst(full)} {lst(mouts)}'
                calls = [f'return {lst(co)}'] + ([f'when {lst(ci)}'] if ci and len(ci) == len(mins) else []) + ([f'returns {lst(co)}|{lst(co)}'] if co else [])
                call = rng.choice(calls)
                self.add(f'{head} {bad_as} ; {call} ; {call}', 'rt:A,R,R')
                if rng.chance(1, 2):
                    self.add(f'{head} {bad_as} ; {call} ; {good_as} ; return {lst(mouts)}', 'rt:A,R,A,A')

    # ---- round-5 lanes: method values as targets, closures, Func(&fnVar), empty Returns(), first When(), bare In groups,
    #      Interface(&structHoldingTheVariable), ExportFunc(..).As(..).Apply/Return, debug mode
    def gen_round5(self):
        rng = self.rng
        for name in Z.MVALS:
            ins, outs, var = Z.METHODS[name]
            full = ['prc'] + ins
            h = f'fm {name} {lst(ins)} {lst(outs)} {int(var)}'
            self.add(f'{h} apply {lst(full)} {lst(outs)} {int(var)}', 'accept')
            for (ci, co, cv, tag) in self.cb_mistakes(full, outs, var):
                self.add(f'{h} apply {lst(ci)} {lst(co)} {int(bool(cv))}', 'fm:' + tag)
            self.add(f'{h} apply {lst(ins)} {lst(outs)} {int(var)}', 'fm:cb-count-in')       # the method value's own type: receiver missing
            for tok in ('int', 'nil', 's16', 'bool', 'pi', 'sl', 'map', 'str'):      # patch.go:139 refuses every non-function
                self.add(f'{h} applyval {tok}', 'cb-nonfunc')
            for (vals, tag) in self.ret_cases(outs):
                self.add(f'{h} return {lst(vals)}', tag)
            for (args, tag) in self.when_cases(ins, var):
                if tag != 'accept':
                    self.add(f'{h} when {lst(args)} return {lst(outs)}', tag)
        # Func(&fnVar): proxy.Func dereferences, so Apply is a normal (checked) mock of the function the variable holds
        self.add('nonfunc pfn apply int int 0', 'accept')
        for (ci, co, cv, tag) in self.cb_mistakes(['int'], ['int'], False):
            self.add(f'nonfunc pfn apply {lst(ci)} {lst(co)} {int(bool(cv))}', tag)
        self.add('nonfunc pfn return int', 'target-nonfunc')
        self.add('nonfunc pfn when int return int', 'target-nonfunc')
        # an empty first Returns() and a first When() without conditions
        for name, (ins, outs, var) in ALLF.items():
            h = f'seqf {name} {lst(ins)} {lst(outs)} {int(var)} {rng.below(2)}'
            self.add(f'{h} returns ()', 'ret-few' if outs else 'accept')
            if outs:
                self.add(f'{h} return {lst(outs)} ; returns ()', 'accept')          # on the handle an empty Returns adds nothing
            if ins and outs:
                self.add(f'{h} when - ; return {lst(outs)}', 'when-none')
        for name, (ins0, outs, var) in Z.METHODS.items():
            hm = f'seqm {name} {lst(["prc"] + ins0)} {lst(outs)} {int(var)}'
            self.add(f'{hm} returns ()', 'ret-few' if outs else 'accept')
            if ins0 and outs:
                self.add(f'{hm} when - ; return {lst(outs)}', 'when-none')
        for name, (mins, mouts) in Z.IMETHODS.items():
            hi = f'seqi {name} {INAMES} {lst(mins)} {lst(mouts)} {lst(["ictx"] + mins)} {lst(mouts)}'
            self.add(f'{hi} returns ()', 'ret-few' if mouts else 'accept')
            if mins and mouts:
                self.add(f'{hi} when - ; return {lst(mouts)}', 'when-none')
        # In(...) with BARE arguments on a variadic target with ONE fixed parameter (a bare argument is one condition): from the
        # variadic index on, a bare SLICE is expanded element-wise (expr.go:75), every other bare argument is one condition
        for (head, ins, outs) in [(f'seqf {n} {lst(i)} {lst(o)} 1 0', i, o) for n, (i, o, v) in Z.FUNCS.items() if v and o and len(i) == 2] + \
                                 [(f'seqm {n} {lst(["prc"] + i)} {lst(o)} 1', i, o) for n, (i, o, v) in Z.METHODS.items() if v and o and len(i) == 2]:
            first = f'return {lst(outs)}'
            for a0 in (ins[0], 'any()'):
                self.add(f'{head} {first} ; in {a0}|int', 'accept')          # expr.go:75: only slices/arrays are expanded
                self.add(f'{head} {first} ; in {a0}|{a0}|int', 'accept')
                self.add(f'{head} {first} ; in {a0}|sl', 'accept')
                self.add(f'{head} {first} ; in {a0}', 'accept')
                self.add(f'{head} {first} ; again ; in {a0}|bool', 'seq-in-size:0')
        # Interface(&struct whose first field is the variable): same address, not an interface
        for name, (mins, mouts) in Z.IMETHODS.items():
            full = ['ictx'] + mins
            for var in ('', '@n'):
                hi = f'rti {name}{var} {INAMES} {lst(mins)} {lst(mouts)} {lst(full)} {lst(mouts)}'
                first = f'return {lst(mouts)}' if mouts else f'apply {lst(full)} - 0'
                if var == '@n':
                    self.add(f'{hi} {first} ; holder', 'rt:A,R')
                    self.add(f'{hi} holder ; {first}', 'rt:R,A')
                else:
                    self.add(f'{hi} {first} ; holder ; apply {lst(full)} {lst(mouts)} 0', 'rt:A,A,R')
                    self.add(f'{hi} {first} ; holder ; {first}', 'rt:A,A,R')
                    self.add(f'{hi} holder ; apply {lst(full)} {lst(mouts)} 0 ; apply {lst(full)} {lst(mouts)} 0', 'rt:A,R,R')
                    if mouts:
                        self.add(f'{hi} {first} ; holder ; returns {lst(mouts)}|{lst(mouts)}', 'rt:A,A,R')
                        if mins:
                            self.add(f'{hi} {first} ; holder ; when {lst(mins)}', 'rt:A,A,R')
        # ExportFunc(known).As(fn) then Apply / Return: checked against fn's type like any function
        self.add('export func known asapply - - 0 - -', 'accept')
        for (ci, co, cv, tag) in self.cb_mistakes([], [], False) + [(['int'], [], 0, 'cb-count-in'), ([], ['int'], 0, 'cb-count-out')]:
            self.add(f'export func known asapply - - 0 {lst(ci)} {lst(co)}', tag)
        self.add('export func known asreturn - - 0 -', 'accept')
        self.add('export func known asreturn - - 0 int', 'ret-many')
        # the same mistakes with goom's debug mode on (every callback is wrapped, debug.go:41)
        picks = [i for i, o in enumerate(self.ops) if o.split()[1] in ('func', 'method', 'iface', 'seqf') and ' ok ' not in o and 'fnval' not in o and 'small' not in o]
        for _ in range(120 if self.tier == 'quick' else 600):
            i = rng.choice(picks)
            self.add('dbg ' + self.ops[i][4:], self.tags[i])

    def gen_random(self, n):
        """random signatures are impossible (targets are real functions); random LANES: re-draw the offending types/positions"""
        rng = self.rng
        names = list(Z.FUNCS)
        for _ in range(n):
            name = rng.choice(names)
            ins, outs, var = Z.FUNCS[name]
            pre = rng.below(2)
            pick = rng.below(3)
            if pick == 0:
                cs = self.cb_mistakes(ins, outs, var)
                ci, co, cv, tag = rng.choice(cs)
                self.add(f'{self.func_head(name, pre, rng.choice(["none", "ok", "small"]))} apply {lst(ci)} {lst(co)} {int(bool(cv))}', tag)
            elif pick == 1:
                vals, tag = rng.choice(self.ret_cases(outs))
                self.add(f'{self.func_head(name, pre)} return {lst(vals)}', tag)
            else:
                cs = self.when_cases(ins, var)
                if cs:
                    args, tag = rng.choice(cs)
                    if tag == 'accept' and not ins:
                        continue
                    self.add(f'{self.func_head(name, pre)} when {lst(args)} return {lst(outs)}', tag)


def generate(tier, rng):
    g = Gen(rng, tier)
    corpus = os.path.join(C.HARNESS, 'c13', 'regress.ops')
    if os.path.exists(corpus):
        for line in open(corpus):
            line = line.rstrip('\n')
            if line and not line.startswith('#'):
                tag, op = line.split('\t', 1)
                g.ops.append(op)
                g.tags.append(tag)
    g.gen_funcs()
    g.gen_nonfunc()
    g.gen_methods()
    g.gen_export()
    g.gen_iface()
    g.gen_seq()
    g.gen_retry()
    g.gen_round5()
    g.gen_random(200 if tier == 'quick' else 12000)
    seen, ops, tags = set(), [], []
    for o, t in zip(g.ops, g.tags):
        if o not in seen:
            seen.add(o)
            ops.append(o)
            tags.append(t)
    return ops, tags


# ------------------------------------------------------------------ the property, stated on the implementation's observations

WALK_SPEC = {  # mistake -> type the erro.Cause walk must end at (prefix)
    'ret-few': 'returnsnotmatch', 'when-few': 'argsnotmatch',
    'iface-cb-count-in': 'illegalparam', 'iface-cb-count-out': 'illegalparam', 'iface-first': 'illegalparamtype',
    'iface-kind:pstruct': 'illegalparamtype', 'iface-kind:slice': 'illegalparamtype', 'iface-kind:array': 'illegalparamtype',
    'iface-kind:map': 'illegalparamtype', 'iface-kind:chan': 'illegalparamtype',
}
DEFECT_KEYS = {'ret-few': 'returns-count-typed-cause'}


def fields(obs):
    d = {}
    for p in (obs or '').split():
        if '=' in p:
            k, v = p.split('=', 1)
            d[k] = v
    return d


def oracle(op, tag, obs):
    """None if the property holds on this observation, else (what, finding-key)."""
    if obs is None:
        return ('no observation (probe crashed on this call)', None)
    if obs in ('bad-op', 'zoo-mismatch') or obs.startswith('probe-panic'):
        return (f'probe could not perform the call: {obs}', None)
    if op.startswith('c13 dbg '):
        op = 'c13 ' + op[8:]                      # debug mode must change nothing: same oracle
    f = fields(obs)
    rejected = obs.startswith('rej:')
    form = op.split()[1]
    # erro.CauseBy (traceable.go:26) must identify every Traceable node of the walk and nothing else
    cby = f.get('cby', '-')
    if cby != '-':
        kn, x = cby.split(',')
        k, n = kn.split('/')
        if k != n or x != '0':
            return (f'erro.CauseBy is wrong on the reported error: it recognises {k} of the {n} Traceable nodes of the chain {f.get("chain")} '
                    f'and {"claims" if x != "0" else "rejects"} an unrelated error', 'causeby')
    if form in ('seqf', 'seqm', 'seqi', 'rtf', 'rtm', 'rti'):
        if tag == 'when-none' and not rejected:
            return ('a first When() without any condition on a target WITH parameters was accepted (it silently becomes the default)',
                    'first-when-without-args')
        return oracle_seq(op, tag, f, rejected)
    if tag.startswith('fm:'):
        if not rejected:
            return (f'method value as target (`Func(obj.M)`, applied by name): the ill-fitting callback `{tag[3:]}` was accepted and installed '
                    f'on the method (no signature check on the -fm route)', 'fm-unchecked')
        tag = tag[3:]
    second = tag.startswith('second:')
    mistake = tag[7:] if second else tag
    if tag in ('accept', 'accept?'):
        if rejected:
            return None      # a stricter-than-needed rejection is not a violation of C13; correspondence still sees it
    else:
        if not rejected:
            return (f'mistake `{mistake}` was accepted at configuration time', 'accepted:' + mistake.split(':')[0])
        want = None if second else WALK_SPEC.get(mistake)   # (*When).Return reports through a string panic (matcher.go:58)
        if mistake.startswith('iface-cb-') and f.get('chain', '').startswith('traceable') and \
                not f.get('chain', '').split('>')[-1].startswith(('argsnotmatch', 'returnsnotmatch', 'illegalparamtype')):
            return (f'mistake `{mistake}`: the cause chain {f.get("chain")} does not END in a typed cause (*ArgsNotMatch, *ReturnsNotMatch or '
                    f'*IllegalParamType): following Cause() leads to an untyped error', 'cause:iface-signature-untyped')
        ok_inner = mistake.startswith('iface-cb-count') and f.get('walk', '').startswith(('argsnotmatch', 'returnsnotmatch'))
        if want and not f.get('walk', '').startswith(want) and not ok_inner:
            return (f'mistake `{mistake}`: the cause chain {f.get("chain")} walks to {f.get("walk")}, not to the typed cause {want}',
                    'cause:' + mistake.split(':')[0])
    if rejected:
        if f.get('diff', 'none') != 'none':
            return (f'rejected call changed the executable image ({f["diff"]})', 'text-changed')
        if form in ('func', 'method') and 'before' in f and f.get('beh') != f.get('before'):
            return (f'rejected call changed the target\'s behaviour {f.get("before")} -> {f.get("beh")}', 'behaviour-changed')
        if form == 'method' and 'before' not in f and not second and f.get('beh') not in ('orig', '-'):
            return (f'target mocked after a rejected call (behaves as {f.get("beh")})', 'behaviour-changed')
        if form == 'func' and not second and f.get('before') == 'orig' and f.get('reg') not in ('none', 'stale'):
            return (f'rejected call left a usable patch registered ({f.get("reg")})', 'registry')
        if form in ('nonfunc', 'export') and f.get('regdelta') != '0':
            return ('rejected call changed the patch registry', 'registry')
        if form == 'iface' and not second and f.get('var') != 'nil' and ' when ' not in op:
            return ('rejected interface mock still replaced the variable', 'iface-var')
    if 'after' in f and f['after'] != 'ok' and f['after'] != '-':
        return (f'after this call a correct mock of the same target no longer works: {f["after"]}', 'after')
    return None


STRING_PANIC_MISTAKES = ('cb-count', 'cb-size', 'cb-nonfunc', 'ret-many', 'ret-size', 'ret-nil', 'ret-unassignable', 'when-many', 'when-size',
                         'method-unknown', 'method-empty', 'symbol-unknown', 'origin-kind', 'target-nonfunc', 'iface-kind', 'iface-noargs')


def deviation(op, tag, obs):
    """Recorded deviations from the clause 'an error whose cause chain can be walked to its typed cause' on calls that ARE rejected
    and leave nothing behind: (K2) the rejection is a panic with a string / a reflect panic, there is no error value at all;
    (K3) the erro.Cause walk stops at *IllegalParam, one node before the typed cause."""
    if not obs or not obs.startswith('rej:') or op.split()[1] in ('seqf', 'seqm', 'seqi', 'rtf', 'rtm', 'rti'):
        return None
    f = fields(obs)
    t = tag[3:] if tag.startswith('fm:') else tag
    if t.startswith('iface-cb-count') and f.get('walk') == 'illegalparam' and 'notmatch' in f.get('chain', ''):
        return 'walk-stops-at-illegalparam'
    if t.startswith(STRING_PANIC_MISTAKES) and f.get('chain') in ('str', 'reflect', 'runtime'):
        return 'untyped-panic'
    return None


def oracle_seq(op, tag, f, rejected):
    """sequence / retry ops: the observation is about the last executed configuration call, relative to the state right before it"""
    steps = op.split(' ; ')
    last_kind = steps[-1].split()[0] if len(steps) > 1 else op.split()[-2 if False else 0]
    toks = steps[-1].split()
    for k in ('apply', 'applyval', 'return', 'when', 'returns', 'andreturn', 'in', 'matches', 'lookup', 'as', 'again'):
        if k in toks:
            last_kind = k
    if tag.startswith('rt:'):
        expect = tag[3:].split(',')
        trail = f.get('trail', '').split(',')
        if len(trail) != len(expect):
            return (f'probe ran {len(trail)} of {len(expect)} calls', None)
        for i, (e, got) in enumerate(zip(expect, trail)):
            if e == 'R' and not got.startswith('rej:'):
                return (f'call {i} of the sequence (`{steps[i] if i < len(steps) else "?"}`) is a configuration mistake (or a retry of one) but was '
                        f'accepted: {f.get("trail")}', 'accepted:retry')
        mistake = 'retry' if expect[-1] == 'R' else 'accept'
    else:
        mistake = tag[7:] if tag.startswith('second:') else tag
        if tag != 'accept':
            if not rejected:
                return (f'mistake `{mistake}` (last call of the sequence) was accepted at configuration time', 'accepted:' + mistake.split(':')[0])
            if mistake == 'ret-few' and len(steps) == 1 and not f.get('walk', '').startswith('returnsnotmatch'):
                return (f'mistake `{mistake}`: the cause chain {f.get("chain")} walks to {f.get("walk")}, not to the typed cause returnsnotmatch', 'cause:ret-few')
            if mistake == 'when-few' and not f.get('walk', '').startswith('argsnotmatch'):
                return (f'mistake `{mistake}`: the cause chain {f.get("chain")} walks to {f.get("walk")}, not to the typed cause argsnotmatch', 'cause:when-few')
    before, beh = f.get('before'), f.get('beh')
    if rejected:
        if f.get('diff', 'none') != 'none':
            return (f'rejected call (`{steps[-1]}`) changed the executable image ({f["diff"]})', 'text-changed')
        if before in ('orig', 'cb', 'nil') or last_kind not in ('returns', 'matches'):
            # the rejected call must leave the target answering exactly as before (only a multi-group Returns/Matches on an
            # already mocked target may have installed its earlier groups)
            if beh != before:
                return (f'rejected call (`{steps[-1]}`) changed the target\'s behaviour {before} -> {beh}', 'behaviour-changed')
        elif beh not in ('stub', 'nomatch'):
            return (f'after the rejected call (`{steps[-1]}`) the earlier configuration no longer answers: {before} -> {beh}', 'behaviour-changed')
        if before == 'orig' and f.get('reg', 'none') not in ('none', 'stale'):
            return (f'rejected call left a usable patch registered ({f.get("reg")})', 'registry')
        if before == 'nil' and f.get('var', 'nil') != 'nil':
            return ('rejected interface mock still replaced the variable', 'iface-var')
    elif tag.startswith('rt:') and last_kind in ('apply', 'return', 'returns') and beh in ('orig', 'nil') and 'R' in tag:
        return (f'the correct call `{steps[-1]}` after a rejected one was accepted but the target is not mocked (behaves {beh})', 'retry-not-applied')
    if 'meth' in f and f['meth'] != 'nil':
        named = op.split()[2].split('@')[0]
        for part in f['meth'].split(','):
            n, b = part.split(':', 1)
            if n != named and b != 'unimpl':
                return (f'interface mock of method {named} also changed method {n} ({b})', 'iface-other-method')
            if n == named and b == 'unimpl':
                return (f'interface mock of method {named} did not reach that method ({f["meth"]})', 'iface-other-method')
    if f.get('after', 'ok') != 'ok':
        return (f'after this sequence a correct mock of the same target no longer works: {f["after"]}', 'after')
    return None


def strip_after(obs):
    if obs is None:
        return None
    return ' '.join(p for p in obs.split() if not p.startswith('after='))


# ------------------------------------------------------------------ running

def build_probe():
    zoo = os.path.join(C.BUILD, 'c13_zoo_test.go')
    new = Z.gen_zoo_go()
    if not os.path.exists(zoo) or open(zoo).read() != new:
        open(zoo, 'w').write(new)
    helpers = C.helper_pkgs()
    helpers['internal/patch'] = {'zz_verif_c13_export.go': os.path.join(C.HARNESS, 'c13', 'patch_export.go')}
    helpers['internal/zzverif/alt/mocker'] = {'alt.go': os.path.join(C.HARNESS, 'c13', 'altmocker', 'alt.go')}
    b, err = C.overlay_build('c13', '', {'zz_verif_c13_test.go': os.path.join(C.HARNESS, 'c13', 'probe_test.go'),
                                         'zz_verif_c13_zoo_test.go': zoo}, helpers)
    if b is None:
        raise C.Infra('C13 probe does not build against the current tree:\n' + err[-3000:])
    return b


PROBE_ENV = {'GOOM_DEBUG': '', 'GOTRACEBACK': 'single', 'GODEBUG': '', 'GOGC': '', 'GOMAXPROCS': ''}   # goom's / the runtime's env knobs are neutralised


def run_impl(binary, ops, tag, _solo=False):
    """Runs the probe.  A crash (SIGSEGV in patched code) or a kill ends the process: the line it died on is re-run ONCE alone —
    only a crash that reproduces is recorded as `crash`; a timeout / external kill that does not reproduce is not an observation
    about goom — and the run resumes after it."""
    ops_path = os.path.join(C.BUILD, f'{tag}.ops')
    open(ops_path, 'w').write('\n'.join(ops) + '\n')
    outp = os.path.join(C.BUILD, f'{tag}.impl')
    impl = [None] * len(ops)
    start, crashes = 0, 0
    while start < len(ops):
        rc, log = C.run_probe(binary, 'TestVerifC13', ops_path, outp, env=dict(PROBE_ENV, VERIF_START=str(start)), timeout=3000)
        got = C.read_indexed(outp, len(ops))
        last = start - 1
        for i in range(start, len(ops)):
            if got[i] is not None:
                impl[i] = got[i]
                last = i
        if any(g == 'probe-init-failed' for g in got if g):
            raise C.Infra('C13 probe could not map its own .text section (needs a non-PIE ELF test binary):\n' + log[-800:])
        if rc == 0:
            break
        crashes += 1
        if crashes > 20:
            raise C.Infra('C13 probe keeps dying:\n' + log[-1500:])
        if last + 1 < len(ops):
            if _solo:
                impl[last + 1] = 'crash'
            else:
                again, _ = run_impl(binary, [ops[last + 1]], tag + '-retry', _solo=True)
                impl[last + 1] = again[0] if again[0] is not None else 'crash'
        start = last + 2
    return impl, ops_path


def execute(ops, tag='c13'):
    b = build_probe()
    impl, ops_path = run_impl(b, ops, tag)
    exe, err = C.build_driver()
    if exe is None:
        return impl, None, err
    model = C.run_driver(exe, ops_path, os.path.join(C.BUILD, f'{tag}.model'))
    return impl, model, ''


def run(tier):
    out = C.Outcome('C13', tier)
    rng = C.Rng(C.seed()).fork('C13')
    proof = C.prove('C13', leanchecker=(tier == 'thorough'))
    ops, tags = generate(tier, rng)
    impl, model, derr = execute(ops)
    # 1. the property on the implementation
    bad = []
    for i, op in enumerate(ops):
        r = oracle(op, tags[i], impl[i])
        if r:
            bad.append((i, op, r[0], r[1]))
    by_key = {}
    for i, op, why, key in bad:
        by_key.setdefault(key, []).append((i, op, why))
    known_keys = {kf.get('match', {}).get('key') for kf in C.known_findings('C13') if kf.get('status') == 'known'}
    dev = {}
    for i, op in enumerate(ops):
        k = deviation(op, tags[i], impl[i])
        if k:
            dev.setdefault(k, []).append(i)
    for k, idx in dev.items():
        i = idx[0]
        out.violation(f'{ops[i]}: rejected, nothing patched, but the report deviates from the cause-chain clause ({k}; {len(idx)} generated calls)',
                      {'kind': 'impl-oracle', 'ops': [ops[i]], 'tags': [tags[i]], 'observed': impl[i], 'finding_key': k,
                       'how': 'python3 check.py C13 --replay <this file>'}, key=k)
    binary = build_probe() if any(k not in known_keys for k in by_key) else None
    unknown = [k for k in by_key if k not in known_keys]
    for key in [k for k in by_key if k in known_keys]:
        i, op, why = by_key[key][0]
        out.violation(f'{op}: {why} ({len(by_key[key])} generated calls of this kind)',
                      {'kind': 'impl-oracle', 'ops': [op], 'tags': [tags[i]], 'observed': impl[i], 'why': why, 'finding_key': key}, key=key)
    for key, items in [(k, by_key[k]) for k in unknown][:5]:
        # the replay must reproduce in a fresh process: ops of one run share a process (goom caches, earlier patches), so try the
        # self-contained sequence forms first and keep the first candidate that still fails when it is run alone
        cands = sorted(items, key=lambda it: 0 if it[1].split()[1].startswith(('seq', 'rt')) else 1)[:6]
        chosen, alone = None, None
        for (i, op, why) in cands:
            solo, _ = run_impl(binary, [op], 'c13-solo')
            if oracle(op, tags[i], solo[0]):
                chosen, alone = (i, op, why), solo[0]
                break
        if chosen is None:
            chosen = cands[0]
        i, op, why = chosen
        out.violation(f'{op}: {why} ({len(items)} generated calls of this kind)',
                      {'kind': 'impl-oracle', 'ops': [op], 'tags': [tags[i]], 'observed': impl[i], 'observed_alone': alone, 'why': why,
                       'finding_key': key, 'reproduces_alone': alone is not None,
                       'same_kind': [o for _, o, _ in items][:10],
                       'how': 'python3 check.py C13 --replay <this file>'}, key=key)
    # machinery floors: a lane that silently ran nothing must not pass
    forms = {}
    for i, op in enumerate(ops):
        if impl[i] and (impl[i].startswith('ok') or impl[i].startswith('rej:')):
            fk = op.split()[2] if op.split()[1] == 'dbg' else op.split()[1]
            forms[fk] = forms.get(fk, 0) + 1
    for fk, floor in (('func', 500), ('method', 100), ('iface', 100), ('seqf', 300), ('seqm', 50), ('seqi', 50), ('rtf', 100), ('rtm', 30), ('rti', 50), ('fm', 30), ('export', 10), ('nonfunc', 20)):
        if forms.get(fk, 0) < floor:
            raise C.Infra(f'C13 lane `{fk}` produced only {forms.get(fk, 0)} observations (floor {floor}): the probe did not run it')
    # 2. correspondence
    diffs = []
    if model is None:
        proof['failed'].append(('goomdrv', 'driver does not build: ' + derr[-500:]))
    else:
        diffs = C.diff_streams(ops, [strip_after(x) for x in impl], model)
    if not out.violations:      # (failures that match a known finding do not hide a broken proof or correspondence)
        if diffs:
            i, op, a, b = diffs[0]
            out.violation(f'model and implementation disagree on `{op}`',
                          {'kind': 'correspondence', 'ops': [op], 'tags': [tags[i]], 'impl': a, 'model': b,
                           'broken': 'correspondence Model/Reject.lean vs the real configuration call', 'n_disagreements_shown': len(diffs),
                           'more': [(o, x, y) for _, o, x, y in diffs[1:6]]}, no_failing_input=True)
        elif not proof['ok']:
            out.violation('proof obligations of Props/C13.lean no longer check and no failing input was found in the search',
                          {'kind': 'proof', 'broken': proof['failed'], 'searched': len(ops), 'output': proof.get('output', '')[-3000:]},
                          no_failing_input=True)
    # evidence
    dist_tag, dist_cls, dist_form = {}, {}, {}
    for i, op in enumerate(ops):
        t = tags[i].split(':')[0] if not tags[i].startswith('second:') else 'second:' + tags[i].split(':')[1]
        dist_tag[t] = dist_tag.get(t, 0) + 1
        dist_form[op.split()[1]] = dist_form.get(op.split()[1], 0) + 1
        c = (impl[i] or 'none').split()[0]
        c = c.split(':')[0] + ':' + c.split(':')[1] if c.startswith('rej:') else c
        dist_cls[c] = dist_cls.get(c, 0) + 1
    nontrivial = len({strip_after(impl[i]) + '|' + ' '.join(op.split()[1:3]) for i, op in enumerate(ops)
                      if impl[i] and (impl[i].startswith('rej:') or impl[i].startswith('ok'))})
    pick = [i for i in (0, len(ops) // 5, len(ops) // 3, len(ops) // 2, len(ops) - 1) if i < len(ops)]
    out.coverage = {
        'obligations': proof['obligations'], 'discharged': proof['discharged'],
        'checker_cmd': ' ; '.join(proof['cmds']),
        'trusted_base': ['Lean 4.33 kernel', 'axioms: ' + ', '.join(sorted({a for v in proof['axioms'].values() for a in v}) or ['none']),
                         'Model/Reject.lean: hand transcription of the validation points (compared with the real goom API on every evaluation below)',
                         'harness/c13 probe: panic/error canonicalisation, .text snapshot of the ELF section, behaviour classes',
                         'reflect/runtime panics modelled as classes; replaceFunc failure branches proved about but not reachable through the API on amd64'],
        'theorems': proof['axioms'], 'proof_failures': proof['failed'],
        'evaluations': len(ops), 'distinct_nontrivial': nontrivial,
        'traces_validated_against_impl': len(ops) - len(diffs),
        'oracle_failures': sum(len(v) for k, v in by_key.items() if k not in known_keys),
        'known_finding_hits': {**{k: len(v) for k, v in by_key.items() if k in known_keys}, **{k: len(v) for k, v in dev.items()}},
        'rule': 'one evaluation = one configuration call (or When(..).Return(..) pair) on a fresh builder against a real target; every mistake class '
                'x every target/method/interface-method signature x every position of the offending slot, plus accepted variants and random lanes; '
                'non-trivial = the call was performed (accepted or rejected), distinct by (form, target, full observation)',
        'distribution': {'by_injected_mistake': dict(sorted(dist_tag.items())), 'by_observed_class': dict(sorted(dist_cls.items())),
                         'by_form': dist_form, 'targets': len(Z.FUNCS), 'methods': len(Z.METHODS), 'iface_methods': len(Z.IMETHODS),
                         'accepted': sum(1 for x in impl if x and x.startswith('ok')), 'rejected': sum(1 for x in impl if x and x.startswith('rej:'))},
        'samples': [{'op': ops[i], 'tag': tags[i], 'impl': impl[i], 'model': model[i] if model else None} for i in pick],
    }
    out.assumptions = ['reflect and runtime panics are classes, not modelled internally', 'targets are the 43 signatures of the generated zoo',
                       'single-threaded configuration (concurrent configuration is C11)']
    return out.finish()


def replay(body):
    ops = body.get('ops', [])
    tags = body.get('tags') or ['accept'] * len(ops)
    impl, model, _ = execute(ops, tag='c13-replay')
    rc = 0
    for i, op in enumerate(ops):
        r = oracle(op, tags[i], impl[i])
        print(f'{op}   [injected: {tags[i]}]\n  impl : {impl[i]}\n  model: {model[i] if model else None}\n  oracle: {r[0] if r else "ok"}')
        if r or (model and strip_after(impl[i]) != model[i]):
            rc = 1
    return rc
