"""C11 — independent builders and concurrent callers are race-free and isolated.

Proof: Props/C11.lean — theorems over ALL schedules of the lock-level model Model/Conc.lean (mutual exclusion of both
locks, lockset, x on every page in every intermediate state, steady calls, non-interference, isolation).
Tie X: the real builder API is run from N builder goroutines x M caller goroutines (+ goroutines executing unmocked
code on the same pages) in a -race build, one child process per round; the canonical observation of the round is
compared with the model's (which is schedule independent by the theorems); the number of WriteTo scripts and the
mprotect protections are compared with the model under strace; the lock skeleton of the anchored functions is
extracted from the Go source and compared with the model's section structure.
The oracle below states the property itself on what the implementation did, independently of the model.
What only a TEST covers (labelled as such in the evidence): data races on fields the model does not list (race
detector), torn instruction fetch during the 13-byte write (crash-free stress).
"""
import json
import os
import re
import subprocess

from vlib import common as C

META = {
    'property_id': 'C11',
    'technique': 'Lean 4 theorems over all interleavings (induction over an arbitrary schedule list) of a lock-level model of patch table, guards, '
                 'WriteTo script and callers + differential stress of the real builder API under the race detector (N builders x M callers, shared pages), '
                 'strace of the mprotect script, source lock-skeleton comparison',
    'level': 'proof',
    'level_text': 'Partial proof: from every quiet state (steady mocks already in place), for every schedule, every program over pairwise disjoint targets and every page layout, the model has mutual exclusion of '
                  'patchesLock and memoryAccessLock (so the three-phase mprotect/copy/mprotect script of one thread never interleaves with another, even on a '
                  'shared page), every listed shared access is inside its lock, every page keeps x in every intermediate state, every call of a steadily '
                  'mocked function returns the mocked result (incl. callbacks calling the origin placeholder), other threads never change a thread\'s own '
                  'targets, each thread\'s targets, control state and the results of its own calls evolve exactly as in a run in which it alone is scheduled (isolation by solo simulation), the steady builder\'s targets are restored by its final reset (three-phase theorem), and '
                  'for every program of the generator\'s class (any builder operation sequence ending in reset; callers) all mocked functions are pristine and both locks free '
                  'at quiescence in every interleaving (quiescent_restored_builders, sequential part proved by a micro-step invariant). '
                  'The model is tied to the code by differential runs of the real API under -race.',
    'level_note': 'Partial because: (1) data races on fields the model does not list are only covered by the Go race detector during the stress runs (a test); '
                  '(2) torn instruction fetch during the 13-byte entry write and CPU cross-modifying-code behaviour cannot be exhibited by the model - only '
                  'crash-free stress (a test); (3) the 13-byte copy is one model step: Props states what that abstracts (CopyIsAtomic is refuted at byte level by copy_is_not_atomic_at_byte_level; '
                  'write_excludes_calls proves no modelled thread calls a location while any thread is inside its WriteTo script). Generic targets are exercised only with distinct GC shapes (same-shape sharing is known finding F28-c02-gcshape). internal/patch exports Unpatch/UnpatchInstanceMethod/UnpatchAll which '
                  'touch the patch table WITHOUT patchesLock; they are unreachable from the builder API (verified by grep on every run) and therefore outside '
                  'the property. Trusted: Lean kernel, probe + canonicalisation, kernel mprotect semantics.',
}

NT = 48
PROBE_FILES = {'zz_verif_c11_test.go': 'c11/probe_test.go', 'zz_verif_c11_targets_test.go': 'c11/targets_test.go',
               'zz_verif_c11_variadic_test.go': 'c11/variadic_test.go', 'zz_verif_c11_special_test.go': 'c11/special_test.go'}
NV = 6   # variadic steady targets: locations NT..NT+5 with 0,1,2,0,1,2 leading fixed parameters


# ------------------------------------------------------------------ generator

def gen_round(rng, tier, big=False):
    """One scenario: steady builder S, builders B1..Bn over pairwise disjoint targets, callers of S's targets, neighbour spinners."""
    hi_b = 6 if tier == 'quick' else 16
    hi_c = 8 if tier == 'quick' else 64
    nb = 1 + rng.below(hi_b)
    nc = rng.below(hi_c + 1)
    if big:
        nb, nc = hi_b, hi_c
    neigh = rng.below(4)
    k = rng.choice([5, 20, 60, 200]) if nc <= 16 else rng.choice([5, 20])
    y = rng.below(2)
    dbg = 1 if rng.below(3) == 0 else 0   # a share of the rounds runs with OpenDebug(): every replacement is wrapped by debug.go
    if dbg:
        k = min(k, 20)                     # the wrapper prints one line per call
        nc = max(nc, 3)
    mode = rng.choice(['cluster', 'spread', 'interleave'])
    pool = list(range(NT))
    if mode == 'spread':
        for i in range(NT - 1, 0, -1):  # shuffle
            j = rng.below(i + 1)
            pool[i], pool[j] = pool[j], pool[i]
    ns = 1 + rng.below(4) if nc else rng.below(3)
    per = max(1, min(4, (NT - ns) // nb))
    segs = []
    own = {}
    names = (['S'] if ns else []) + [f'B{i + 1}' for i in range(nb)]
    if mode == 'interleave':
        # deal a contiguous block of targets round-robin so that every page is shared between threads
        cap = {n: (ns if n == 'S' else 1 + rng.below(per)) for n in names}
        own = {n: [] for n in names}
        total = sum(cap.values())
        start = rng.below(NT - total + 1)
        i = 0
        for f in range(start, start + total):
            while len(own[names[i % len(names)]]) >= cap[names[i % len(names)]]:
                i += 1
            own[names[i % len(names)]].append(f)
            i += 1
    else:
        own['S'] = pool[:ns]
        for i in range(nb):
            cnt = 1 + rng.below(per)
            own[f'B{i + 1}'] = pool[ns + i * per: ns + i * per + cnt]
    steady = [f for f in own.get('S', [])]
    sbyname = rng.below(3) == 0
    for f in steady:
        kind = rng.choice(['ret', 'cb', 'cbo', 'cbo', 'tab', 'tab', 'tin', 'tov'])
        segs.append(f'S {"mockn" if sbyname else "mock"} {f} {kind} {1 + rng.below(90)} {1 if kind == "cbo" else 0}')
    nvar = 0
    if nc >= 2 and rng.below(5) < 3:   # variadic steady targets with When tables keyed on the variadic elements
        r0, cntv = rng.below(NV), 1 + rng.below(3)
        vs = [NT + (r0 + j) % NV for j in range(cntv)]
        nvar = len(vs)
        for f in vs:
            segs.append(f'S mock {f} tab {100 + rng.below(800)} 0')
        steady = steady + vs
    # function-literal targets (54..57, their bodies call a package-level function that other goroutines call) and two
    # generic instantiations of distinct GC shapes (58, 59) join the builders' target sets in half of the rounds
    specials = {}
    if rng.below(2) == 0 or big:
        bn = [n for n in own if n != 'S' and own[n]]
        for f in range(54, 60):
            if bn and rng.below(3) < 2:
                n = rng.choice(bn)
                own[n] = own[n] + [f]
                specials[f] = n
    kinds = {'mock': 0, 'mock_by_name': 0, 'chk': 0, 'reset': 0, 'ret': 0, 'tab': 0, 'tin': 0, 'cb': 0, 'cbo': 0, 'restub': 0,
             'ext(Matches)': 0, 'shared_placeholder_builders': 0}
    for i in range(nb):
        name = f'B{i + 1}'
        tg = own.get(name, [])
        if not tg:
            continue
        byname = rng.below(3) == 0            # this builder addresses its targets BY NAME (ExportFunc(name).As(sig))
        shareplh = len(tg) >= 2 and rng.below(3) == 0   # all its targets use ONE origin placeholder variable, one after the other
        if shareplh:
            kinds['shared_placeholder_builders'] += 1
            for f in tg:
                if f < NT and tg[0] < NT:
                    segs.append(f'P {f} {tg[0]}')
        mk = 'mockn' if byname else 'mock'
        nops = 2 + rng.below(10 if tier == 'quick' else 24)
        had_ret, origin, mocked, plain = set(), set(), set(), set()
        for _ in range(nops):
            c = rng.below(11)
            if c < 6:
                f = rng.choice(tg)
                if shareplh and mocked:       # a shared placeholder holds one relocated function at a time
                    f = sorted(mocked)[0]
                if f >= 54:   # literal: no origin placeholder of its own; generic: callbacks would receive the dictionary
                    ks = ['ret', 'tab', 'tin'] + (['cb', 'cb'] if f < 58 else [])
                    ks = [k for k in ks if not (f in had_ret and k != 'cb')]
                    if not ks:
                        continue
                    kind = rng.choice(ks)
                else:
                    kind = rng.choice(['cb', 'cbo'] if f in had_ret else ['ret', 'ret', 'tab', 'tin', 'cb', 'cbo'])
                if kind in ('ret', 'tab', 'tin'):
                    had_ret.add(f)
                plain.discard(f)
                if kind == 'ret':
                    plain.add(f)
                if kind == 'cbo':
                    origin.add(f)
                if f in mocked:
                    kinds['restub'] += 1
                mocked.add(f)
                segs.append(f'{name} {mk if f < 54 else "mock"} {f} {kind} {1 + rng.below(90)} {1 if f in origin else 0}')
                kinds['mock'] += 1
                kinds['mock_by_name'] += 1 if byname else 0
                kinds[kind] += 1
                if rng.below(3):
                    segs.append(f'{name} chk')
                    kinds['chk'] += 1
            elif c < 8:
                segs.append(f'{name} chk')
                kinds['chk'] += 1
            elif c < 9:
                if plain:                     # re-stub WITHOUT re-applying: When.Matches(...) on the existing plain Return mock
                    f = sorted(plain)[rng.below(len(plain))]
                    plain.discard(f)
                    segs.append(f'{name} chk')   # the plain mock is called at least once before it is extended
                    segs.append(f'{name} ext {f}')
                    segs.append(f'{name} chk')
                    kinds['ext(Matches)'] += 1
                    kinds['chk'] += 2
            else:
                segs.append(f'{name} reset')
                kinds['reset'] += 1
                had_ret, origin, mocked, plain = set(), set(), set(), set()
                if rng.below(4) == 0:  # double reset
                    segs.append(f'{name} reset')
                    kinds['reset'] += 1
        segs.append(f'{name} reset')
        segs.append(f'{name} chk')
        kinds['reset'] += 1
        kinds['chk'] += 1
    if steady:
        for i in range(nc):
            cnt = 1 + rng.below(len(steady))
            segs.append(f'C{i + 1} ' + ' '.join(str(steady[(i + j) % len(steady)]) for j in range(cnt)))
    else:
        nc = 0
    segs.append(f'N {neigh}')
    line = f'c11.round y={y} d={dbg} K={k} | ' + ' | '.join(segs)
    return line, {'nb': nb, 'nc': nc, 'neigh': neigh, 'mode': mode, 'kinds': kinds, 'debug': dbg, 'variadic': nvar,
                  'literal_targets': sum(1 for f in specials if f < 58), 'generic_targets': sum(1 for f in specials if f >= 58)}


# ------------------------------------------------------------------ independent expectation (the property, not the model)

def expect(line):
    """What the property demands of this round: each builder sees on its own targets exactly the effect of its own operations,
    callers of steadily mocked targets see the mocked result every time, everything is pristine at the end."""
    toks = line.split()
    segs, cur = [], []
    for t in toks[1:]:
        if t == '|':
            segs.append(cur)
            cur = []
        else:
            cur.append(t)
    segs.append(cur)
    hdr = dict(kv.split('=') for kv in segs[0])
    K = int(hdr.get('K', 1))
    order, prog = [], {}
    for s in segs[1:]:
        if s[0] in ('N', 'P'):
            continue
        if s[0] not in prog:
            prog[s[0]] = []
            order.append(s[0])
        prog[s[0]].append(s[1:])

    def val(st, f, a):
        m = st.get(f)
        if m is None:
            return a * 7 + f
        kind, v = m
        return {'ret': v, 'cb': a + v, 'cbo': a * 7 + f + v, 'tab': v + a if a in (1, 2) else v, 'tin': v + 5 if a in (1, 2) else v,
                'tov': v + 1 if a == 1 else v + 2}[kind]   # tov: When(1) registered before When(Any()): first match wins

    steady = {}
    for op in prog.get('S', []):
        steady[int(op[1])] = (op[2], int(op[3]))
    parts = []
    ci = 0
    for name in order:
        if name[0] == 'B':
            tg = sorted({int(op[1]) for op in prog[name] if op[0] in ('mock', 'mockn')})
            st, out = {}, []
            for op in prog[name]:
                if op[0] in ('mock', 'mockn'):
                    st[int(op[1])] = (op[2], int(op[3]))
                elif op[0] == 'ext':          # Matches(1 -> v+1, 2 -> v+2) on a plain Return(v): from now on the table answers
                    kd, v = st[int(op[1])]
                    st[int(op[1])] = ('tab', v) if kd == 'ret' else (kd, v)
                elif op[0] == 'reset':
                    st = {}
                else:
                    out += [str(val(st, f, a)) for f in tg for a in (3, 1)]
            parts.append(f'{name}=[' + ','.join(out) + ']')
        elif name[0] == 'C':
            cnt = {}
            for k in range(K):
                for f in (int(x) for s in prog[name] for x in s):
                    a = (ci + k) % 4 + 1
                    key = f'{f}:{a}>{val(steady, f, a)}'
                    cnt[key] = cnt.get(key, 0) + 1
            parts.append(f'{name}={{' + ';'.join(sorted(f'{k}*{n}' for k, n in cnt.items())) + '}')
            ci += 1
    return ' '.join(parts) + ' final=pristine'


def oracle(line, obs):
    """None if the property holds on this observation, else (what, key)."""
    if obs is None:
        return 'no observation for the round (probe died)', None
    main, _, extra = obs.partition(' ## ')
    kv = dict(p.split('=', 1) for p in extra.split() if '=' in p)
    races = int(kv.get('races', '0') or 0)
    if main.startswith('crash:') or main.startswith('timeout'):
        what = 'hang (round killed after 180 s, twice in a row)' if main.startswith('timeout') else main.split()[0]
        return f'process {what} during concurrent mock/reset/call ({kv.get("err", "")})', 'crash'
    if main == 'bad-op':
        return None
    want = expect(line)
    if main != want:
        a, b = main.split(' '), want.split(' ')
        first = next((f'{x[:160]} (wanted {y[:160]})' for x, y in zip(a, b) if x != y), 'length differs')
        extra_r = f' [+{races} race report(s), first goom frame {kv.get("raceat", "?")}]' if races else ''
        return f'observation differs from what isolation/steady-mock/restore demand: {first}{extra_r}', 'wrong-result'
    if races:
        return f'{races} data race report(s) by the Go race detector, first goom frame: {kv.get("raceat", "?")}', 'race:' + kv.get('raceat', '?')
    if kv.get('neighbad', '0') != '0':
        return 'an unmocked function sharing a page with a patched target returned a wrong result', 'neighbour'
    if kv.get('perms') != 'r-xp':
        return f'text pages are not r-x at quiescence: {kv.get("perms")}', 'perms'
    return None


# ------------------------------------------------------------------ plumbing

def build_probe():
    fm = {k: os.path.join(C.HARNESS, v) for k, v in PROBE_FILES.items()}
    b, err = C.overlay_build('c11-root', '', fm, C.helper_pkgs(), race=True, gcflags='all=-l -d=checkptr=0')
    if b is None:
        raise C.Infra('C11 probe does not build against the current tree:\n' + err[-3000:])
    return b


def execute(ops, tag='c11', binary=None):
    ops_path = os.path.join(C.BUILD, f'{tag}.ops')
    open(ops_path, 'w').write('\n'.join(ops) + '\n')
    binary = binary or build_probe()
    outp = os.path.join(C.BUILD, f'{tag}.impl')
    rc, log = C.run_probe(binary, 'TestVerifC11', ops_path, outp, timeout=(1800 if len(ops) < 200 else 3 * 3600), env={'GOOM_DEBUG': ''})   # global deadline
    if rc != 0:
        raise C.Infra(f'C11 probe failed rc={rc}:\n{log[-2000:]}')
    impl = C.read_indexed(outp, len(ops))
    if any(x is None for x in impl):   # floor: the parent process writes one line per round, whatever happens to the child
        raise C.Infra(f'C11 probe produced no line for {sum(1 for x in impl if x is None)} of {len(ops)} rounds:\n{log[-1500:]}')
    exe, err = C.build_driver()
    if exe is None:
        return impl, None, err
    model = C.run_driver(exe, ops_path, os.path.join(C.BUILD, f'{tag}.model'))
    return impl, model, ''


PAGE = os.sysconf('SC_PAGE_SIZE') if hasattr(os, 'sysconf') else 4096


def strace_round(binary, line):
    """Run one round under strace; returns dict(scripts, noexec, interleaved, text_calls, two_page_scripts) about mprotect calls on the
    text mapping, or a string saying why the lane could not run (no strace / ptrace denied / nothing traced): that is NOT a verdict."""
    tr = os.path.join(C.BUILD, 'c11.strace')
    if os.path.exists(tr):
        os.remove(tr)
    env = C.goenv({'VERIF_C11_LINE': line, 'GORACE': 'halt_on_error=0 exitcode=0'})
    env.pop('GOOM_DEBUG', None)
    try:
        p = subprocess.run(['strace', '-f', '-e', 'trace=mprotect', '-o', tr, binary, '-test.run', '^TestVerifC11Child$', '-test.count=1'],
                           env=env, capture_output=True, text=True, timeout=1800, cwd=C.BUILD)
    except (OSError, subprocess.TimeoutExpired) as e:
        return f'unavailable: {type(e).__name__}'
    m = re.search(r'text=([0-9a-f]+)-([0-9a-f]+)', p.stdout)
    if not m or not os.path.exists(tr):
        return 'unavailable: no observation under strace (ptrace denied?) ' + (p.stderr or '')[-120:].replace('\n', ' ')
    lo, hi = int(m.group(1), 16), int(m.group(2), 16)
    W, scripts, noexec, inter, n, two = [], 0, 0, 0, 0, 0
    pending = {}

    def apply(a, prot):
        nonlocal scripts, noexec, inter, n, two
        if not (lo <= a < hi):
            return
        n += 1
        if 'PROT_EXEC' not in prot:
            noexec += 1
        if 'PROT_WRITE' in prot:
            if not W:
                scripts += 1
            elif len(W) >= 2 or abs(W[-1] - a) != PAGE:
                inter += 1
            else:
                two += 1
            W.append(a)
        elif a in W:
            W.remove(a)
        else:
            inter += 1

    for l in open(tr, errors='replace'):
        pid = l.split(None, 1)[0]
        mm = re.search(r'mprotect\((0x[0-9a-f]+), (\d+), ([A-Z_|]+)', l)
        if mm and '<unfinished' in l:
            pending[pid] = (int(mm.group(1), 16), mm.group(3))
        elif mm and re.search(r'\)\s+= 0', l):
            apply(int(mm.group(1), 16), mm.group(3))
        elif 'mprotect resumed' in l and pid in pending:
            a, prot = pending.pop(pid)
            if re.search(r'\)\s+= 0', l):      # a failed call changes nothing
                apply(a, prot)
    if n == 0:
        return 'unavailable: strace recorded no mprotect call on the text mapping'
    return {'scripts': scripts, 'noexec': noexec, 'interleaved': inter + len(W), 'text_calls': n, 'two_page_scripts': two,
            'obs': (re.search(r'OBS (.*)', p.stdout) or [None, None])[1]}


UNLOCKED_EXPORTS = ('UnpatchAll', 'UnpatchInstanceMethod', 'Unpatch')


def unlocked_exports_reachable():
    """internal/patch exports three functions that touch `patches` without the lock (monkey.go:122-146). They are outside
    the property only as long as nothing in the builder API calls them."""
    hits = []
    for root, _, files in os.walk(C.REPO):
        rel = os.path.relpath(root, C.REPO)
        if rel.split(os.sep)[0] in ('.git', 'test', 'tool', 'example', 'examples', 'docs', 'doc'):
            continue
        for f in files:
            if f.endswith('.go') and not f.endswith('_test.go'):
                src = open(os.path.join(root, f), errors='replace').read()
                for name in UNLOCKED_EXPORTS:
                    if re.search(r'\bpatch\.' + name + r'\(', src):
                        hits.append(f'{os.path.relpath(os.path.join(root, f), C.REPO)}: patch.{name}')
    return hits


def skeleton_lane(exe):
    """Lock/access skeleton of the anchored functions, extracted from the CURRENT source (go/ast) vs the skeleton declared by
    the model's section bodies. Returns (n_compared, [differences])."""
    tool = os.path.join(C.BUILD, 'c11skel')
    rc, o, e = C.sh(['go', 'build', '-o', tool, '.'], cwd=os.path.join(C.HARNESS, 'c11', 'skel'), env=C.goenv())
    if rc != 0:
        raise C.Infra('building harness/c11/skel failed:\n' + e[-2000:])
    rc, o, e = C.sh([tool, C.REPO])
    rows = sorted(l.split('\t', 1) for l in o.splitlines() if '\t' in l)
    opsf = os.path.join(C.BUILD, 'c11.skel.ops')
    open(opsf, 'w').write(''.join(f'c11.skel {k}\n' for k, _ in rows))
    model = C.run_driver(exe, opsf, os.path.join(C.BUILD, 'c11.skel.model')) if rows else []
    diffs = [f'{k}: source `{v}` / model `{m}`' for (k, v), m in zip(rows, model) if v != m]
    if len(rows) < 14:
        diffs.append(f'only {len(rows)} of 14 anchored functions found in the source')
    return len(rows), diffs


def corpus():
    p = os.path.join(C.HARNESS, 'c11', 'corpus.ops')
    return [l.strip() for l in open(p) if l.strip() and not l.startswith('#')] if os.path.exists(p) else []


def run(tier):
    out = C.Outcome('C11', tier)
    rng = C.Rng(C.seed()).fork('C11')
    proof = C.prove('C11', leanchecker=(tier == 'thorough'))
    binary = build_probe()
    nrounds = 26 if tier == 'quick' else 600
    ops, metas = [], []
    for l in corpus():
        ops.append(l)
        metas.append({'nb': l.count('| B') and len({s.split()[0] for s in l.split('|')[1:] if s.split()[0].startswith('B')}), 'nc': 0, 'neigh': 0, 'mode': 'corpus', 'kinds': {}})
    for i in range(nrounds):
        l, m = gen_round(rng, tier, big=(i == 0))
        ops.append(l)
        metas.append(m)
    malformed = ['c11.round y=1 K=x | B1 chk', 'c11.round y=0 K=1 | B1 mock 99 ret 1 0', 'c11.round y=0 K=1 | B1 mock 1 zap 1 0', 'c11.round q=1 | B1 chk']
    ops += malformed
    impl, model, derr = execute(ops, binary=binary)
    n_real = len(ops) - len(malformed)
    # 1. the property on the implementation
    bad = []
    for i, op in enumerate(ops):
        r = oracle(op, impl[i])
        if r:
            bad.append((i, op, r[0], r[1]))
    seen = set()
    for i, op, why, key in bad:
        if key in seen:
            continue
        seen.add(key)
        out.violation(why, {'kind': 'impl-oracle', 'ops': [op], 'observed': impl[i], 'expected': expect(op) if not op.startswith('c11.round q') else None,
                            'how': 'python3 check.py C11 --replay <this file>   (concurrent: may need several runs; replay repeats the round 20 times)'},
                      key=key)
    # 2. correspondence: observation stream, mprotect script under strace, unlocked exports
    mains = [(x.partition(' ## ')[0] if x is not None else None) for x in impl]
    diffs = C.diff_streams(ops, mains, model) if model is not None else []
    wexe, _ = C.build_driver()
    corr = []
    st_lines = [ops[i] for i in ([0, len(corpus()) - 1, len(corpus()) + 1, len(corpus()) + 2][: 3 if tier == 'quick' else 4]) if i < n_real]
    st_lines += [ops[i] for i in range(len(corpus()) + 3, min(n_real, len(corpus()) + 3 + (0 if tier == 'quick' else 30)))]
    st_results, st, wmodel = [], None, None
    for st_line in st_lines:
        one = strace_round(binary, st_line)
        if isinstance(one, str):
            st_results.append(one)
            continue
        wr_ops = os.path.join(C.BUILD, 'c11.writes.ops')
        open(wr_ops, 'w').write(st_line.replace('c11.round', 'c11.writes', 1) + '\n')
        wm = C.run_driver(wexe, wr_ops, os.path.join(C.BUILD, 'c11.writes.model'))[0] if wexe else None
        st, wmodel = one, wm
        st_results.append({k: v for k, v in one.items() if k != 'obs'} | {'model': wm})
        if one['noexec']:
            out.violation(f'{one["noexec"]} mprotect call(s) on the text mapping without PROT_EXEC (a page of running code lost x)',
                          {'kind': 'impl-oracle', 'ops': [st_line], 'strace': one}, key='noexec')
        if one['interleaved']:
            out.violation('mprotect calls on the text mapping do not form serial RWX..RX scripts (two WriteTo scripts interleaved, or a page left writable)',
                          {'kind': 'impl-oracle', 'ops': [st_line], 'strace': one}, key='interleaved')
        # +1: the probe itself performs one page-crossing WriteTo of identical bytes at the start of every round
        mcop = int(wm.split('=')[1]) if wm and wm.startswith('copies=') else None
        if mcop is None or one['scripts'] != mcop + 1:
            corr.append(f'WriteTo scripts under strace: {one["scripts"]}, model: {wm} (+1 for the probe\'s own page-crossing write)')
        if one['two_page_scripts'] < 1:
            corr.append('the page-crossing WriteTo of the probe did not produce a two-page mprotect script')
    st_line = st_lines[0] if st_lines else ops[0]
    # interleaved model traces: the model on pseudo-random schedules (with lock contention) must give the observation of the
    # sequential schedule (theorem C11.isolation, executed) — and therefore the implementation's
    shuf_n = 0
    if wexe and model is not None:
        pick = list(range(min(n_real, 10 if tier == 'quick' else 24)))
        sh_ops = [f'c11.shuffle {C.seed() * 7 + j} ' + ops[i].split(' ', 1)[1] for i in pick for j in (0, 1)]
        shf = os.path.join(C.BUILD, 'c11.shuffle.ops')
        open(shf, 'w').write('\n'.join(sh_ops) + '\n')
        shm = C.run_driver(wexe, shf, os.path.join(C.BUILD, 'c11.shuffle.model'))
        for n_, i in enumerate(i for i in pick for _ in (0, 1)):
            shuf_n += 1
            if shm[n_] != model[i]:
                corr.append(f'model on an interleaved schedule differs from the sequential schedule on round {i}: {shm[n_][:200]} / {model[i][:200]}')
                break
        if shuf_n < 2:
            raise C.Infra('interleaved-schedule lane ran nothing')
    nskel, skdiff = skeleton_lane(wexe) if wexe else (0, ['driver missing'])
    corr += ['lock skeleton differs — ' + d for d in skdiff]
    reach = unlocked_exports_reachable()
    if reach:
        corr.append('unlocked patch-table accessors are now reachable from non-test code: ' + '; '.join(reach))
    if model is None:
        proof['failed'].append(('goomdrv', 'driver does not build: ' + derr[-500:]))
    if not out.violations and not out.known_hits and (diffs or corr or not proof['ok']):
        # something is broken but no failing input yet: widen the search (x8 rounds, bigger teams) before saying so
        wops = [gen_round(rng, 'thorough' if i % 2 else tier, big=(i % 16 == 0))[0] for i in range(8 * nrounds if tier == 'quick' else nrounds)]
        wimpl, _, _ = execute(wops, tag='c11-widen', binary=binary)
        for i, op in enumerate(wops):
            r = oracle(op, wimpl[i])
            if r and r[1] not in seen:
                seen.add(r[1])
                out.violation(r[0], {'kind': 'impl-oracle', 'ops': [op], 'observed': wimpl[i], 'expected': expect(op), 'found_by': 'widened search',
                                     'how': 'python3 check.py C11 --replay <this file>'}, key=r[1])
        widened = len(wops)
    else:
        widened = 0
    if not out.violations and not out.known_hits:
        if diffs:
            i, op, a, b = diffs[0]
            out.violation('model and implementation disagree on a round', {'kind': 'correspondence', 'ops': [op], 'impl': a, 'model': b,
                          'broken': 'correspondence Model/Conc.lean vs real builder API', 'n_disagreements_shown': len(diffs)}, no_failing_input=True)
        elif corr:
            out.violation('model and implementation disagree: ' + corr[0], {'kind': 'correspondence', 'ops': [st_line], 'details': corr, 'strace': st,
                          'broken': 'correspondence Model/Conc.lean (WriteTo script / reachable API) vs source'}, no_failing_input=True)
        elif not proof['ok']:
            out.violation('proof obligations of Props/C11.lean no longer check and no failing input was found in the search',
                          {'kind': 'proof', 'broken': proof['failed'], 'searched': len(ops), 'output': proof.get('output', '')[-3000:]}, no_failing_input=True)
    # evidence
    ext = [dict(p.split('=', 1) for p in (x or '').partition(' ## ')[2].split() if '=' in p) for x in impl[:n_real]]
    tot = lambda k: sum(int(e.get(k, 0) or 0) for e in ext)
    kinds = {}
    for m in metas:
        for k, v in m.get('kinds', {}).items():
            kinds[k] = kinds.get(k, 0) + v
    nontrivial = len({mains[i] for i in range(n_real) if mains[i] and ext[i].get('overlap', '0') != '0'})
    out.coverage = {
        'obligations': proof['obligations'], 'discharged': proof['discharged'],
        'checker_cmd': ' ; '.join(proof['cmds']),
        'trusted_base': ['Lean 4.33 kernel', 'axioms: ' + ', '.join(sorted({a for v in proof['axioms'].values() for a in v}) or ['none']),
                         'hand-written model Model/Conc.lean (tied by the differential rounds, the strace lane and the reachability grep below)',
                         'probe harness/c11 + canonicalisation; Linux mprotect applies the requested protection to exactly the pages named',
                         'TEST ONLY (not proved): Go race detector over the rounds for fields the model does not list; crash-free stress for torn instruction fetch'],
        'theorems': proof['axioms'], 'proof_failures': proof['failed'],
        'evaluations': n_real, 'distinct_nontrivial': nontrivial,
        'traces_validated_against_impl': n_real - len([d for d in diffs if d[0] < n_real]),
        'rule': 'one evaluation = one concurrent round in a fresh -race process (steady builder + N builders over disjoint targets + M callers + '
                'neighbour spinners); non-trivial = distinct observation of a round in which builder operations measurably overlapped in time',
        'distribution': {
            'rounds': n_real, 'widened_search_rounds': widened, 'corpus': len(corpus()), 'malformed_lane': len(malformed),
            'builders_per_round': {str(k): sum(1 for m in metas if m['nb'] == k) for k in sorted({m['nb'] for m in metas})},
            'callers_max': max((m['nc'] for m in metas), default=0), 'callers_total': sum(m['nc'] for m in metas),
            'layout_modes': {k: sum(1 for m in metas if m['mode'] == k) for k in sorted({m['mode'] for m in metas})},
            'op_kinds': kinds, 'rounds_with_debug_logging': sum(1 for m in metas if m.get('debug')),
            'function_literal_targets_total': sum(m.get('literal_targets', 0) for m in metas), 'generic_targets_total': sum(m.get('generic_targets', 0) for m in metas),
            'rounds_with_variadic_steady_tables': sum(1 for m in metas if m.get('variadic')), 'variadic_steady_targets_total': sum(m.get('variadic', 0) for m in metas),
            'builder_ops_total': tot('ops'), 'builder_ops_overlapping_another_builder': tot('overlap'),
            'same_page_pairs(target, other used location)': tot('share'), 'targets_whose_13_bytes_cross_a_page': tot('cross'),
            'race_reports': tot('races'), 'text_kb_diffed_per_round': int(ext[0].get('textkb', 0)) if ext else 0,
            'interleaved_model_schedules_compared': shuf_n, 'strace_lane': st_results, 'strace_rounds_traced': sum(1 for x in st_results if isinstance(x, dict)),
            'unlocked_exports_reachable_from_api': reach, 'source_skeletons_compared': nskel, 'source_skeleton_differences': skdiff,
        },
        'samples': [{'op': ops[i][:400], 'impl': (impl[i] or '')[:400], 'model': (model[i] if model else '')[:300]} for i in (0, n_real // 2, n_real - 1, len(ops) - 1)],
        'explanation': 'Only observed, not proved: absence of data races on fields outside the model (race detector, a test), absence of torn '
                       'instruction fetch (crash-free stress, a test).',
    }
    out.assumptions = ['kernel mprotect/page semantics', 'CPU cross-modifying code behaviour', 'Go runtime scheduler fairness is irrelevant: theorems hold for every schedule']
    return out.finish()


def replay(body):
    ops = [o for o in body.get('ops', [])]
    rc = 0
    reps = ops * 20 if body.get('kind') == 'impl-oracle' else ops
    impl, model, _ = execute(reps, tag='c11-replay')
    shown = 0
    for i, op in enumerate(reps):
        why = oracle(op, impl[i])
        main = (impl[i] or '').partition(' ## ')[0]
        if why or (model and main != model[i]):
            rc = 1
            if shown < 3:
                print(f'{op}\n  impl : {impl[i]}\n  model: {model[i] if model else None}\n  oracle: {why[0] if why else "ok"}')
                shown += 1
    print('replay:', 'property violated' if rc else f'no violation in {len(reps)} repetitions')
    return rc
